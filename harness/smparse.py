"""Parse-back of generated state-machine sources into the structures of the Lean emitters."""
import re


def norm_tt(tt):
    """table as the Lean model sees it: '' / None / none -> null"""
    def n(x):
        return None if (x is None or x == "" or x.lower() == "none") else x
    return [[r[0], r[1], n(r[2]), n(r[3]), n(r[4])] for r in tt]


def py_process_region(text, name, states):
    """[{state, evs:[{ev, blocks:[{guard, body:[...]}]}]}] from <name>StateMachine.py"""
    lines = text.splitlines()
    fns = []
    i = 0
    cur_fn = cur_ev = cur_blk = None
    errors = []
    in_region = False
    for ln in lines:
        m = re.match(r"^    def process(\w+)\(self, event\) -> None:\s*$", ln)
        if m:
            cur_fn = dict(state=m.group(1), evs=[])
            fns.append(cur_fn)
            cur_ev = cur_blk = None
            in_region = True
            continue
        if not in_region or cur_fn is None:
            continue
        if re.match(r"^    #@\}", ln):
            in_region = False
            continue
        if not ln.strip():
            continue
        ind = len(ln) - len(ln.lstrip(" "))
        body = ln.strip()
        if ind == 8:
            m = re.match(r"^if isinstance\(event, (\w+)\):$", body)
            if m:
                cur_ev = dict(ev=m.group(1), blocks=[])
                cur_fn["evs"].append(cur_ev)
                cur_blk = None
                continue
            if body.startswith("print(") or body == "self.context.NoTransition(event)":
                cur_ev = cur_blk = None
                cur_fn.setdefault("tail", []).append("print" if body.startswith("print(") else "notransition")
                continue
            errors.append("unexpected line at indent 8: " + body)
        elif ind == 12 and cur_ev is not None:
            m = re.match(r"^if self\.context\.(\w+)\(event\):$", body)
            if m:
                cur_blk = dict(guard=m.group(1), body=[])
                cur_ev["blocks"].append(cur_blk)
                continue
            if body == "if True:":
                cur_blk = dict(guard=None, body=[])
                cur_ev["blocks"].append(cur_blk)
                continue
            errors.append("unexpected line at indent 12: " + body)
        elif ind == 16 and cur_blk is not None:
            if body == "return":
                cur_blk["body"].append(["return"])
                continue
            m = re.match(r"^self\.currentState = %sStateId\.c(\w+)$" % re.escape(name), body)
            if m:
                cur_blk["body"].append(["assign", m.group(1)])
                continue
            m = re.match(r"^self\.context\.(\w+)\(event\)$", body)
            if m:
                cb = m.group(1)
                me = re.match(r"^On(\w+)Exit$", cb)
                mn = re.match(r"^On(\w+)Entry$", cb)
                if me and me.group(1) in states:
                    cur_blk["body"].append(["exit", me.group(1)])
                elif mn and mn.group(1) in states:
                    cur_blk["body"].append(["entry", mn.group(1)])
                else:
                    cur_blk["body"].append(["action", cb, cur_ev["ev"]])
                continue
            errors.append("unexpected line at indent 16: " + body)
        else:
            errors.append("unexpected indentation %d: %s" % (ind, body))
    tails_ok = all(f.get("tail") == ["print", "notransition"] for f in fns)
    for f in fns:
        f.pop("tail", None)
    # the dispatch chain in process()
    chain = re.findall(r"^        if self\.currentState == %sStateId\.c(\w+):\n            self\.process(\w+)\(event\)\n            return$" % re.escape(name), text, re.M)
    m = re.search(r"self\.context\.On(\w+)Entry\(EventStartup\(\)\)\n\s+self\.currentState = %sStateId\.c(\w+)" % re.escape(name), text)
    init = m.group(1) if m and m.group(1) == m.group(2) else None
    return dict(fns=fns, init=init, chain=chain, errors=errors, tails_ok=tails_ok)


def cs_internals(text, name):
    """state classes of <name>Internals.cs -> [{state, evs:[{ev, blocks:[{guard, body}]}], entry, exit}], reset state"""
    errors = []
    classes = []
    for m in re.finditer(r"internal class (\w+) : %sState\s*\{" % re.escape(name), text):
        start = m.end()
        depth, i = 1, start
        while depth and i < len(text):
            depth += {"{": 1, "}": -1}.get(text[i], 0)
            i += 1
        body = text[start:i - 1]
        cls = dict(state=m.group(1), evs=[])
        for hm in re.finditer(r"internal override void Trigger(\w+)\(I%sContext context, %sStateMachine sm, (\w+) data\)\s*\{" % (re.escape(name), re.escape(name)), body):
            if hm.group(1) != hm.group(2):
                errors.append("handler Trigger%s takes %s" % (hm.group(1), hm.group(2)))
            hs = hm.end()
            d, j = 1, hs
            while d and j < len(body):
                d += {"{": 1, "}": -1}.get(body[j], 0)
                j += 1
            hbody = body[hs:j - 1]
            ev = dict(ev=hm.group(1), blocks=[])
            pos = 0
            toks = re.compile(r"\s*(?:if \(context\.([\w:]+)\(\)\)\s*)?\{([^{}]*)\}", re.S)
            while True:
                bm = toks.match(hbody, pos)
                if not bm:
                    break
                blk = dict(guard=bm.group(1), body=[])
                for st in [x.strip() for x in bm.group(2).split(";") if x.strip()]:
                    # (the helper ignores its type parameter: `sm.Exit()` is the same step - leaving the current state)
                    m1 = re.match(r"^sm\.Exit(?:<([\w:]+)>)?\(\)$", st)
                    m2 = re.match(r"^sm\.Enter<([\w:]+)>\(\)$", st)
                    m3 = re.match(r"^sm\.estate = E%sState\.([\w:]+)$" % re.escape(name), st)
                    m4 = re.match(r"^context\.([\w:]+)\(data\)$", st)
                    if m1:
                        blk["body"].append(["exit", m1.group(1) or cls["state"]])
                    elif m2:
                        blk["body"].append(["entry", m2.group(1)])
                    elif m3:
                        blk["body"].append(["assign", m3.group(1)])
                    elif m4:
                        blk["body"].append(["action", m4.group(1), hm.group(1)])
                    elif st == "return":
                        blk["body"].append(["return"])
                    else:
                        errors.append("unexpected statement: " + st)
                ev["blocks"].append(blk)
                pos = bm.end()
            if hbody[pos:].strip():
                errors.append("unparsed handler text: " + hbody[pos:].strip()[:60])
            cls["evs"].append(ev)
        me = re.search(r"internal override void OnEntry\(I%sContext context\)\s*\{\s*context\.On(\w+)Entry\(\);\s*\}" % re.escape(name), body)
        mx = re.search(r"internal override void OnExit\(I%sContext context\)\s*\{\s*context\.On(\w+)Exit\(\);\s*\}" % re.escape(name), body)
        cls["entry"] = me.group(1) if me else None
        cls["exit"] = mx.group(1) if mx else None
        classes.append(cls)
    mr = re.search(r"internal void Reset\(\)\s*\{\s*Enter<(\w+)>\(\);\s*estate = E%sState\.(\w+);" % re.escape(name), text)
    reset = mr.group(1) if mr and mr.group(1) == mr.group(2) else None
    enum = re.search(r"internal enum E%sState : ushort\s*\{([^}]*)\}" % re.escape(name), text)
    enum_members = [x.strip() for x in enum.group(1).split(",") if x.strip()] if enum else []
    base = re.findall(r"internal virtual void Trigger(\w+)\(I%sContext context, %sStateMachine sm, (\w+) data\)\{\}" % (re.escape(name), re.escape(name)), text)
    return dict(classes=classes, reset=reset, enum=enum_members, base=base, errors=errors)


def cs_context(text, name, states):
    m = re.search(r"public interface I%sContext\s*\{(.*?)\};" % re.escape(name), text, re.S)
    out = []
    errors = []
    if not m:
        return dict(decls=[], errors=["context interface not found"])
    for st in [x.strip() for x in m.group(1).split(";") if x.strip()]:
        st = re.sub(r"^(///[^\n]*\n\s*)+", "", st).strip()
        st = "\n".join(l for l in st.splitlines() if not l.strip().startswith("//")).strip()
        if not st:
            continue
        m1 = re.match(r"^bool (\w+)\(\)$", st)
        m2 = re.match(r"^void (\w+)\((\w+) data\)$", st)
        m3 = re.match(r"^void On(\w+)Entry\(\)$", st)
        m4 = re.match(r"^void On(\w+)Exit\(\)$", st)
        if m1:
            out.append(["guard", m1.group(1)])
        elif m3 and m3.group(1) in states:
            out.append(["entry", m3.group(1)])
        elif m4 and m4.group(1) in states:
            out.append(["exit", m4.group(1)])
        elif m2:
            out.append(["action", m2.group(1), m2.group(2)])
        else:
            errors.append("unexpected member: " + st[:80])
    return dict(decls=out, errors=errors)


def sml_table(text):
    """rows of make_transition_table( ... ) -> list like the Lean EmitSml rows"""
    m = re.search(r"return make_transition_table\(\n(.*?)\n\s*\);", text, re.S)
    if not m:
        return None, ["make_transition_table not found"]
    rows, errors = [], []
    for ln in m.group(1).splitlines():
        s = ln.strip()
        if not s or s.startswith("//"):
            continue
        me = re.match(r"^, state<(\w+)> \+ boost::sml::on_(entry|exit)<_> / (\w+)$", s)
        if me:
            exp = me.group(1)[0].lower() + me.group(1)[1:] + ("OnEntry" if me.group(2) == "entry" else "OnExit")
            if me.group(3) != exp:
                errors.append("hook %s for state %s" % (me.group(3), me.group(1)))
            rows.append([me.group(2), me.group(1)])
            continue
        mt = re.match(r"^(\*|,)\s*state<(\w+)>\s*\+event<(\w+)>\s*\[(\w+)\]\s*/\s*(\w+)(?:\s*=\s*state<(\w+)>)?$", s)
        if mt:
            rows.append(["trans", mt.group(1) == "*", mt.group(2), mt.group(3), mt.group(4), mt.group(5), mt.group(6)])
            continue
        errors.append("unparsed row: " + s)
    return rows, errors


def cpp_decls(impl, ctrl, smh, name):
    """names declared by the generated C++ units (multisets as lists)"""
    d = {}
    d["state_fwd"] = re.findall(r"^    struct (\w+);$", impl, re.M)
    d["guard_structs"] = re.findall(r"struct (\w+)\s*\{\s*bool operator\(\)\(controllertype& ctrl\)", impl)
    d["entry_structs"] = re.findall(r"struct (\w+)OnEntry\{", impl)
    d["exit_structs"] = re.findall(r"struct (\w+)OnExit\{", impl)
    d["action_structs"] = re.findall(r"struct (\w+)\s*\{\s*template <class Event>", impl)
    d["instances"] = re.findall(r"^            (\w+)\s+(\w+);$", impl, re.M)
    d["ctrl_guards"] = re.findall(r"virtual bool (\w+)\(\)", ctrl)
    d["ctrl_entry"] = re.findall(r"virtual void (\w+)_on_entry\(\)", ctrl)
    d["ctrl_exit"] = re.findall(r"virtual void (\w+)_on_exit\(\)", ctrl)
    d["ctrl_actions"] = re.findall(r"virtual void (\w+)\((\w+) const& data\)", ctrl)
    d["events"] = re.findall(r"struct (\w+) : public Event", ctrl)
    d["is_state"] = re.findall(r"virtual bool Is(\w+)\(\) const = 0;", smh)
    d["triggers"] = re.findall(r"virtual void Trigger(\w+)\(", smh)
    return d
