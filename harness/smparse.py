"""Parse-back of generated state-machine sources into the structures of the Lean emitters."""
import re


def norm_tt(tt):
    """table as the Lean model sees it: '' / None / none -> null"""
    def n(x):
        return None if (x is None or x == "" or x.lower() == "none") else x
    return [[r[0], r[1], n(r[2]), n(r[3]), n(r[4])] for r in tt]


def py_process_region(text, name, states):
    """[{state, evs:[{ev, blocks:[{guard, body:[...]}]}]}] from <name>StateMachine.py"""
    lines = text.splitlines()
    fns = []
    i = 0
    cur_fn = cur_ev = cur_blk = None
    errors = []
    in_region = False
    for ln in lines:
        m = re.match(r"^    def process(\w+)\(self, event\) -> None:\s*$", ln)
        if m:
            cur_fn = dict(state=m.group(1), evs=[])
            fns.append(cur_fn)
            cur_ev = cur_blk = None
            in_region = True
            continue
        if not in_region or cur_fn is None:
            continue
        if re.match(r"^    #@\}", ln):
            in_region = False
            continue
        if not ln.strip():
            continue
        ind = len(ln) - len(ln.lstrip(" "))
        body = ln.strip()
        if ind == 8:
            m = re.match(r"^if isinstance\(event, (\w+)\):$", body)
            if m:
                cur_ev = dict(ev=m.group(1), blocks=[])
                cur_fn["evs"].append(cur_ev)
                cur_blk = None
                continue
            if body.startswith("print(") or body == "self.context.NoTransition(event)":
                cur_ev = cur_blk = None
                cur_fn.setdefault("tail", []).append("print" if body.startswith("print(") else "notransition")
                continue
            errors.append("unexpected line at indent 8: " + body)
        elif ind == 12 and cur_ev is not None:
            m = re.match(r"^if self\.context\.(\w+)\(event\):$", body)
            if m:
                cur_blk = dict(guard=m.group(1), body=[])
                cur_ev["blocks"].append(cur_blk)
                continue
            if body == "if True:":
                cur_blk = dict(guard=None, body=[])
                cur_ev["blocks"].append(cur_blk)
                continue
            errors.append("unexpected line at indent 12: " + body)
        elif ind == 16 and cur_blk is not None:
            if body == "return":
                cur_blk["body"].append(["return"])
                continue
            m = re.match(r"^self\.currentState = %sStateId\.c(\w+)$" % re.escape(name), body)
            if m:
                cur_blk["body"].append(["assign", m.group(1)])
                continue
            m = re.match(r"^self\.context\.(\w+)\(event\)$", body)
            if m:
                cb = m.group(1)
                me = re.match(r"^On(\w+)Exit$", cb)
                mn = re.match(r"^On(\w+)Entry$", cb)
                if me and me.group(1) in states:
                    cur_blk["body"].append(["exit", me.group(1)])
                elif mn and mn.group(1) in states:
                    cur_blk["body"].append(["entry", mn.group(1)])
                else:
                    cur_blk["body"].append(["action", cb, cur_ev["ev"]])
                continue
            errors.append("unexpected line at indent 16: " + body)
        else:
            errors.append("unexpected indentation %d: %s" % (ind, body))
    tails_ok = all(f.get("tail") == ["print", "notransition"] for f in fns)
    for f in fns:
        f.pop("tail", None)
    # the dispatch chain in process()
    chain = re.findall(r"^        if self\.currentState == %sStateId\.c(\w+):\n            self\.process(\w+)\(event\)\n            return$" % re.escape(name), text, re.M)
    m = re.search(r"self\.context\.On(\w+)Entry\(EventStartup\(\)\)\n\s+self\.currentState = %sStateId\.c(\w+)" % re.escape(name), text)
    init = m.group(1) if m and m.group(1) == m.group(2) else None
    return dict(fns=fns, init=init, chain=chain, errors=errors, tails_ok=tails_ok)
