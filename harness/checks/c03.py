"""C03 — no silent loss: LostCode next to its file and reported; undecodable files not clobbered."""
import json
import os
import time

import common
import e2e
import findings
import genlib
from checks import c01
from common import Outcome, finish, proof_status, rng, scratch

PROP = "C03"
TRUSTED = c01.TRUSTED + ["Python's surrogateescape codec (byte <-> code point bijection) is trusted, validated bytewise by the correspondence"]


def lost_expectations(before, after_fresh_names):
    """{rel: {tagname: body lines}} of non-empty user blocks whose tag the new file lacks"""
    out = {}
    for rel, data in before.items():
        if rel.endswith(".LostCode.txt") or rel not in after_fresh_names:
            continue
        old, _, _ = genlib.spec_blocks(data.decode("utf-8", "surrogateescape"))
        gone = {n: b for n, b in old.items() if b and n not in after_fresh_names[rel]}
        if gone:
            out[rel] = gone
    return out


def check_lost(real, outdir_arg, cwd, before, after, fresh_tree, ret):
    """returns a violation description or None"""
    names = {rel: set(genlib.spec_blocks(d.decode("utf-8", "surrogateescape"))[0]) for rel, d in fresh_tree.items()}
    exp = lost_expectations(before, names)
    ret_abs = {os.path.normpath(os.path.join(cwd, os.path.join(outdir_arg, x))) for x in (ret or [])}
    for rel, gone in exp.items():
        lc = rel + ".LostCode.txt"
        if lc not in after:
            where = [k for k in after if k.endswith(".LostCode.txt")]
            return "user code under vanished tags %s of %s was not written to %s (LostCode files present: %s)" % (sorted(gone), rel, lc, where)
        text = after[lc].decode("utf-8", "surrogateescape")
        lines = genlib.split_nl(text)
        for name, body in gone.items():
            idx = [i for i, l in enumerate(lines) if name in l and "{{{" in l]
            ok = False
            for a in idx:
                for b in idx:
                    if b > a:
                        seg = lines[a + 1:b]
                        it = iter(seg)
                        if all(any(x.replace("\t", "    ") == y for y in it) for x in body):
                            ok = True
            if not ok:
                return "LostCode for %s does not hold every line of tag %s between two labels" % (rel, name)
        if os.path.normpath(os.path.join(real, lc)) not in ret_abs:
            return "LostCode file %s is not listed in the generator's return value %r" % (lc, ret)
    # nothing spurious: a LostCode file written in this run must be expected
    for k in after:
        if k.endswith(".LostCode.txt") and after[k] != before.get(k) and k[:-len(".LostCode.txt")] not in exp:
            return "spurious LostCode file %s (no non-empty tag vanished)" % k
    stray = [k for k in after if k.endswith(".LostCode.txt") and k not in before and os.path.dirname(k) != os.path.dirname(k[:-len(".LostCode.txt")])]
    if stray:
        return "LostCode file in the wrong directory: %s" % stray
    return None


BLOCKS = {"guard": ("PER_GUARD", "GUARDNAME", (4,)), "action": ("PER_ACTION", "ACTIONNAME", (3,)),
          "state": ("PER_STATE", "STATENAME", (0, 2)), "event": ("PER_EVENT", "EVENTNAME", (1,))}


def write_user_templates(r, tpl):
    """a user template directory: per-element blocks whose USER tags are model-derived; some files carry
    no fixed tag at all, so a model change can make every tag of a file vanish.  Returns the kinds used."""
    os.makedirs(tpl)
    used = set()
    for i in range(r.randint(1, 3)):
        kinds = r.sample(sorted(BLOCKS), r.choice([1, 1, 2]))
        used |= set(kinds)
        body = "#pragma once\n"
        if r.random() < 0.4:
            body += "/// {{{USER_HEADER_INCLUDES}}}\n/// {{{USER_HEADER_INCLUDES}}}\n"
        for k in kinds:
            blk, nm, _ = BLOCKS[k]
            sfx = r.choice(["", "_body", "_%d" % i])
            body += ("    <<<%s_BEGIN>>>\n    void <<<%s>>>%s()\n    {\n        /// {{{USER_<<<%s>>>%s}}}\n        /// {{{USER_<<<%s>>>%s}}}\n    }\n    <<<%s_END>>>\n"
                     % (blk, nm, sfx, nm, sfx, nm, sfx, blk))
        body += "// end\n"
        with open(os.path.join(tpl, "TEMPLATEPart%d.h" % i), "w") as f:
            f.write(body)
    return sorted(used)


def rename_all(r, model, kind):
    """rename every element of one kind: all tags derived from that kind vanish at once"""
    import copy
    m = copy.deepcopy(model)
    cols = BLOCKS[kind][2]
    sfx = r.choice(["X", "2", "Renamed"])
    olds = {row[c] for row in m["tt"] for c in cols if row[c] and row[c].lower() != "none"}
    for row in m["tt"]:
        for c in cols:
            if row[c] in olds:
                row[c] = row[c] + sfx
    if kind == "event":
        m["iface"]["structs"] = [((s + sfx if s in olds else s), mem) for s, mem in m["iface"]["structs"]]
    return m, "rename-all-%ss" % kind


def drop_all(r, model, kind):
    """remove every guard / every action from the table: files whose tags all derive from them keep no tag at all"""
    import copy
    m = copy.deepcopy(model)
    col = BLOCKS[kind][2][0]
    for row in m["tt"]:
        row[col] = "None"
    return m, "drop-all-%ss" % kind


def uml_in_folders(r):
    """a synthesised class diagram with operations, generated into namespace folders"""
    import umlsynth
    for _ in range(20):
        spec = umlsynth.rand_spec(r)
        if any(c["kind"] == "class" and c["ns"] and any(o["name"] != c["name"] for o in c["ops"]) for c in spec["classes"]):
            break
    return dict(kind="uml", backend=r.choice(["uml", "umlcs"]), project=genlib.BLOB, diagram=spec["diagram"], ns_folders=True, dclspc="", synth=spec)


def drop_an_operation(r, model):
    m = json.loads(json.dumps(model))
    cs = [c for c in m["synth"]["classes"] if c["kind"] == "class" and c["ops"] and c["ns"]] or [c for c in m["synth"]["classes"] if c["ops"]]
    if not cs:
        return genlib.mutate_model(r, model)
    c = r.choice(cs)
    del c["ops"][r.randrange(len(c["ops"]))]
    return m, "remove-operation-directed"


def lost_case(runner, r, oc, reqs, pend, big=False, user_templates=False, uml_folders=False):
    model = genlib.rand_model(r, ("sm",) if user_templates else ("sm", "sm", "proto", "uml", "uml"), big) if not uml_folders else uml_in_folders(r)
    with scratch() as base:
        kinds = []
        if user_templates:
            model["templatedir"] = os.path.join(base, "tpl")
            kinds = write_user_templates(r, model["templatedir"])
        outdir_arg, cwd = genlib.rand_outdir_spelling(r, base)
        real = os.path.join(base, "out")
        hist = dict(models=[model], outdir=outdir_arg, cwd=cwd, mutations=[])
        if user_templates:
            hist["templates"] = {n: open(os.path.join(model["templatedir"], n)).read() for n in sorted(os.listdir(model["templatedir"]))}
        with e2e.in_cwd(cwd):
            runner.generate(model, outdir_arg)
            for step in range(r.choice([1, 2])):
                for rel, data in sorted(e2e.snapshot(real).items()):
                    if not rel.endswith(".LostCode.txt"):
                        genlib.edit_file(r, os.path.join(real, rel), fraction=1.0 if uml_folders else 0.8)
                droppable = [k for k in kinds if k in ("guard", "action")]
                if uml_folders and step == 0:
                    model, what = drop_an_operation(r, model)
                elif droppable and r.random() < 0.35:
                    model, what = drop_all(r, model, r.choice(droppable))
                elif kinds and r.random() < 0.7:
                    model, what = rename_all(r, model, r.choice(kinds))
                else:
                    model, what = genlib.mutate_model(r, model)
                hist["models"].append(model)
                hist["mutations"].append(what)
                before = e2e.snapshot(real)
                files_before = e2e.decode_tree(real)
                with scratch() as fb:
                    runner.generate(model, os.path.join(fb, "o"))
                    fresh_tree = e2e.snapshot(os.path.join(fb, "o"))
                ret, fresh = runner.generate(model, outdir_arg)
                after = e2e.snapshot(real)
                # every file the generator reports must exist where it says
                msg = check_lost(real, outdir_arg, cwd, before, after, fresh_tree, ret)
                outside = [p for p in e2e.snapshot(base) if not p.startswith("out" + os.sep) and not p.startswith("other") and not p.startswith("tpl" + os.sep)]
                if not msg and outside:
                    msg = "files written outside the output directory: %s" % outside[:3]
                if msg:
                    oc.violations.append(dict(what=msg, history=hist, ret=ret, tree=sorted(after)))
                    return
                nlost = sum(1 for k in after if k.endswith(".LostCode.txt") and after[k] != before.get(k))
                oc.stat("steps_with_lostcode" if nlost else "steps_without_lostcode")
                if user_templates:
                    oc.stat("user_template_steps")
                    allgone = [rel for rel, d in before.items() if not rel.endswith(".LostCode.txt") and rel in fresh_tree
                               and genlib.spec_blocks(d.decode("utf-8", "surrogateescape"))[0]
                               and not set(genlib.spec_blocks(d.decode("utf-8", "surrogateescape"))[0]) & set(genlib.spec_blocks(fresh_tree[rel].decode("utf-8", "surrogateescape"))[0])]
                    if allgone:
                        oc.stat("files_whose_every_tag_vanished", len(allgone))
                oc.stat("outdir_" + ("abs" if os.path.isabs(outdir_arg) else "rel"))
                if fresh is not None:
                    reqs.append(e2e.regen_request(cwd, outdir_arg, files_before, fresh))
                    pend.append(("regen", dict(history=hist, step=step), (e2e.decode_tree(real), ret)))
                else:
                    oc.corr_failures.append(dict(what="could not capture the fresh code model", history=hist))
        oc.case(("lost", json.dumps(hist, sort_keys=True, default=str)), nontrivial=True)
        if len(oc.samples) < 2:
            oc.samples.append(dict(first_model=hist["models"][0], mutations=hist["mutations"], outdir=outdir_arg, cwd=cwd))


def rand_bytes_line(r):
    k = r.randrange(7)
    if k == 0:
        return "caf\xe9 na\xefve \xa3\n".encode("latin-1")
    if k == 1:
        return "int x;".encode("utf-16-le") + b"\n"
    if k == 2:
        return b"a\x00b\x00\x00\n"
    if k == 3:
        return b"\xff\xfe\xfd\n"
    if k == 4:
        return b"\xc3(\xe2\x82 \xf0\x9f\n"           # truncated multi-byte sequences
    if k == 5:
        return bytes(r.choice([b for b in range(256) if b not in (9, 10, 13)]) for _ in range(r.randint(1, 30))) + b"\n"
    return "ok 中文 \U0001F600\n".encode("utf-8")


def bytes_case(runner, r, oc, reqs, pend):
    """user files with bytes invalid in the platform encoding: carried over exactly"""
    model = genlib.rand_model(r, ("sm", "sm", "proto", "uml"))
    with scratch() as base:
        real = os.path.join(base, "out")
        runner.generate(model, real)
        touched = []
        for rel, data in sorted(e2e.snapshot(real).items()):
            text = data.decode("utf-8", "surrogateescape")
            dups = genlib.duplicate_tags(text)
            lines, tags = genlib.tag_positions(text)
            tags = [t for t in tags if t[2] not in dups]
            if not tags or r.random() < 0.3:
                continue
            blines = [l.encode("utf-8", "surrogateescape") for l in lines]
            for (o, c, name) in sorted(r.sample(tags, min(len(tags), r.randint(1, 3))), reverse=True):
                body = [rand_bytes_line(r) for _ in range(r.randint(1, 3))]
                if any(b"{{{USER_" in b for b in body):
                    continue
                blines[o + 1:c] = body
            with open(os.path.join(real, rel), "wb") as f:
                f.write(b"".join(blines))
            touched.append(rel)
        before = e2e.snapshot(real)
        files_before = e2e.decode_tree(real)
        ret, fresh = runner.generate(model, real)
        after = e2e.snapshot(real)
        bad = [k for k in before if after.get(k) != before[k]]
        if bad or set(after) != set(before):
            oc.violations.append(dict(what="file with bytes that are invalid in the platform encoding was not carried over exactly: %s" % (bad or sorted(set(after) ^ set(before)))[:3],
                                      model=model, before={k: before[k] for k in bad[:1]}, after={k: after.get(k) for k in bad[:1]}))
            return
        if fresh is not None:
            reqs.append(e2e.regen_request("/", real, files_before, fresh))
            pend.append(("regen", dict(model=model, touched=touched), (e2e.decode_tree(real), ret)))
        oc.case(("bytes", json.dumps(model, sort_keys=True, default=str), repr(sorted(before.items()))[:2000]), nontrivial=bool(touched))
        oc.stat("byte_cases")
        if not any("touched" in s for s in oc.samples):
            oc.samples.append(dict(model=model, touched=touched, example=repr(before[touched[0]][:300]) if touched else ""))


def search():
    r = rng(PROP, "search")
    runner = genlib.Runner()
    oc = Outcome(PROP)
    for i in range(120):
        lost_case(runner, r, oc, [], [], uml_folders=(i % 3 == 1))
        lost_case(runner, r, oc, [], [], user_templates=True)
        bytes_case(runner, r, oc, [], [])
        if oc.violations:
            return oc.violations[0]
    return None


def run(tier):
    t0 = time.time()
    thorough = tier == "thorough"
    proof = proof_status(PROP, thorough)
    oc = Outcome(PROP)
    oc.rule = ("lost: chains of model mutations with user text in 80% of the tag pairs, output directory spelled absolute / relative / './x/' / 'x//' / '../x' from other cwd; "
               "also user template directories whose USER tags are all model-derived (per state / event / action / guard), with every element of a kind renamed at once or all guards / actions dropped, so that all tags of a file vanish or the file keeps no tag at all; "
               "oracle: every non-empty block whose tag vanished is in <file>.LostCode.txt next to the file, labelled, complete, listed in the return value, nothing spurious; "
               "bytes: Latin-1 / UTF-16 / NUL / invalid UTF-8 inside user blocks, regeneration must be byte-identical; every step also through the Lean pipeline model")
    oc.assumptions = TRUSTED
    r = rng(PROP)
    runner = genlib.Runner()
    reqs, pend = [], []
    for i in range(250 if thorough else 35):
        lost_case(runner, r, oc, reqs, pend, big=thorough, uml_folders=(i % 8 == 5))
        if oc.violations:
            break
    for i in range(120 if thorough else 20):
        if oc.violations:
            break
        lost_case(runner, r, oc, reqs, pend, big=thorough, user_templates=True)
    for i in range(150 if thorough else 25):
        if oc.violations:
            break
        bytes_case(runner, r, oc, reqs, pend)
    c01.settle(oc, reqs, pend)
    return finish(PROP, tier, proof, oc, t0, trusted=TRUSTED, search=search)


def replay(path):
    return c01.replay(path)
