"""C11 — threaded Python state machine: exactly-once FIFO, run-to-completion, stop() ends."""
import json
import os
import random
import time

import common
import genlib
import sched
from checks import c01
from common import Outcome, finish, lean_batch, proof_status, rng, scratch

PROP = "C11"
TRUSTED = [
    "Lean 4.33 kernel; axioms propext, Classical.choice, Quot.sound only",
    "Model/PyQueue is hand-written after run/stop/dispatch of the shipped template; granularity: lock regions, queue operations and join are atomic steps (get() + empty() + re-put of the marker is one step: after stop() only the worker itself can enqueue)",
    "tied by executing the real generated module under harness/sched.py (stand-ins for threading/queue, seeded cooperative scheduler): every executed schedule's label sequence must be enabled in the model step by step and produce the same order of process() calls; a schedule with no enabled thread is a deadlock, not a hang",
    "CPython's queue.Queue / threading.RLock / Thread.join semantics assumed as in the stand-ins; fairness is an assumption of the termination argument (variant + no-deadlock)",
]
MODEL = dict(kind="sm", backend="py", name="Thr", ns="NS", iface=dict(structs=[], usertags={"StateMachineThread": 1}),
             tt=[["S1", "EvA", "S2", "ActA", "None"], ["S2", "EvA", "S1", "ActA", "None"], ["S1", "EvB", "None", "ActB", "None"], ["S2", "EvB", "None", "ActB", "None"]])


BURST = 300


def scenario(r, out, oc, reqs, pend, burst=False):
    nprod = r.choice([1, 2, 2, 3])
    totals = [r.randint(0, 3) for _ in range(nprod)]
    cb_total = r.choice([0, 0, 1, 2])
    if burst:
        # a long backlog: one producer triggers BURST events while the first callback is still busy; that callback then
        # triggers an event of its own (the queue is unbounded: nothing blocks, nothing is lost)
        nprod, totals, cb_total = 1, [BURST], 1
    seed = r.randrange(1 << 30)
    sim = sched.Sim(random.Random(seed))
    ctrl_mod, sm_mod = sched.load_machine(sim, out, "Thr")
    cb_left = [cb_total]
    holder = {}

    class Ctrl(ctrl_mod.ThrController):
        def _act(self, event):
            if sim.me() == "worker" and cb_left[0] > 0:
                cb_left[0] -= 1
                if burst:
                    sim.sync(lambda: counters.get(0, 0) >= 257)       # busy until a backlog has built up
                holder["sm"].TriggerEvB()

        def ActA(self, event):
            self._act(event)

        def ActB(self, event):
            pass

        def OnS1Entry(self, e):
            pass

        def OnS1Exit(self, e):
            pass

        def OnS2Entry(self, e):
            pass

        def OnS2Exit(self, e):
            pass

        def NoTransition(self, e):
            pass

    with common.quiet():
        sm = sm_mod.ThrStateMachine(Ctrl())
    holder["sm"] = sm
    counters = {}
    real_dispatch, real_process = sm.dispatch if hasattr(sm, "dispatch") else None, sm.process
    violations = []

    def dispatch(event):
        me = sim.me()
        src = "cb" if me == "worker" else me
        event._id = (src, counters.get(src, 0))
        counters[src] = counters.get(src, 0) + 1
        if me != "worker":
            sim.pstate[me] = "dispatching"
        return real_dispatch(event)

    def process(event):
        sim.begun.append(list(getattr(event, "_id", ("?", -1))))
        sim.active += 1
        if sim.active > 1:
            sim.overlap = True
        try:
            with common.quiet():
                return real_process(event)
        finally:
            sim.active -= 1
            if sim.me() == "worker":
                sim.labels.append(["wEnd"])

    if real_dispatch is not None:
        sm.dispatch = dispatch
    sm.process = process

    def producer(k):
        def f():
            for _ in range(k):
                sm.TriggerEvA()
        return f

    def stopper():
        if burst:
            sim.sync(lambda: counters.get(0, 0) >= BURST)        # (the backlog scenario stops after the burst)
        sim.pstate["stopper"] = "stopping"
        sm.stop()
        sim.stop_returned_at = len(sim.begun)

    sim.stop_returned_at = None
    for p, k in enumerate(totals):
        sim.spawn(p, producer(k), "producer%d" % p)
    sim.spawn("stopper", stopper, "stopper")
    result = sim.run()
    info = dict(totals=totals, cbTotal=cb_total, schedule_seed=seed, labels=sim.labels, begun=sim.begun, result=result)
    errs = [repr(i["error"]) for i in sim.threads.values() if i.get("error")]
    if errs:
        violations.append("exception in a thread: %s" % errs[:2])
    if result != "finished":
        violations.append("no runnable thread (%s): stop() never returns / deadlock" % result)
    if sim.overlap:
        violations.append("two process() bodies were active at the same time")
    ids = [tuple(x) for x in sim.begun]
    if len(set(ids)) != len(ids):
        violations.append("an event was processed twice: %s" % ids)
    for src in set(i[0] for i in ids):
        seq = [i[1] for i in ids if i[0] == src]
        if seq != sorted(seq):
            violations.append("events of %s processed out of trigger order: %s" % (src, seq))
    if result == "finished":
        want = {(p, i) for p, k in enumerate(totals) for i in range(k)} | {("cb", i) for i in range(counters.get("cb", 0))}
        if set(ids) != want:
            violations.append("triggered events %s, processed %s" % (sorted(want, key=str), sorted(set(ids), key=str)))
    for v in violations:
        oc.violations.append(dict(what=v, scenario=info))
    if not violations:
        reqs.append(dict(cmd="pyqueue", totals=totals, cbTotal=cb_total, labels=sim.labels))
        pend.append(info)
    oc.case(("sched", json.dumps(info["labels"]), tuple(totals)), nontrivial=sum(totals) > 0)
    oc.stat("producers_%d" % nprod)
    oc.stat("cb_%d" % cb_total)
    if any(l[0] == "syncBegin" for l in sim.labels):
        oc.stat("schedules_with_synchronous_fallback")
    # stop() with a non-empty queue
    lab = [l[0] for l in sim.labels]
    if "stopCall" in lab:
        i = lab.index("stopCall")
        if lab[:i].count("trig") > lab[:i].count("wGet"):
            oc.stat("stop_called_with_nonempty_queue")
    if len(oc.samples) < 2:
        oc.samples.append(info)


def two_instances_case(out, oc, n_events=24):
    """two machines of the same generated class alive in one process (real threads): the events triggered on one are
    processed by that one - all of them, in order, on its own worker - the other gets none, and both stop()"""
    import sys
    import threading
    saved = {k: sys.modules.get(k) for k in ("ThrController", "ThrStateMachine")}
    sys.path.insert(0, out)
    try:
        for k in saved:
            sys.modules.pop(k, None)
        ctrl_mod = __import__("ThrController")
        sm_mod = __import__("ThrStateMachine")
    finally:
        sys.path.remove(out)
    try:
        logs = {"A": [], "B": []}
        gate = threading.Event()

        def make(tag):
            class Ctrl(ctrl_mod.ThrController):
                def ActA(self, event):
                    # the first callback of the machine the events go to is busy for a while: its own worker cannot take the
                    # rest meanwhile - nobody else may
                    if tag == "A" and not logs["A"]:
                        logs[tag].append(("ActA", threading.current_thread().name))
                        gate.wait(5)
                        return
                    logs[tag].append(("ActA", threading.current_thread().name))

                def ActB(self, event):
                    logs[tag].append(("ActB", threading.current_thread().name))

                def OnS1Entry(self, e):
                    pass

                def OnS1Exit(self, e):
                    pass

                def OnS2Entry(self, e):
                    pass

                def OnS2Exit(self, e):
                    pass

                def NoTransition(self, e):
                    pass
            with common.quiet():
                return sm_mod.ThrStateMachine(Ctrl())
        a, b = make("A"), make("B")
        for _ in range(n_events):
            a.TriggerEvA()
        import time as _t
        _t.sleep(0.3)
        stolen = len(logs["B"])
        gate.set()
        done = {}

        def stop(tag, sm):
            sm.stop()
            done[tag] = True
        ts = [threading.Thread(target=stop, args=(t, m), daemon=True) for t, m in (("A", a), ("B", b))]
        for t in ts:
            t.start()
        for t in ts:
            t.join(8)
        oc.case(("two-instances", n_events), nontrivial=True)
        oc.stat("two_instance_runs")
        problems = []
        if not (done.get("A") and done.get("B")):
            problems.append("stop() did not return for %s" % [t for t in ("A", "B") if not done.get(t)])
        if len(logs["A"]) != n_events:
            problems.append("the machine the %d events were triggered on processed %d of them" % (n_events, len(logs["A"])))
        if logs["B"] or stolen:
            problems.append("the other machine's controller was called %d times" % max(len(logs["B"]), stolen))
        if problems:
            oc.violations.append(dict(what="two machines of the same generated class in one process: " + "; ".join(problems), scenario=dict(events_on_A=n_events, events_on_B=0)))
    finally:
        for k, v in saved.items():
            if v is None:
                sys.modules.pop(k, None)
            else:
                sys.modules[k] = v


def run(tier):
    t0 = time.time()
    thorough = tier == "thorough"
    proof = proof_status(PROP, thorough)
    oc = Outcome(PROP)
    oc.rule = ("the real generated threaded machine executed under a seeded cooperative scheduler: 1-3 producer threads with 0-3 triggers each, 0-2 events triggered from callbacks on the worker, "
               "a thread calling stop() at a scheduler-chosen moment; a few backlog scenarios (300 events queued while the first callback is busy, which then triggers one more); oracle on the execution: no overlap of process() bodies, every triggered event processed exactly once, per-source order, "
               "stop() returns (no schedule without enabled thread), nothing lost; each schedule's label sequence replayed on Model/PyQueue (must be enabled step by step, same process order); "
               "non-trivial = at least one event triggered")
    oc.assumptions = TRUSTED
    r = rng(PROP)
    runner = genlib.Runner()
    reqs, pend = [], []
    with scratch() as base:
        out = os.path.join(base, "out")
        runner.generate(MODEL, out)
        for i in range(4000 if thorough else 500):
            scenario(r, out, oc, reqs, pend, burst=i % 250 == 7)
            if oc.violations:
                break
        if not oc.violations:
            for k in range(3 if thorough else 1):
                two_instances_case(out, oc, n_events=[24, 1, 200][k])
    for info, ans in zip(pend, lean_batch(reqs)):
        oc.traces_validated += 1
        if "error" in ans:
            oc.corr_failures.append(dict(what="Lean driver error: " + ans["error"], scenario=info))
        elif ans["failed_at"] is not None:
            oc.corr_failures.append(dict(what="executed schedule is not a trace of Model/PyQueue: label %d (%s) not enabled" % (ans["failed_at"], info["labels"][ans["failed_at"]]), scenario=info))
        elif ans["begun"] != info["begun"] or ans["stopper"] != "returned" or ans["alive"]:
            oc.corr_failures.append(dict(what="model and execution disagree on the outcome: model %s" % ans, scenario=info))
    return finish(PROP, tier, proof, oc, t0, trusted=TRUSTED)


def replay(path):
    return c01.replay(path)
