"""C16 — template engine: per-element blocks expand once per element, in model order."""
import os
import time

import common
import engrun
import engtpl
import engunit
import genlib
from checks import c01
from common import Outcome, finish, lean_batch, proof_status, rng, scratch

PROP = "C16"
TRUSTED = [
    "Lean 4.33 kernel; axioms propext, Classical.choice, Quot.sound only",
    "Model/Engine is a hand-written string-level transliteration of cgen.py / smgen.py (tag scanners, PairExpander, per-element expanders, nested transition expansion, "
    "loader's search-and-replace and blank-line filter, user tags / IF / FOR); tied every run by (a) function-level differential runs of the helpers and "
    "(b) differential runs of the public Generate.StateMachine* entry points with generated template directories (well-formed and malformed) against Engine.generate, "
    "comparing the code model handed to the preservation pass, exceptions included",
    "Model/EngineSpec is the token-level reference expander (the property's statement); every well-formed generated case compares the real output files with it: a difference is a violation",
    "proved so far (see Props/C16): pair expander over chunks, per-state/event/action/guard blocks (once per element, order, case variants, counters), blank-line and TAB filters; "
    "nested transition blocks with alternative text, action-signature and struct/message blocks, signature/member/documentation/attribute lines are covered by the two comparisons only",
    "language back end answers (signatures, member text) enter the model as tables computed by calling the real generator's helpers; Python's str/re on ASCII plus the Unicode white-space set; "
    "EXTENDS/EXCLUDE, TTT table renderers, PyAttr, DATETIME/PLATFORM are outside the model",
]


def case(runner, r, base, i, profile, rich_ok, malformed, oc, ereqs, epend, sreqs, spend, wreqs):
    model = genlib.with_meta(r, genlib.rand_sm_model(r))
    if r.random() < 0.3:
        model = engtpl.with_eventless_rows(r, model)
        oc.stat("tables_with_rows_without_event")
    if i % 40 == 5:
        # more elements than the letter cycle has letters (a..z, A..Z, then a again): 53-70 interface structs, which are
        # also stateless events - every per-struct / per-event block still has one expansion per element
        model = dict(model, iface=dict(model["iface"], structs=list(model["iface"]["structs"]) + [("EventBulk%02d" % j, []) for j in range(r.randint(53, 70))]))
        oc.stat("models_with_more_than_52_elements")
    tpl = engtpl.rand_template(r, profile, rich_ok=rich_ok)
    if i % 40 == 5:
        for kind in ("STRUCT", "PE"):
            tpl[0]["items"].append(engtpl.rand_block(r, kind, rich=False))
    if model["iface"].get("enums") and r.random() < 0.7:
        # the multi-line global value on a line of its own, indented by spaces, TABs or both, with or without text around it
        segs = [["lit", r.choice(["", "    ", "  ", "\t", "\t    ", "  \t", "        "])]] + ([["lit", r.choice(["// ", "x", "enums: "])]] if r.random() < 0.3 else []) \
            + [["tag", "ENUMS"]] + ([["lit", r.choice([" //", "}", ";"])]] if r.random() < 0.3 else [])
        f0 = r.choice(tpl)
        f0["items"].insert(r.randrange(len(f0["items"]) + 1), dict(k="line", segs=[x for x in segs if x[1] != ""]))
    if not malformed:
        for f in tpl:
            f["final_newline"] = True
    fl = [(f["name"], engtpl.render_file(f)) for f in tpl]
    if malformed:
        fl = [(n, engtpl.malform(r, l)) for n, l in fl]
    ut = engtpl.rand_usertags(r)
    cap, err, req, final = engrun.real_run(runner, model, fl, ut, os.path.join(base, "c%d" % i))
    info = dict(model=model, usertags=ut, templates=[[n, "".join(l)] for n, l in fl])
    ereqs.append(req)
    epend.append((info, cap, err))
    oc.stat("profile_" + profile + ("_malformed" if malformed else ("_rich" if rich_ok else "")))
    # a global tag with a multi-line value (the declarations of the interface's enumerations): the engine indents the
    # continuation lines like the tag's line - part of Model/Engine (compared below), not of the token-level reference
    multi = bool(req.get("enums")) and any("<<<ENUMS>>>" in l for _, ls in fl for l in ls)
    if multi:
        oc.stat("templates_with_a_multi_line_global_value")
    oc.stat("backend_" + model["backend"])
    if not malformed and not rich_ok and multi:
        # the reference for these: the template with the rule for multi-line values already applied (engtpl.preexpand_multiline)
        tpl2 = [dict(f, items=engtpl.preexpand_multiline(f["items"], "ENUMS", req["enums"])) for f in tpl]
        if all(f["items"] is not None for f in tpl2):
            itf = genlib.build_iface(runner.kt, model["iface"])
            order = os.path.join(base, "c%d" % i)
            sreqs.append(engtpl.spec_request(model, engrun.in_listing_order(tpl2, order), itf, ut, enums=""))
            fl2 = [(f["name"], engtpl.render_file(f)) for f in tpl2]
            spend.append((info, engrun.in_listing_order(fl2, order, name=lambda f: f[0]), err, final))
            oc.stat("multi_line_global_values_compared_with_the_reference")
    if not malformed and not rich_ok and not multi:
        itf = genlib.build_iface(runner.kt, model["iface"])
        q = engtpl.spec_request(model, engrun.in_listing_order(tpl, os.path.join(base, "c%d" % i)), itf, ut, enums=req.get("enums", ""))
        sreqs.append(q)
        spend.append((info, engrun.in_listing_order(fl, os.path.join(base, "c%d" % i), name=lambda f: f[0]), err, final))
        wreqs.append(dict(q, cmd="engwf"))
    if err is None and final and any("nested in <<<STATENAME>>> / " in l for _, ls in fl for l in ls):
        # the one statement about nested plain blocks that needs no reference expander: on a line of the inner block the
        # enclosing state's tag has the name of a *state* (the inner block's own element comes behind the slash)
        import re
        states_ = {x for row in model["tt"] for x in (row[0], row[2]) if x and x.lower() != "none"}
        for fname_, text_ in sorted(final.items()):
            for mm in re.finditer(r"^nested in (\S+) / (\S*)$", text_, re.M):
                oc.stat("nested_block_lines_checked")
                if mm.group(1) not in states_:
                    oc.violations.append(dict(what="a per-element block nested in a transition block: line %r of %s names %r where the enclosing state belongs (states: %s)" % (
                        mm.group(0), fname_, mm.group(1), sorted(states_)[:6]), **info))
                    break
            if oc.violations:
                break
    kinds = set()

    def walk(items):
        for it in items:
            k = it["k"]
            if k in ("block", "pst", "if", "for"):
                kinds.add(k if k != "block" else it["kind"])
    for f in tpl:
        walk(f["items"])
    for k in kinds:
        oc.stat("construct_" + k)
    fordefaults = {}
    for f in tpl:
        for it in f["items"]:
            if it["k"] == "for" and it["sparam"].get("t") == "tag":
                fordefaults.setdefault(it["sparam"]["name"], []).append(it["sparam"]["dflt"])
    if fordefaults:
        oc.stat("construct_for_over_user_tag")
    if any(len(set(v)) > 1 for v in fordefaults.values()):
        oc.stat("construct_for_over_user_tag_with_competing_defaults")
    nontrivial = bool(kinds) and len(model["tt"]) >= 2
    oc.case(("tpl", repr(info["templates"]), repr(model["tt"]), repr(ut)), nontrivial=nontrivial)


def settle(oc, ereqs, epend, sreqs, spend, wreqs, what_engine="Model/Engine.generate"):
    for (info, cap, err), a in zip(epend, lean_batch(ereqs)):
        oc.traces_validated += 1
        if "error" in a:
            oc.corr_failures.append(dict(what="Lean driver error: " + a["error"][:300], **info))
        elif err is not None or cap is None:
            oc.stat("generator_raised")
            if a["ok"]:
                oc.corr_failures.append(dict(what="the generator raised (%s) where %s produces output" % (err, what_engine), **info))
        elif not a["ok"]:
            oc.corr_failures.append(dict(what="%s rejects a template the generator expands" % what_engine, **info))
        else:
            got = {k: v for k, v in a["files"]}
            if got != cap:
                bad = [k for k in cap if got.get(k) != cap[k]]
                oc.corr_failures.append(dict(what="%s differs from the generator's code model in %s" % (what_engine, bad[:2]), **info))
    for (info, fl, err, final), a in zip(spend, lean_batch(sreqs)):
        if "error" in a:
            oc.corr_failures.append(dict(what="Lean driver error (spec): " + a["error"][:300], **info))
            continue
        for f, (n, lines) in zip(a["files"], fl):
            if f["rendered"] != lines:
                raise common.Infra("template rendering of harness and Spec.renderFile differ: %r / %r" % (f["rendered"][:3], lines[:3]))
        rejected = any(f["text"] is None for f in a["files"])
        if err is not None:
            oc.stat("rejected_by_generator")
            if not rejected:
                oc.violations.append(dict(what="the generator raised (%s) on a template the rules give a meaning to" % err, **info))
            continue
        if rejected:
            # a FOR block whose arguments are neither a list nor a count (single word, empty value, unassigned tag
            # without default): there is nothing to repeat the body for - the generator has to reject it too
            oc.stat("for_without_list_or_count")
            oc.violations.append(dict(what="the generator produced output for a FOR block that has neither a list nor a count", **info))
            continue
        for f in a["files"]:
            real = final.get(f["name"])
            oc.stat("files_compared_with_reference_expander")
            if real != f["text"]:
                oc.violations.append(dict(what="output file %s differs from the reference expansion of the template" % f["name"],
                                          expected=f["text"], got=real, **info))
                break
    tot = dict(user_items=0, user_items_ok=0, blocks=0, blocks_ok=0, chunks=0, chunks_ok=0, pgt_lines=0, pgt_lines_ok=0, pgt_lines_with_alternative=0, pst_blocks=0, pst_blocks_ok=0, struct_blocks=0, struct_blocks_ok=0, files=0, files_second_filtering_ok=0, generator_inputs=0, generator_inputs_ok=0, generator_inputs_spec_ok=0)
    for a in lean_batch(wreqs):
        if "error" in a:
            continue
        for k in tot:
            tot[k] += a[k]
    for k, v in tot.items():
        oc.stats["theorem_domain_" + k] = v


def run(tier):
    t0 = time.time()
    thorough = tier == "thorough"
    proof = proof_status(PROP, thorough)
    oc = Outcome(PROP)
    oc.rule = ("grammar-directed template directories (literal lines, global tags, per-state/event/action/guard/action-signature/struct/message blocks, nested per-state/event/guard transition blocks "
               "with alternative texts, name/case/counter tags, optionally signature/member/attribute lines; 1-2 files; a malformed stream with missing/stray/doubled delimiters) x random transition tables and "
               "event interfaces x three back ends, through the public Generate.StateMachine* entry points; compared with Model/Engine (code model, exceptions) and, for well-formed templates, "
               "the written files with the reference expander; helper functions compared on strings over the engine's alphabet; non-trivial = template with a block and a table of >= 2 rows")
    oc.assumptions = TRUSTED
    r = rng(PROP)
    runner = genlib.Runner()
    engunit.run(r, 4000 if thorough else 800, oc)
    ereqs, epend, sreqs, spend, wreqs = [], [], [], [], []
    with scratch() as base:
        n = 1500 if thorough else 220
        for i in range(n):
            k = r.random()
            malformed = k < 0.15
            rich = (not malformed) and k < 0.35
            profile = r.choice(["c16", "c16", "mixed"])
            case(runner, r, base, i, profile, rich, malformed, oc, ereqs, epend, sreqs, spend, wreqs)
    settle(oc, ereqs, epend, sreqs, spend, wreqs)
    return finish(PROP, tier, proof, oc, t0, trusted=TRUSTED)


def replay(path):
    return c01.replay(path)
