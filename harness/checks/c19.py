"""C19 — UML class generation is complete, namespace-faithful and self-consistent."""
import os
import subprocess
import sys
import time

import common
import e2e
import genlib
import umlmut
from checks import c01
from common import Outcome, finish, lean_batch, proof_status, quiet, rng, scratch

PROP = "C19"
ILL_FORMED = "uml-protocolstack-ill-formed-operations"
TRUSTED = [
    "Lean 4.33 kernel; axioms propext, Classical.choice, Quot.sound only",
    "Model/Uml is hand-written after umlgen.py (kind dispatch, template selection and file naming, namespace folders, project files) and the nested-namespace formatters of LanguageCPP / LanguageCsharp; "
    "tied every run by comparing, for the shipped diagrams and SQL-level mutants of the project (renamed classes / packages, classes removed from the diagram), both back ends, folders on / off, "
    "the file list reported by the real generator with Uml.fileList on the element list of the real parsed ClassDiagram, and the wrapper lines of every generated file with Uml.nsBegin / nsEnd",
    "the parsing of the project (vppclassdiagram.py) and the rendering of operations / includes (LanguageCPP) are not modelled: declaration/definition pairing and interface overrides are decided on the "
    "real output by parse-back, 'accepted by a C++ compiler' by g++ -std=c++17 -fsyntax-only per generated file; no C# compiler in the sandbox",
    "the template file names of both template sets are regenerated facts (Generated/Facts: umlTemplatesCPP / umlTemplatesCS)",
]


def parsed_elems(path, diagram):
    common.fresh_modules()
    V = sys.modules.get("kojen.vppclassdiagram") or __import__("kojen.vppclassdiagram", fromlist=["x"])
    with quiet():
        cd = V.ExtractClassDiagram(diagram, path)
    elems = [[c.NAME, c.NAMESPACE, bool(c.IS_ENUM), bool(c.IS_STRUCT), bool(c.AUTOGEN), bool(c.PURE_VIRTUAL_INTERFACE)] for c in cd.classes.values()]
    with quiet():
        nss = list(cd.GetNamespaceDependencies().keys())
    return cd, elems, nss


def templates_of(backend):
    d = os.path.join(common.REPO, "kojen", "classdiagram_templates", "CPP" if backend == "uml" else "C#")
    out = []
    for root, _, fs in os.walk(d):
        out.extend(fs)
    return out


def cpp_checks(oc, out, cd, info, compile_ok):
    """declaration/definition pairing, interface overrides, compiler"""
    files = {rel: data.decode("utf-8", "replace") for rel, data in e2e.snapshot(out).items()}
    by_name = {}
    for rel in files:
        by_name.setdefault(os.path.basename(rel), rel)
    classes = {c.ID: c for c in cd.classes.values()}
    for c in cd.classes.values():
        concrete = not c.IS_ENUM and not c.IS_STRUCT and not c.AUTOGEN and not c.PURE_VIRTUAL_INTERFACE
        if not concrete:
            continue
        # (with namespace folders two packages may each have an element of that name: the file in the element's own folder)
        own = os.path.join(*[x for x in c.NAMESPACE.split("::") if x], c.NAME) if c.NAMESPACE else c.NAME
        h = (own + ".h") if (own + ".h") in files else by_name.get(c.NAME + ".h")
        s = (own + ".cpp") if (own + ".cpp") in files else by_name.get(c.NAME + ".cpp")
        if not h or not s:
            continue        # reported by the file-set comparison
        decls = umlmut.header_decls(files[h], c.NAME)
        if decls is None:
            oc.violations.append(dict(what="class %s not found in its header %s" % (c.NAME, h), **info))
            continue
        defs = umlmut.source_defs(files[s], c.NAME)
        want = sorted((d["name"], d["params"], d["const"]) for d in decls if not d["pure"])
        got = sorted((d["name"], d["params"], d["const"]) for d in defs)
        oc.stat("decl_def_pairs_compared", len(want))
        if want != got:
            missing = [x for x in want if x not in got]
            extra = [x for x in got if x not in want]
            dup = [x for x in set(got) if got.count(x) > 1]
            oc.violations.append(dict(what="%s: declarations and definitions do not pair up (declared only: %s; defined only: %s; defined twice: %s)" % (c.NAME, missing[:3], extra[:3], dup[:3]), **info))
        # realised pure-virtual interfaces: every operation overridden
        for inh in cd.inheritence.values():
            if inh.CLASS_TO_ID == c.ID and inh.CLASS_FROM_ID in classes and classes[inh.CLASS_FROM_ID].PURE_VIRTUAL_INTERFACE:
                parent = classes[inh.CLASS_FROM_ID]
                for op in parent.OPERATIONS:
                    oc.stat("interface_operations_checked")
                    if not any(d["name"] == op.NAME and d["override"] for d in decls):
                        oc.violations.append(dict(what="%s realises %s but does not override %s" % (c.NAME, parent.NAME, op.NAME), **info))
                # ... and each of them on its own: 'void Get()' and 'void Get() const' are two pure virtual functions; the
                # operations of the interfaces that interface extends count as well
                anc, todo = [], [parent]
                while todo:
                    p_ = todo.pop()
                    if p_ in anc:
                        continue
                    anc.append(p_)
                    todo += [classes[i2.CLASS_FROM_ID] for i2 in cd.inheritence.values()
                             if i2.CLASS_TO_ID == p_.ID and i2.CLASS_FROM_ID in classes and classes[i2.CLASS_FROM_ID].PURE_VIRTUAL_INTERFACE]
                allops = [op for p_ in anc for op in p_.OPERATIONS]
                for key in sorted(set((op.NAME, bool(op.IS_CONST)) for op in allops)):
                    need = sum(1 for op in allops if (op.NAME, bool(op.IS_CONST)) == key)
                    have = sum(1 for d in decls if (d["name"], d["const"]) == key and d["override"])
                    if have < need and any(d["name"] == key[0] and d["override"] for d in decls):
                        oc.violations.append(dict(what="%s realises %s, which declares %d operation(s) %s%s, but overrides only %d of them" % (c.NAME, parent.NAME, need, key[0], " const" if key[1] else "", have), **info))
    bad = []
    for rel in sorted(files):
        if rel.endswith((".h", ".cpp")):
            p = os.path.join(out, rel)
            r = subprocess.run(["g++", "-std=c++17", "-fsyntax-only", "-x", "c++", "-w", "-DMY_API=", "-I", out, "-I", os.path.dirname(p), p], capture_output=True, text=True)
            oc.stat("files_compiled")
            if r.returncode != 0:
                bad.append((rel, [l for l in r.stderr.split("\n") if "error" in l][:1]))
    if bad and compile_ok:
        oc.violations.append(dict(what="generated C++ rejected by g++: %s" % bad[:2], **info))
    return bad


def run(tier):
    t0 = time.time()
    thorough = tier == "thorough"
    proof = proof_status(PROP, thorough)
    oc = Outcome(PROP)
    oc.rule = ("shipped class diagrams (TestClassDiagram, ProtocolStack) and projects derived from them by 0-4 SQL-level edits (rename class, rename package, remove class from the diagram, move a class out of its package, re-type an attribute to a leaf type of - mostly - another package, re-type an operation's return to a pointer / reference / value of another type, package names that end or begin alike), C++ and C# back ends, "
               "namespace folders on/off, with/without export macro: reported file list == Uml.fileList of the real parsed element list; wrapper lines == Uml.nsBegin/nsEnd; C++: declaration/definition pairing per concrete class, "
               "overrides of realised pure-virtual interfaces, g++ -fsyntax-only per file; plus synthesised class diagrams built from kojen's own objects (umlsynth, well-formed for C++): realised interfaces, interfaces extending interfaces, "
               "generalisation, associations / aggregations / compositions with multiplicities, getters, setters, operations with in / inout / out parameters, static / const / virtual, read-only attributes, classes outside any package - same comparisons, the compile oracle always applies; non-trivial = every case")
    oc.assumptions = TRUSTED
    r = rng(PROP)
    runner = genlib.Runner()
    reqs, pend = [], []
    ireqs, ipend = [], []
    treqs, tpend = [], []
    def after_generation(model, info, ops, out, ret, cd, elems, nss):
        """everything that is compared on one generated tree"""
        backend, folders, diagram = model["backend"], model["ns_folders"], model["diagram"]
        reqs.append(dict(cmd="uml", templates=templates_of(backend), folders=folders, diagram=diagram, elems=elems, namespaces=nss))
        if backend == "uml":
            # function level: the include block of every header vs Model/UmlInc
            import sys
            L = sys.modules["kojen.LanguageCPP"].LanguageCPP()
            names = [c.NAME for c in cd.classes.values()]
            for c in cd.classes.values():
                try:
                    with common.quiet():
                        types = sorted(c.GetNotForwardDeclarableNonPrimitiveTypesLinkedToThis())
                        real = L.GetNotForwardDeclarableHeaderIncludes(c, folders, True, False)
                except Exception as e:      # noqa
                    oc.corr_failures.append(dict(what="include computation raised %s: %s" % (type(e).__name__, e), cls=c.NAME, **info))
                    continue
                ireqs.append(dict(cmd="umlinc", folders=folders, ns=c.NAMESPACE, types=types, names=names))
                ipend.append((dict(info, cls=c.NAME, types=types), real))
                # the two type sets themselves vs Model/UmlTypes
                V = sys.modules["kojen.vppclassdiagram"]
                try:
                    with common.quiet():
                        real_fwd = sorted(c.GetForwardDeclarableNonPrimitiveTypesLinkedToThis())
                except Exception as e:      # noqa
                    oc.corr_failures.append(dict(what="forward-declarable types raised %s: %s" % (type(e).__name__, e), cls=c.NAME, **info))
                    continue
                bases = [i.CLASS_FROM for i in cd.inheritence.values() if i.CLASS_TO_ID.find(c.ID) > -1]
                attrs = [[a.TYPE, a.TYPE_MODIFIER] for a in c.ATTRIBUTES]
                opsj = [dict(params=[[pa["type"], pa["modifier"]] for pa in o.PARAMETERS], ret=[o.RETURN_TYPE, o.RETURN_TYPE_MODIFIER]) for o in c.OPERATIONS]
                comps, ptrs_ = [], []
                for a in cd.associations.values():
                    ty = a.TYPE.lower()
                    if "composition" in ty and a.CLASS_FROM_ID == c.ID:
                        comps.append(a.CLASS_TO)
                    if "association" in ty:
                        if a.CLASS_FROM_ID == c.ID:
                            ptrs_.append(a.CLASS_TO)
                        elif a.CLASS_TO_ID == c.ID:
                            ptrs_.append(a.CLASS_FROM)
                    if "aggregation" in ty and a.CLASS_FROM_ID == c.ID:
                        ptrs_.append(a.CLASS_TO)
                alltypes = set(bases) | {x[0] for x in attrs} | {x[0] for o in opsj for x in o["params"] + [o["ret"]]} | set(comps) | set(ptrs_)
                allmods = {x[1] for x in attrs} | {x[1] for o in opsj for x in o["params"] + [o["ret"]]}
                treqs.append(dict(cmd="umltypes", bases=bases, attrs=attrs, ops=opsj, compositions=comps, pointers=ptrs_,
                                  prims=sorted(t for t in alltypes if V.IsTypePrimitive(t)), ptrs=sorted(m for m in allmods if V.IsTypePointerOrRef(m)),
                                  enums=sorted(t for t in alltypes if c.IsEnumerationOfDiagram(t))))
                tpend.append((dict(info, cls=c.NAME), types, real_fwd))
                oc.stat("include_blocks_compared")
                if any("::" in t and t.split("::")[-1] in "".join(t.split("::")[:-1]) for t in types):
                    oc.stat("types_whose_class_name_occurs_in_their_namespace")
        texts = {rel: data.decode("utf-8", "replace") for rel, data in e2e.snapshot(out).items()}
        pend.append((info, list(ret), sorted(texts), elems, texts))
        if backend == "uml":
            # a class removed from the diagram may still be the type of an attribute / parameter elsewhere: the derived
            # model then has dangling types and is not expected to compile; pairing and placement are still checked
            removed = any(o[0] == "remove-class" for o in ops)
            if removed:
                oc.stat("compile_oracle_skipped_dangling_types")
            # recorded finding: an element outside any package has NAMESPACE == '' and the generator strips
            # NAMESPACE + '::' from every referenced type (all '::' vanish): includes and base-class names break
            unpackaged = any(e[1] == "" for e in elems)
            if unpackaged:
                oc.stat("models_with_an_element_outside_any_package")
            bad = cpp_checks(oc, out, cd, info, compile_ok=(diagram != "ProtocolStack" and not removed))
            if diagram == "ProtocolStack":
                import findings
                # the recorded witness: the interface's operation named like the class, and its static abstract operation
                only_known = bool(bad) and all(("constructors cannot be declared" in str(b[1])) or ("initializer specified for static member function" in str(b[1])) for b in bad)
                if removed:
                    pass
                elif bad and only_known:
                    findings.record(oc, PROP, ILL_FORMED, True, dict(files=[b[0] for b in bad][:3]))
                elif bad:
                    oc.violations.append(dict(what="generated C++ rejected by g++ beyond the recorded ILayer operations: %s" % bad[:2], **info))

    n = 100 if thorough else 28
    with scratch() as base:
        for i in range(n):
            diagram = r.choice(["TestClassDiagram", "TestClassDiagram", "ProtocolStack"])
            proj = os.path.join(base, "p%d.vpp" % i)
            single = 2 <= i < 16      # a few derived models with exactly one re-typed attribute (the compile oracle always applies)
            if single:
                diagram = "TestClassDiagram"
            ops = umlmut.mutate(r, genlib.BLOB, proj, diagram, 0 if i < 2 else (1 if single else r.randint(1, 4)), only=("retype-reference-to-enum" if i < 4 else ("retype-return" if i < 7 else ("rename-package-after-class" if i < 9 else "retype-attribute"))) if single else None)
            backend = "uml" if single else r.choice(["uml", "uml", "umlcs"])
            folders = (i % 4 != 1) if single else r.random() < 0.5
            model = dict(kind="uml", backend=backend, project=proj, diagram=diagram, ns_folders=folders, dclspc=r.choice(["", "MY_API"]))
            info = dict(model=dict(model, project="blob.xml + " + repr(ops)), edits=ops)
            out = os.path.join(base, "o%d" % i)
            try:
                ret, _ = runner.generate(model, out)
                cd, elems, nss = parsed_elems(proj, diagram)
            except Exception as e:      # noqa
                oc.violations.append(dict(what="generation raised %s: %s" % (type(e).__name__, e), **info))
                break
            oc.case(("uml", diagram, backend, folders, repr(ops)), nontrivial=True)
            oc.stat("backend_" + backend)
            oc.stat("diagram_" + diagram)
            oc.stat("folders_%s" % folders)
            for o in ops:
                oc.stat("edit_" + o[0])
            after_generation(model, info, ops, out, ret, cd, elems, nss)
            shutil_rm(out)
            os.remove(proj)
    # synthesised class diagrams (kojen's own objects, see umlsynth): realised interfaces, interfaces extending interfaces,
    # generalisation, associations / aggregations / compositions with multiplicities, getters and setters, operations with
    # in / inout / out parameters, static / const / virtual, read-only attributes, classes outside any package
    import umlsynth
    runner = genlib.Runner()        # (parsed_elems re-imports kojen: the runner and sys.modules must name the same modules again)
    with scratch() as base:
        for i in range(70 if thorough else 18):
            spec = umlsynth.rand_spec(r, wellformed=True, relations=r.random() < 0.85, focus="packed" if i % 3 == 0 else ("twins" if i % 6 == 2 else ("constpair" if i % 6 == 4 else None)))
            if any(c.get("packed") for c in spec["classes"]):
                oc.stat("synth_models_with_packed_struct")
            backend = r.choice(["uml", "uml", "umlcs"])
            model = dict(kind="uml", backend=backend, project=genlib.BLOB, diagram=spec["diagram"], ns_folders=(r.random() < 0.5) or i % 6 == 2,
                         dclspc=r.choice(["", "MY_API"]), synth=spec)
            if i % 6 == 4:
                model["backend"] = backend = "uml"
                oc.stat("synth_models_with_operations_differing_in_constness_only")
            if i % 6 == 2:
                model["backend"] = backend = "uml"
                oc.stat("synth_models_with_like_named_elements_in_two_packages")
            info = dict(model=model, edits=[["synthesised"]])
            out = os.path.join(base, "s%d" % i)
            try:
                ret, _ = runner.generate(model, out)
                with quiet():
                    cd = umlsynth.build(spec)
                    nss = list(cd.GetNamespaceDependencies().keys())
                elems = [[c.NAME, c.NAMESPACE, bool(c.IS_ENUM), bool(c.IS_STRUCT), bool(c.AUTOGEN), bool(c.PURE_VIRTUAL_INTERFACE)] for c in cd.classes.values()]
            except Exception as e:      # noqa
                oc.violations.append(dict(what="generation raised %s: %s" % (type(e).__name__, e), **info))
                break
            oc.case(("umlsynth", backend, model["ns_folders"], repr(spec)), nontrivial=True)
            oc.stat("backend_" + backend)
            oc.stat("diagram_synthesised")
            oc.stat("synth_realisations", sum(1 for h in spec["inherits"] if h["realization"]))
            oc.stat("synth_generalisations", sum(1 for h in spec["inherits"] if not h["realization"]))
            for a_ in spec["assocs"]:
                oc.stat("synth_" + a_["type"].lower())
            after_generation(model, info, [], out, ret, cd, elems, nss)
            shutil_rm(out)
    for (info, real_nf, real_fwd), a in zip(tpend, lean_batch(treqs)):
        oc.traces_validated += 1
        if "error" in a:
            oc.corr_failures.append(dict(what="Lean driver error (umltypes): " + a["error"][:200], **info))
        elif sorted(set(a["notfwd"])) != real_nf or sorted(set(a["fwd"])) != real_fwd:
            oc.corr_failures.append(dict(what="needed / forward-declarable types differ from Model/UmlTypes: real %r / %r, model %r / %r"
                                         % (real_nf, real_fwd, sorted(set(a["notfwd"])), sorted(set(a["fwd"]))), **info))
        else:
            oc.stat("type_sets_compared")
    for (info, real), a in zip(ipend, lean_batch(ireqs)):
        oc.traces_validated += 1
        if "error" in a:
            oc.corr_failures.append(dict(what="Lean driver error (umlinc): " + a["error"][:200], **info))
        elif a["text"] != real:
            oc.corr_failures.append(dict(what="include block differs from Uml.includes: real %r / model %r" % (real, a["text"]), **info))
    for (info, ret, on_disk, elems, texts), a in zip(pend, lean_batch(reqs)):
        oc.traces_validated += 1
        if "error" in a:
            oc.corr_failures.append(dict(what="Lean driver error: " + a["error"][:200], **info))
            continue
        # the property: exactly one header (+ one source for concrete classes) per element, in its namespace folder
        if sorted(a["files"]) != sorted(ret):
            oc.corr_failures.append(dict(what="reported file list differs from Uml.fileList: only real %s, only model %s" % (sorted(set(ret) - set(a["files"]))[:4], sorted(set(a["files"]) - set(ret))[:4]), **info))
        if sorted(ret) != on_disk:
            oc.violations.append(dict(what="reported files and written files differ: %s" % sorted(set(ret) ^ set(on_disk))[:4], **info))
        for pe in a["per_elem"]:
            for f in pe["files"]:
                t = texts.get(f)
                if t is None:
                    continue
                if f.endswith((".h", ".cpp", ".cs")):
                    if pe["begin"].strip() not in t or pe["end"].strip() not in t:
                        oc.violations.append(dict(what="%s is not wrapped in the namespace of its package: expected %r ... %r" % (f, pe["begin"], pe["end"]), **info))
    return finish(PROP, tier, proof, oc, t0, trusted=TRUSTED)


def shutil_rm(p):
    import shutil
    shutil.rmtree(p, ignore_errors=True)


def replay(path):
    return c01.replay(path)
