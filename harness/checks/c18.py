"""C18 — FileSync copies shared tag bodies and touches nothing else."""
import json
import os
import time

import common
import e2e
import genlib
import unitgen
from checks import c01
from common import Outcome, finish, lean_batch, proof_status, rng, scratch

PROP = "C18"
TRUSTED = c01.TRUSTED
NAMES = ["X", "XY", "XYZ", "A", "AB", "HEADER", "HEADER_INCLUDES", "Foo_on_entry", "Foo_on_exit", "a", "Ab", "T1", "T10",
         # hand-made tags are not always identifiers
         # (only characters CleanUpLine leaves alone on the pinned tree: a `+`, `=`, `~` ... inside a name is comment style to the tool)
         "PRE-INIT", "POST-INIT", "T-1", "\u72b6\u614b"]
TEXT = ["\n", "\n", "   \n", "\tcode();\n", "x = 1;\n", "<<<EXTENDS=other.txt>>>\n", "<<<EXCLUDE=foo>>>\n", "  <<<IF a>>>\n", "// plain comment\n",
        "/// {{{ USER_X }}}\n", "{{USER_X}}\n", "USER_X\n", "s = \"äöü\";\n", "\t\t\n"]


# comment styles built from the characters CleanUpLine strips (the tool's notion of "comment style";
# styles such as <!-- --> or ' are outside it and are only used in the unit correspondence)
STYLES = [s for s in unitgen.STYLES if "<!--" not in s and "'" not in s]


def body(r):
    k = r.randrange(6)
    if k == 0:
        return []
    if k == 1:
        return ["\n", "\n", "\n"]
    if k == 2:
        return ["\tx;\n", "\t\ty;\n"]
    return [r.choice(TEXT + ["v%d();\n" % r.randint(0, 99)]) for _ in range(r.randint(1, 4))]


def make_doc(r, names):
    lines = []
    for n in names:
        for _ in range(r.randint(0, 3)):
            lines.append(r.choice(TEXT))
        so, sc = r.choice(STYLES), r.choice(STYLES)
        if r.random() < 0.7:
            sc = so
        lines.append(so.replace("%s", n))
        lines.extend(body(r))
        lines.append(sc.replace("%s", n))
    for _ in range(r.randint(0, 3)):
        lines.append(r.choice(TEXT))
    text = "".join(lines)
    if r.random() < 0.3:
        text = text.rstrip("\n")
    return text


def spec_sync(a_text, b_text):
    ablocks, _, _ = genlib.spec_blocks(a_text)
    lines, tags = genlib.tag_positions(b_text)
    out, pos = [], 0
    for (o, c, name) in tags:
        out.extend(lines[pos:o + 1])
        out.extend(ablocks[name] if name in ablocks else lines[o + 1:c])
        pos = c
    out.extend(lines[pos:])
    return "".join(out)


def sync_case(G, r, oc, reqs, pend):
    shared = r.sample(NAMES, r.randint(0, 4))
    only_a = [n for n in r.sample(NAMES, r.randint(0, 3)) if n not in shared]
    only_b = [n for n in r.sample(NAMES, r.randint(0, 3)) if n not in shared and n not in only_a]
    na = shared + only_a
    nb = shared + only_b
    r.shuffle(na)
    r.shuffle(nb)
    a_text, b_text = make_doc(r, na), make_doc(r, nb)
    # files saved with a UTF-8 signature (Visual Studio does that to C# sources): the three bytes are text like any other
    if r.random() < 0.15:
        b_text = "\ufeff// saved with signature\n" + b_text
        oc.stat("destination_with_utf8_signature")
    if r.random() < 0.1:
        a_text = "\ufeff// saved with signature\n" + a_text
    with scratch() as base:
        d = os.path.join(base, r.choice(["d", "d/e"]))
        os.makedirs(d)
        pa, pb = os.path.join(d, r.choice(["a.txt", "b.txt.src", "x.h"])), os.path.join(d, "b.txt")
        with open(pa, "w") as f:
            f.write(a_text)
        with open(pb, "w") as f:
            f.write(b_text)
        before = e2e.snapshot(base)
        files_before = e2e.decode_tree(base)
        use_rel = r.random() < 0.5
        cwd = d if use_rel else "/"
        fa, fb = (os.path.basename(pa), os.path.basename(pb)) if use_rel else (pa, pb)
        try:
            with e2e.in_cwd(cwd), common.quiet():
                G.FileSync(fa, fb)
            after1 = e2e.snapshot(base)
            with e2e.in_cwd(cwd), common.quiet():
                G.FileSync(fa, fb)
            after2 = e2e.snapshot(base)
        except Exception as e:
            oc.violations.append(dict(what="FileSync raised %s: %s" % (type(e).__name__, e), a=a_text, b=b_text, frm=fa, to=fb, cwd=cwd))
            return
        relb = os.path.relpath(pb, base)
        exp = dict(before)
        exp[relb] = spec_sync(a_text, b_text).encode()
        info = dict(a=a_text, b=b_text, frm=fa, to=fb, cwd=cwd, shared=shared, only_a=only_a, only_b=only_b)
        if after1 != exp:
            oc.violations.append(dict(what="FileSync result differs from 'B with the shared bodies taken from A, everything else untouched': %s" % e2e.tree_diff(exp, after1),
                                      input=info, expected=exp.get(relb), got=after1.get(relb)))
            return
        if after2 != after1:
            oc.violations.append(dict(what="FileSync is not idempotent: %s" % e2e.tree_diff(after1, after2), input=info))
            return
        reqs.append(dict(cmd="filesync", cwd=cwd, files=[[k, v] for k, v in sorted(files_before.items())], **{"from": fa, "to": fb}))
        pend.append(("filesync", info, e2e.decode_tree(base)))
        oc.case(("sync", a_text, b_text, fa, fb), nontrivial=bool(shared))
        oc.stat("shared_%d" % min(len(shared), 3))
        if only_a:
            oc.stat("with_A_only")
        if only_b:
            oc.stat("with_B_only")
        if any(x != y and (x.startswith(y) or y.startswith(x)) for x in na + nb for y in na + nb):
            oc.stat("prefix_related_names")
        if len(oc.samples) < 3:
            oc.samples.append(info)


def settle(oc, reqs, pend):
    for (kind, info, impl), ans in zip(pend, lean_batch(reqs)):
        if "error" in ans:
            oc.corr_failures.append(dict(what="Lean driver error: " + ans["error"], input=info))
            continue
        mf = {k: v for k, v in ans["files"]}
        oc.traces_validated += 1
        if mf != impl:
            bad = [k for k in set(mf) | set(impl) if mf.get(k) != impl.get(k)]
            oc.corr_failures.append(dict(what="Model.fileSync differs from Generate.FileSync on %s" % bad[:2], input=info,
                                         model={k: mf.get(k) for k in bad[:1]}, impl={k: impl.get(k) for k in bad[:1]}))


def search():
    r = rng(PROP, "search")
    G = common.fresh_modules()
    oc = Outcome(PROP)
    for i in range(3000):
        sync_case(G, r, oc, [], [])
        if oc.violations:
            return oc.violations[0]
    return None


def run(tier):
    t0 = time.time()
    thorough = tier == "thorough"
    proof = proof_status(PROP, thorough)
    oc = Outcome(PROP)
    oc.rule = ("pairs of files with generated tag sets (shared / A-only / B-only, names that are prefixes of one another), tag lines in 7 comment styles and indentations "
               "(opening and closing style may differ), bodies empty / blank runs / tabs / template-tag look-alikes, arbitrary surrounding text, with and without trailing newline, "
               "relative and absolute file arguments; oracle: B' = B with shared bodies from A (by tag name), A and directory listing unchanged, second sync changes nothing; "
               "every case also through Model.fileSync; non-trivial = at least one shared tag")
    oc.assumptions = TRUSTED
    r = rng(PROP)
    G = common.fresh_modules()
    reqs, pend = [], []
    for i in range(6000 if thorough else 700):
        sync_case(G, r, oc, reqs, pend)
        if oc.violations:
            break
    settle(oc, reqs, pend)
    return finish(PROP, tier, proof, oc, t0, trusted=TRUSTED, search=search)


def replay(path):
    return c01.replay(path)
