"""C10 — the generated C# state machine implements exactly the transition table."""
import copy
import json
import os
import time

import common
import genlib
import smparse
from checks import c01
from common import Outcome, finish, lean_batch, proof_status, rng, scratch

PROP = "C10"
TRUSTED = [
    "Lean 4.33 kernel; axioms propext, Classical.choice, Quot.sound only",
    "Model/EmitCs (same block structure as the Python emitter, silent fallback, context declarations) is hand-written; tied by parse-back of <SM>Internals.cs / <SM>Context.cs (brace-matched tokeniser) which must equal the model's structures",
    "C# semantics of if / bare block / return / virtual dispatch assumed as interpreted in the model; NO C# compiler exists in the sandbox: 'is accepted by a compiler' is out of reach and not claimed",
]


def table_case(runner, r, oc, reqs, pend, big=False):
    model = genlib.rand_sm_model(r, "cs", big)
    tt = smparse.norm_tt(model["tt"])
    states = []
    for row in tt:
        for s in (row[0], row[2]):
            if s and s not in states:
                states.append(s)
    with scratch() as base:
        out = os.path.join(base, "out")
        if r.random() < 0.4:
            # one script, one table: the other back ends (both C++ template sets, Python) are generated first, from the very
            # list object the C# generation then gets
            shared = copy.deepcopy(model["tt"])
            for k_, (be, td) in enumerate(r.sample([("cpp", os.path.join(common.REPO, "kojen", "statemachine_templates_pc_boost")), ("cpp", ""), ("py", "")], r.randint(1, 3))):
                other = dict(model, backend=be, iface=dict(model["iface"], structs=[]))
                other.pop("templatedir", None)
                if td:
                    other["templatedir"] = td
                runner.generate(other, os.path.join(base, "other%d" % k_), tt_obj=shared)
            runner.generate(model, out, tt_obj=shared)
            oc.stat("tables_shared_with_earlier_generations")
        else:
            runner.generate(model, out)
        name = model["name"]
        internals = open(os.path.join(out, name + "Internals.cs")).read()
        context = open(os.path.join(out, name + "Context.cs")).read()
    pi = smparse.cs_internals(internals, name)
    pc = smparse.cs_context(context, name, states)
    # a coarse reading that needs no grammar: the names the handlers call on the context
    import re
    pi["called"] = sorted(set(re.findall(r"context\.([\w:]+)\(", internals)))
    reqs.append(dict(cmd="emitpy", tt=tt))
    pend.append((dict(model=model), pi, pc, tt))
    oc.case(("tt", json.dumps(tt), json.dumps(model["iface"], sort_keys=True)), nontrivial=len(tt) > 1)
    if any(s not in [x[0] for x in tt] for s in states):
        oc.stat("table_target_only_state")
    if len(oc.samples) < 2:
        oc.samples.append(dict(table=tt, classes=[c["state"] for c in pi["classes"]], context=pc["decls"][:6]))


def settle(oc, reqs, pend):
    for (info, pi, pc, tt), ans in zip(pend, lean_batch(reqs)):
        if "error" in ans:
            oc.corr_failures.append(dict(what="Lean driver error: " + ans["error"], input=info))
            continue
        oc.traces_validated += 1
        if pi["errors"] or pc["errors"]:
            # the parse-back does not recognise the text.  Is the property hit all the same?  The handlers may call nothing on
            # the context but the table's guards and actions and the entry / exit hooks of its states
            names_ = {x for row in tt for x in (row[3], row[4]) if x}
            sts = {x for row in tt for x in (row[0], row[2]) if x}
            allowed = names_ | {"On%sEntry" % s_ for s_ in sts} | {"On%sExit" % s_ for s_ in sts}
            foreign = [c_ for c_ in pi.get("called", []) if c_ not in allowed]
            if foreign:
                oc.violations.append(dict(what="the generated C# handlers call %s on the context: no guard, action or hook of the table" % foreign[:3], model=info["model"], table=tt))
            else:
                oc.corr_failures.append(dict(what="generated C# has an unexpected shape: %s" % (pi["errors"] + pc["errors"])[:3], input=info))
            continue
        got = [dict(state=c["state"], evs=c["evs"]) for c in pi["classes"]]
        if got != ans["fns"]:
            # decide whether the *property* is hit: compare with the table directly
            oc.violations.append(dict(what="state classes / handlers of the generated C# differ from what the table prescribes", model=info["model"], expected=ans["fns"], got=got))
            continue
        bad = [c["state"] for c in pi["classes"] if c["entry"] != c["state"] or c["exit"] != c["state"]]
        if bad:
            oc.violations.append(dict(what="state class %s wires OnEntry/OnExit to another state's hook" % bad, model=info["model"]))
        if pi["reset"] != ans["init"]:
            oc.violations.append(dict(what="Reset() enters %s, first row's state is %s" % (pi["reset"], ans["init"]), model=info["model"]))
        if pi["enum"] != ans["states"]:
            oc.violations.append(dict(what="state enumeration %s differs from the table's states %s" % (pi["enum"], ans["states"]), model=info["model"]))
        if pc["decls"] != ans["context"]:
            oc.violations.append(dict(what="context interface differs: got %s, table needs %s" % (pc["decls"], ans["context"]), model=info["model"]))
        if sorted(set(c["state"] for c in pi["classes"])) != sorted(ans["classes"]) or len(pi["classes"]) != len(ans["classes"]):
            oc.violations.append(dict(what="state classes %s, enterable states %s" % ([c["state"] for c in pi["classes"]], ans["classes"]), model=info["model"]))


def run(tier):
    t0 = time.time()
    thorough = tier == "thorough"
    proof = proof_status(PROP, thorough)
    oc = Outcome(PROP)
    oc.rule = ("random well-formed tables and event interfaces (C# primitive member types, threading user tag) -> real StateMachine_CSHARP -> "
               "<SM>Internals.cs / <SM>Context.cs parsed back (state classes, handlers as (guard, exit, action, enter, next, return) blocks, OnEntry/OnExit wiring, Reset, enum, interface members) "
               "and compared with Model.EmitCs; non-trivial = table with more than one row")
    oc.assumptions = TRUSTED
    r = rng(PROP)
    runner = genlib.Runner()
    reqs, pend = [], []
    for i in range(600 if thorough else 80):
        table_case(runner, r, oc, reqs, pend, big=thorough)
    settle(oc, reqs, pend)
    return finish(PROP, tier, proof, oc, t0, trusted=TRUSTED)


def replay(path):
    return c01.replay(path)
