"""C13 — protocol round trip: transmitted message reaches exactly the matching handler."""
import concurrent.futures
import json
import os
import time

import common
import cppprobe
import genlib
import protoprobe
from checks import c01
from common import Outcome, finish, lean_batch, proof_status, rng, scratch

PROP = "C13"
TRUSTED = [
    "Lean 4.33 kernel; axioms propext, Classical.choice, Quot.sound only",
    "Model/Dispatch (switch over the type id, retry loop) hand-written after TEMPLATEReceiver.cpp / TEMPLATETransmitter.cpp; Model/Conn as in C14; Model/Wire as in C12",
    "tied by a compiled probe: generated receiver + transmitter + real IConnection.cpp, loop-back connection that rejects the first k sends and re-chunks the wire bytes by a harness-given cut list",
    "C++ compiler / ABI trusted; int8 retry counter: retries in [-128,127]",
]


def script_for(r, model, rounds):
    """list of (lines, meta) batches; each batch ends with an F line"""
    nm = len(model["msgs"])
    pre = model["preamble"]
    p0, p1 = pre & 0xFF, pre >> 8
    ids = [mid for _, mid, _ in model["msgs"]]
    batches = []
    for _ in range(rounds):
        lines, meta = [], []
        for _ in range(r.randint(1, 5)):
            if r.random() < 0.2:
                tid = next(t for t in iter(lambda: r.randrange(65536), None) if t not in ids)
                pl = [r.choice([p0, p1, 0, 0xFF]) for _ in range(r.randint(0, 5))]
                raw = [p0, p1, tid & 0xFF, tid >> 8, len(pl), 0, 0, 0] + pl
                lines.append("W " + bytes(raw).hex())
                meta.append(("W", raw))
            else:
                idx = r.randrange(nm)
                size = protoprobe.spec_size(model, model["msgs"][idx][2])
                pay = [r.choice([p0, p1, p0, 0, 0xFF, r.randrange(256)]) for _ in range(size)] if r.random() < 0.6 else []
                rej = r.choice([0, 0, 0, 1, 2, 3, 5, 6, 7])
                retries = r.choice([5, 5, 0, 1, 2, 3, 6, -1, -2])
                lines.append("T %d %d %d %s" % (idx, rej, retries, bytes(pay).hex() if pay else "-"))
                meta.append(("T", idx, rej, retries, pay))
        cuts = [r.choice([1, 1, 2, 3, 5, 8, 13]) for _ in range(r.randint(0, 12))]
        lines.append("F " + " ".join(map(str, cuts)))
        batches.append((lines, meta, cuts))
    return batches


def one_interface(args):
    model, seed, rounds = args
    import random
    r = random.Random(seed)
    res = dict(model=model, violations=[], reqs=[], pend=[], stats={}, cases=0, samples=[])
    runner = genlib.Runner()
    with scratch() as base:
        out = os.path.join(base, "out")
        try:
            runner.generate(model, out)
        except Exception as e:
            res["violations"].append("Generate.Protocol raised %s: %s" % (type(e).__name__, e))
            return res
        ok, log, exe = protoprobe.build(model, out, os.path.join(base, "w"), [], flags=("-O1", "-g", "-fsanitize=address,undefined", "-fno-sanitize-recover=undefined"))
        if not ok:
            res["violations"].append("generated C++ does not compile: " + log[-700:])
            return res
        batches = script_for(r, model, rounds)
        lines = [l for b in batches for l in b[0]]
        rc, outl, err = cppprobe.run_lines(exe, lines)
        outl = outl[outl.index("END-STATIC") + 1:] if "END-STATIC" in outl else outl
        if rc != 0 or len(outl) != len(lines):
            res["violations"].append("probe aborted (exit %s) after %d of %d commands: %s" % (rc, len(outl), len(lines), err[-500:]))
            return res
    ids = [mid for _, mid, _ in model["msgs"]]
    pre = model["preamble"]
    k = 0
    for blines, meta, cuts in batches:
        wire_msgs, exp_log = [], []
        for m in meta:
            got = outl[k]
            k += 1
            if m[0] == "W":
                wire_msgs.append(m[1])
                exp_log.append("u:" + bytes(m[1]).hex())
            else:
                _, idx, rej, retries, pay = m
                mn, mid, mem = model["msgs"][idx]
                attempts = max(retries + 1, 0)
                ok_exp = rej < attempts
                calls_exp = min(rej + 1, attempts)
                if got != "t ok=%d calls=%d" % (1 if ok_exp else 0, calls_exp):
                    res["violations"].append("Transmit%s with the first %d sends rejected and retries=%d reported '%s', expected ok=%d calls=%d" % (mn, rej, retries, got, ok_exp, calls_exp))
                res["reqs"].append(dict(cmd="transmit", accepts=[False] * rej + [True], retries=retries))
                res["pend"].append(("transmit", got))
                res["stats"]["tx_%s" % ("ok" if ok_exp else "fail")] = res["stats"].get("tx_%s" % ("ok" if ok_exp else "fail"), 0) + 1
                if ok_exp:
                    body = protoprobe.spec_defaults(model, mem)
                    if pay:
                        body = pay[:len(body)] + body[len(pay):]
                    msg = protoprobe.spec_header(model, mid, mem) + body
                    wire_msgs.append(msg)
                    exp_log.append("h%d:%s" % (idx, bytes(msg).hex()))
        got = outl[k]
        k += 1
        got_log = got[1:].split()
        if got_log != exp_log:
            res["violations"].append("after re-chunking the wire by %s the receiver saw %s, expected %s" % (cuts, got_log, exp_log))
        wire = [b for m in wire_msgs for b in m]
        chunks, pos = [], 0
        for c in cuts:
            c = min(c, len(wire) - pos)
            if c:
                chunks.append(wire[pos:pos + c])
            pos += c
        if pos < len(wire):
            chunks.append(wire[pos:])
        res["reqs"].append(dict(cmd="conn", p0=pre & 0xFF, p1=pre >> 8, raw=False, chunks=[bytes(c).hex() for c in chunks]))
        res["pend"].append(("conn", (ids, got_log)))
        res["cases"] += 1
        if len(res["samples"]) < 1:
            res["samples"].append(dict(commands=blines, output=outl[k - len(blines):k]))
    return res


def run(tier):
    t0 = time.time()
    thorough = tier == "thorough"
    proof = proof_status(PROP, thorough)
    oc = Outcome(PROP)
    oc.rule = ("random interfaces as in C12 -> real Generate.Protocol -> probe (generated transmitter/receiver + IConnection.cpp, ASan+UBSan) ; batches of 1-5 sends "
               "(random message, payload bytes biased to the preamble bytes, first k sends rejected with k below/at/above the retry limit, retries in {-2..6}) and injected messages with undefined ids, "
               "then the accumulated wire bytes re-chunked by a random cut list; oracle: handler log == successfully sent messages in order with identical bytes, undefined ids only at the not-handled hook, "
               "ok/calls of every Transmit; same through Model/Conn + Model/Dispatch; non-trivial = batch with at least one delivered message and one cut")
    oc.assumptions = TRUSTED
    r = rng(PROP)
    n = 60 if thorough else 14
    jobs = [(protoprobe.rand_iface(r, thorough), r.randrange(1 << 30), 60 if thorough else 25) for i in range(n)]
    with concurrent.futures.ProcessPoolExecutor(max_workers=min(14, n)) as ex:
        results = list(ex.map(one_interface, jobs))
    reqs, pend = [], []
    for res in results:
        model = res["model"]
        for v in res["violations"]:
            oc.violations.append(dict(what=v, model=model))
        for k, v in res["stats"].items():
            oc.stat(k, v)
        reqs += res["reqs"]
        pend += [(model, p) for p in res["pend"]]
        oc.samples += res["samples"][:1] if len(oc.samples) < 2 else []
    if not oc.violations:
        answers = lean_batch(reqs)
        # second pass: dispatch of what the model's connection delivered
        dreqs, dpend = [], []
        for (model, (kind, impl)), ans in zip(pend, answers):
            if "error" in ans:
                oc.corr_failures.append(dict(what="Lean driver error: " + ans["error"], model=model))
            elif kind == "transmit":
                oc.case(("tx", json.dumps(model["name"]), impl, len(oc.nontrivial)), nontrivial=False)
                if impl != "t ok=%d calls=%d" % (1 if ans["ok"] else 0, ans["calls"]):
                    oc.corr_failures.append(dict(what="Model.Dispatch.transmit differs: model %s / impl %s" % (ans, impl), model=model))
            else:
                ids, got_log = impl
                dreqs.append(dict(cmd="dispatch", ids=ids, msgs=ans["msgs"]))
                dpend.append((model, ans["msgs"], got_log))
        for (model, msgs, got_log), ans in zip(dpend, lean_batch(dreqs)):
            mlog = [("h%d:%s" % (t, m)) if t >= 0 else "u:" + m for t, m in zip(ans["targets"], msgs)]
            oc.traces_validated += 1
            oc.case(("rt", json.dumps(model, sort_keys=True), tuple(got_log)), nontrivial=len(got_log) > 0)
            if mlog != got_log:
                oc.corr_failures.append(dict(what="Model (Conn.feedAll + Dispatch.dispatch) differs from the compiled round trip: model %s / impl %s" % (mlog, got_log), model=model))
    return finish(PROP, tier, proof, oc, t0, trusted=TRUSTED)


def replay(path):
    return c01.replay(path)
