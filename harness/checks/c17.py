"""C17 — template engine: user tags, IF/ELSEIF/ELSE and FOR follow their documented rules."""
import itertools
import os
import time

import common
import engrun
import engtpl
import engunit
import genlib
from checks import c01, c16
from common import Outcome, finish, lean_batch, proof_status, rng, scratch

PROP = "C17"
TRUSTED = [
    "Lean 4.33 kernel; axioms propext, Classical.choice, Quot.sound only",
    "Model/Engine (string-level transliteration of cgen.py: replaceUserTags, the IF/ELSEIF/ELSE/ENDIF automaton and the FOR rewriting of do_user_tags, do_for / innerexpand_for_loop) "
    "tied every run by function-level and template-level differential runs against the real code (see C16)",
    "Model/EngineSpec states the rules (value / default / verbatim per tag; branch emitted iff its tag is assigned, ELSE iff none was; FOR over list, count, or user tag); "
    "every well-formed generated case compares the real output files with it: a difference is a violation",
    "proved (Props/C17): the per-tag rule for every line, the conditional automaton for every block, the whole user-tag pass over files of plain lines and blocks, non-interference, "
    "the FOR loop (once per item in order, FIRST/LAST once, counts, rejection of a single word); not proved: the composition of the passes into one whole-file statement, "
    "replaceDefault on the opening line of a user-tag driven FOR",
    "user-tag values are rendered with str() (None as ''); FOR over a single word, over an unassigned tag without default or over an empty value is rejected by the generator (exception) and has no meaning by the rules",
    "shipped templates: non-interference is checked directly on the real output (marker values for StateMachineThread / Verbose)",
]


def shipped_noninterference(runner, r, oc, n):
    """two assignments differing in the value of one shipped user tag: outputs equal modulo that value"""
    A, B = "V4LU3A", "V4LU3B"
    for i in range(n):
        model = genlib.rand_sm_model(r)
        tag = r.choice(["StateMachineThread", "Verbose"])
        other = "Verbose" if tag == "StateMachineThread" else "StateMachineThread"
        base_ut = {}
        if r.random() < 0.6:
            base_ut[other] = r.choice([0, 1, None, "x"])
        outs = []
        with scratch() as base:
            for val in (A, B):
                m = dict(model, iface=dict(model["iface"], usertags=dict(base_ut, **{tag: val})))
                out = os.path.join(base, "o" + val)
                runner.generate(m, out)
                files = {}
                for root, _, fs in os.walk(out):
                    for f in fs:
                        with open(os.path.join(root, f), errors="surrogateescape", newline="") as fh:
                            files[os.path.relpath(os.path.join(root, f), out)] = fh.read()
                outs.append(files)
        oc.case(("shipped-ni", repr(model["tt"]), model["backend"], tag, repr(base_ut)), nontrivial=True)
        oc.stat("shipped_noninterference_" + model["backend"])
        a, b = outs
        if set(a) != set(b):
            oc.violations.append(dict(what="changing the value of %s changes the set of generated files" % tag, model=model))
            continue
        for k in a:
            if a[k].replace(A, B) != b[k]:
                la, lb = a[k].split("\n"), b[k].split("\n")
                bad = [(x, y) for x, y in zip(la, lb) if x.replace(A, B) != y][:3]
                oc.violations.append(dict(what="changing the value of %s changes lines of %s that do not carry it: %s" % (tag, k, bad), model=model, usertags=base_ut))
                break
            if A in a[k]:
                oc.stat("shipped_files_carrying_the_tag")


def subsets_case(runner, r, base, i, oc, ereqs, epend, sreqs, spend, wreqs):
    """one c17 template under every subset of assigned tags (n <= 4 tags -> 16 assignments)"""
    model = genlib.with_meta(r, genlib.rand_sm_model(r))
    tpl = engtpl.rand_template(r, "c17", nfiles=1, rich_ok=False)
    for f in tpl:
        f["final_newline"] = True
    fl = [(f["name"], engtpl.render_file(f)) for f in tpl]
    tags = r.sample(engtpl.USER_TAGS, 4)
    vals = {t: r.choice(["", None, 0, 1, 7, "abc", "a,b", "x y", "3"] + engtpl.EQUAL_TWINS) for t in tags}
    itf = genlib.build_iface(runner.kt, model["iface"])
    for k, mask in enumerate(itertools.product([0, 1], repeat=4)):
        ut = {t: vals[t] for t, m in zip(tags, mask) if m}
        cap, err, req, final = engrun.real_run(runner, model, fl, ut, os.path.join(base, "s%d_%d" % (i, k)))
        info = dict(model=model, usertags=ut, templates=[[n, "".join(l)] for n, l in fl])
        ereqs.append(req)
        epend.append((info, cap, err))
        if req.get("enums") and any("<<<ENUMS>>>" in l for _, ls in fl for l in ls):
            oc.case(("subset", repr(info["templates"]), repr(ut)), nontrivial=True)
            continue        # multi-line global value: Model/Engine only (see c16.case)
        q = engtpl.spec_request(model, engrun.in_listing_order(tpl, os.path.join(base, "s%d_%d" % (i, k))), itf, ut, enums=req.get("enums", ""))
        sreqs.append(q)
        spend.append((info, engrun.in_listing_order(fl, os.path.join(base, "s%d_%d" % (i, k)), name=lambda f: f[0]), err, final))
        if k == 0:
            wreqs.append(dict(q, cmd="engwf"))
        oc.case(("subset", repr(info["templates"]), repr(ut)), nontrivial=True)
    oc.stat("templates_under_all_16_subsets")


def run(tier):
    t0 = time.time()
    thorough = tier == "thorough"
    proof = proof_status(PROP, thorough)
    oc = Outcome(PROP)
    oc.rule = ("grammar-directed templates with user tags (with / without default, several per line, names that are prefixes of one another), IF/ELSEIF*/ELSE? blocks, FOR blocks over literal lists, counts "
               "(0 included) and user tags; assignments drawn from '', None, numbers, strings; a set of templates under all 16 subsets of 4 tags; mixed with per-element blocks; a malformed stream; "
               "through the public entry points, compared with Model/Engine and with the reference expander; shipped templates under marker values for their own tags (non-interference on the real output)")
    oc.assumptions = TRUSTED
    r = rng(PROP)
    runner = genlib.Runner()
    engunit.run(r, 3000 if thorough else 600, oc)
    ereqs, epend, sreqs, spend, wreqs = [], [], [], [], []
    with scratch() as base:
        n = 1200 if thorough else 160
        for i in range(n):
            k = r.random()
            malformed = k < 0.12
            profile = r.choice(["c17", "c17", "mixed"])
            c16.case(runner, r, base, i, profile, False, malformed, oc, ereqs, epend, sreqs, spend, wreqs)
        for i in range(30 if thorough else 4):
            subsets_case(runner, r, base, i, oc, ereqs, epend, sreqs, spend, wreqs)
    c16.settle(oc, ereqs, epend, sreqs, spend, wreqs)
    shipped_noninterference(runner, r, oc, 60 if thorough else 8)
    return finish(PROP, tier, proof, oc, t0, trusted=TRUSTED)


def replay(path):
    return c01.replay(path)
