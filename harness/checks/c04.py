"""C04 — user code stays confined to its own file and tag: no leakage, no duplication."""
import collections
import json
import os
import re
import sys
import time

import common
import e2e
import findings
import genlib
from checks import c01
from common import Outcome, finish, proof_status, rng, scratch

PROP = "C04"
TRUSTED = c01.TRUSTED
MARK_RE = re.compile(rb"MARK:([^\s]+)")

NAME_SETS = [("Foo", "IFoo"), ("X", "TestX"), ("Foo", "FooBar"), ("Player", "CDPlayer"), ("A", "AA"), ("Test", "TestTest"),
             ("StateMachine", "X"), ("Foo", "Foo2"), ("Controller", "I")]


def markers(tree):
    """{rel: Counter(marker)}; a marker is 'M<n>:<tag name>'"""
    return {rel: collections.Counter(m.decode() for m in MARK_RE.findall(data)) for rel, data in tree.items() if not rel.endswith(".LostCode.txt")}


def place_markers(r, real, counter, fraction):
    placed = {}
    for rel, data in sorted(e2e.snapshot(real).items()):
        if rel.endswith(".LostCode.txt"):
            continue
        dups = genlib.duplicate_tags(data.decode("utf-8", "surrogateescape"))
        counter[0] += 1
        # only the recorded witness's duplicated tags are left alone: any other duplicated tag gets its markers, and the
        # regeneration then shows the duplication / loss
        w = genlib.edit_file(r, os.path.join(real, rel), fraction=fraction, marker_prefix="M%d" % counter[0], skip=set(dups) & findings.UML_DUP_WITNESS_TAGS)
        for name in w:
            placed["M%d:%s" % (counter[0], name)] = (rel, name)
    return placed


def marker_violation(tree, placed_all):
    """every marker placed so far whose tag still exists must occur exactly once, in its own file,
    under its own tag; no marker anywhere else"""
    for rel, data in tree.items():
        if rel.endswith(".LostCode.txt"):
            continue
        text = data.decode("utf-8", "surrogateescape")
        blocks, _, _ = genlib.spec_blocks(text)
        for name, body in blocks.items():
            for l in body:
                for m in re.findall(r"MARK:([^\s]+)", l):
                    if m not in placed_all:
                        return "unknown marker %s" % m
                    prel, pname = placed_all[m]
                    if prel != rel:
                        return "marker %s written in %s appears in %s" % (m, prel, rel)
                    if pname != name:
                        return "marker %s written under %s appears under %s" % (m, pname, name)
        cnt = collections.Counter(re.findall(r"MARK:([^\s]+)", text))
        twice = [m for m, c in cnt.items() if c > 1]
        if twice:
            return "marker %s occurs %d times in %s" % (twice[0], cnt[twice[0]], rel)
    return None


def multi_machine_case(runner, r, oc, reqs, pend, rounds, uml=False):
    """two machines whose names (hence file names) contain one another, generated into one
    directory, regenerated alternately"""
    backend = r.choice(["cpp", "cs", "py"])
    n1, n2 = r.choice(NAME_SETS)
    models = []
    for nm in (n1, n2):
        m = genlib.rand_sm_model(r, backend)
        m["name"] = nm
        models.append(m)
    if r.random() < 0.25:
        models = [genlib.rand_proto_model(r), genlib.rand_proto_model(r)]
        models[0]["name"], models[1]["name"] = n1, n2
    if r.random() < 0.15:
        models = [dict(kind="uml", backend=r.choice(["uml", "umlcs"]), project=genlib.BLOB, diagram=d, ns_folders=True, dclspc="")
                  for d in ("TestClassDiagram", "ProtocolStack")]
    if not uml and r.random() < 0.2 and models[0]["kind"] == "sm":
        models[0] = genlib.with_non_ascii_twins(r, models[0])
        oc.stat("names_that_agree_in_their_ascii_characters")
    if uml or r.random() < 0.1:
        # one class diagram, mostly synthesised (modelled constructors next to the generated initialising one, operations
        # taken over from realised interfaces, associations): every block once, under its own tag, after every regeneration
        models = [genlib.rand_uml_model(r)]
        if uml and not models[0].get("synth") and r.random() < 0.75:
            import umlsynth
            models[0]["synth"] = umlsynth.rand_spec(r)
            models[0]["diagram"] = models[0]["synth"]["diagram"]
        if uml and r.random() < 0.5:
            models[0]["backend"] = "uml"
        oc.stat("single_uml_model" + ("_synthesised" if models[0].get("synth") else ""))
    with scratch() as base:
        outdir_arg, cwd = genlib.rand_outdir_spelling(r, base)
        real = os.path.join(base, "out")
        hist = dict(models=models, outdir=outdir_arg, cwd=cwd, order=[])
        placed = {}
        counter = [0]
        with e2e.in_cwd(cwd):
            owned = []
            for m in models:
                ret_m = runner.generate(m, outdir_arg)[0] or []
                owned.append({os.path.normpath(x) for x in ret_m})
            if len(owned) > 1 and owned[0] & owned[1]:
                oc.stat("skipped_same_path_for_both_models")   # both models own one path: not two files
                return
            for k in range(rounds):
                placed.update(place_markers(r, real, counter, r.choice([0.4, 1.0])))
                which = r.randrange(len(models))
                hist["order"].append(which)
                files_before = e2e.decode_tree(real)
                before = e2e.snapshot(real)
                ret, fresh = runner.generate(models[which], outdir_arg)
                after = e2e.snapshot(real)
                msg = marker_violation(after, placed)
                if not msg:
                    # markers never disappear either (same model: every tag survives)
                    mb, ma = markers(before), markers(after)
                    if mb != ma:
                        rel = next(k2 for k2 in set(mb) | set(ma) if mb.get(k2) != ma.get(k2))
                        msg = "marker multiset of %s changed: %s -> %s" % (rel, dict(mb.get(rel, {})), dict(ma.get(rel, {})))
                if msg:
                    oc.violations.append(dict(what=msg, history=hist))
                    return
                if fresh is not None:
                    reqs.append(e2e.regen_request(cwd, outdir_arg, files_before, fresh))
                    pend.append(("regen", dict(history=hist, step=k), (e2e.decode_tree(real), ret)))
                else:
                    oc.corr_failures.append(dict(what="could not capture the fresh code model", history=hist))
        names = sorted(e2e.snapshot(real))
        rel_kinds = set()
        for a in names:
            for b in names:
                if a != b and a in b:
                    rel_kinds.add("substring")
                    if b.endswith(a):
                        rel_kinds.add("suffix")
                    if b.startswith(a):
                        rel_kinds.add("prefix")
        for k2 in rel_kinds:
            oc.stat("name_relation_" + k2)
        oc.stat("backend_" + models[0]["backend"])
        oc.case(("multi", json.dumps(hist, sort_keys=True, default=str), len(placed)), nontrivial=bool(rel_kinds) and bool(placed))
        if len(oc.samples) < 3:
            oc.samples.append(dict(names=[m.get("name", m.get("diagram")) for m in models], backend=models[0]["backend"], files=names[:12], markers=len(placed), order=hist["order"]))


def late_twin_case(runner, r, oc):
    """a class diagram generated with namespace folders, user code written, then an element of the same name appears in
    another package (<A>/<Name>.h existed, <B>/<Name>.h is new): the new files start without user code and nothing moves"""
    import copy
    import umlsynth
    spec1 = umlsynth.rand_spec(r, relations=False, focus="twins")
    spec0 = copy.deepcopy(spec1)
    first = r.choice([0, 1])            # which of the two like-named elements is there from the start
    if first == 0:
        spec0["classes"] = spec0["classes"][:-1]
    else:
        del spec0["classes"][-2]
    spec0["inherits"] = []
    backend = r.choice(["uml", "uml", "umlcs"])
    mk = lambda sp: dict(kind="uml", backend=backend, project=genlib.BLOB, diagram=sp["diagram"], ns_folders=True, dclspc="", synth=sp)
    with scratch() as base:
        outdir_arg, cwd = genlib.rand_outdir_spelling(r, base)
        real = os.path.join(base, "out")
        hist = dict(models=[mk(spec0), mk(spec1)], outdir=outdir_arg, cwd=cwd, order=[0, 1, 1])
        counter = [0]
        with e2e.in_cwd(cwd):
            runner.generate(mk(spec0), outdir_arg)
            placed = place_markers(r, real, counter, 1.0)
            for step in (1, 2):
                runner.generate(mk(spec1), outdir_arg)
                msg = marker_violation(e2e.snapshot(real), placed)
                if msg:
                    oc.violations.append(dict(what="after a like-named element appeared in another package: " + msg, history=hist))
                    return
                placed.update(place_markers(r, real, counter, 0.5))
        oc.stat("late_twin_histories")
        oc.case(("late-twin", json.dumps(hist, sort_keys=True, default=str), len(placed)), nontrivial=bool(placed))


def synthetic_pass_case(r, oc, reqs, pend, idx):
    """CGenerator.preserve_usercode_in_files + createoutput on synthetic code models whose keys
    are related as suffix / prefix / substring / nested folder, vs Model.regen"""
    cgen = sys.modules["kojen.cgen"]
    import unitgen
    stems = r.choice([["X.py", "TestX.py"], ["Foo.h", "IFoo.h", "Foo.hpp"], ["a/Foo.h", "Foo.h", "b/a/Foo.h"], ["A.cs", "AA.cs", "A.cs.txt"],
                      ["ns/C.h", "ns/C.cpp", "C.h"], ["f", "ff", "fff"]])
    with scratch() as base:
        tdir = os.path.join(base, "tpl")
        os.makedirs(tdir)
        open(os.path.join(tdir, "t.txt"), "w").write("x\n")
        out = os.path.join(base, "out")
        files = {}
        for s in stems:
            if r.random() < 0.8:
                p = os.path.join(out, s)
                os.makedirs(os.path.dirname(p), exist_ok=True)
                with open(p, "w") as f:
                    f.write("".join(unitgen.doc(r, r.random() < 0.15)))
        cm = cgen.CCodeModel()
        fresh = []
        for s in r.sample(stems, len(stems)):
            lines = unitgen.doc(r, False)
            cm.filenames_to_lines[s] = list(lines)
            fresh.append([s, list(lines)])
        files_before = e2e.decode_tree(out) if os.path.isdir(out) else {}
        with common.quiet():
            g = cgen.CGenerator(tdir, out)
            g.preserve_usercode_in_files(cm)
            ret = g.createoutput(cm.filenames_to_lines)
        reqs.append(e2e.regen_request("/", out, files_before, fresh))
        pend.append(("regen", dict(stems=stems, fresh=fresh, before=files_before), (e2e.decode_tree(out), ret)))
        oc.case(("synthetic", json.dumps(fresh), json.dumps(sorted(files_before.items()))), nontrivial=bool(files_before))
        oc.stat("synthetic_pass_cases")


def search():
    r = rng(PROP, "search")
    runner = genlib.Runner()
    oc = Outcome(PROP)
    for i in range(160):
        multi_machine_case(runner, r, oc, [], [], 3, uml=i % 2 == 1)
        if oc.violations:
            return oc.violations[0]
    return None


def run(tier):
    t0 = time.time()
    thorough = tier == "thorough"
    proof = proof_status(PROP, thorough)
    oc = Outcome(PROP)
    oc.rule = ("multi: two machines / interfaces / diagrams whose names contain one another (Foo/IFoo, X/TestX, ...) generated into one directory, unique marker lines "
               "placed in tag pairs of every file, 2-5 alternating regenerations; oracle: every marker exactly once, in its file, under its tag; "
               "synthetic: preserve_usercode_in_files+createoutput on code models with suffix/prefix/substring/nested-folder related keys vs the Lean pass; "
               "non-trivial = some file name contains another and markers were placed")
    oc.assumptions = TRUSTED
    r = rng(PROP)
    runner = genlib.Runner()
    rep, detail = findings.probe_uml_dup_regen(runner)
    findings.record(oc, PROP, findings.UML_DUP, rep, detail)
    reqs, pend = [], []
    for i in range(250 if thorough else 30):
        multi_machine_case(runner, r, oc, reqs, pend, r.choice([2, 3, 5]) if thorough else r.choice([2, 3]))
        if oc.violations:
            break
    for i in range(120 if thorough else 20):
        if oc.violations:
            break
        multi_machine_case(runner, r, oc, reqs, pend, r.choice([1, 2, 3]), uml=True)
    for i in range(40 if thorough else 8):
        if oc.violations:
            break
        late_twin_case(runner, r, oc)
    for i in range(1500 if thorough else 200):
        synthetic_pass_case(r, oc, reqs, pend, i)
    c01.settle(oc, reqs, pend)
    return finish(PROP, tier, proof, oc, t0, trusted=TRUSTED, search=search)


def replay(path):
    return c01.replay(path)
