"""C05 — interrupted generation never destroys an existing file (per-file atomicity)."""
import json
import os
import shutil
import time

import common
import e2e
import fsfault
import genlib
from checks import c01
from common import Outcome, finish, lean_batch, proof_status, rng, scratch

PROP = "C05"
TRUSTED = [
    "Lean 4.33 kernel; axioms propext, Classical.choice, Quot.sound only",
    "Model/OutStage.script is hand-written after cgen.createoutput/writeFileAtomically, Lemmas/OutStageRun.runBlocks after cgen.FileCopyUtil/copyFileAtomically; tied by translation validation: the traced operation sequence of every real run must equal prog(runBlocks(outdir, code model, recorded FileCopyUtil calls)) - the bulk data of a copied file travels by sendfile and is not traced",
    "POSIX rename atomicity; distinct path strings of one run denote distinct files",
    "harness/fsfault.py (tracer / fault injector: patches builtins.open, os.makedirs, os.replace, os.rename, os.remove, shutil.copymode)",
]


def norm_ops(ops):
    out = []
    for op in ops:
        if op[0] == "open":
            out.append(["open", op[1]])
        elif op[0] == "remove":
            continue
        else:
            out.append(list(op))
    return out


def prepare(runner, r, base, model):
    real = os.path.join(base, "out")
    runner.generate(model, real)
    ro = r.random() < 0.4
    for rel, data in sorted(e2e.snapshot(real).items()):
        dups = genlib.duplicate_tags(data.decode("utf-8", "surrogateescape"))
        genlib.edit_file(r, os.path.join(real, rel), fraction=0.6, skip=dups)
        if ro and r.random() < 0.6:
            os.chmod(os.path.join(real, rel), 0o444)      # sources checked out read-only: still replaced by rename, never removed first
    return real


def run_faulted(runner, model, outdir, k, mode, flush):
    """returns 'completed' / 'raised' / 'died'"""
    if mode == "raise":
        with fsfault.Tracer(outdir, fail_at=k, mode="raise") as tr:
            try:
                runner.generate(model, outdir)
                return "completed" if not tr.fired else "swallowed"
            except OSError:
                return "raised"
    pid = os.fork()
    if pid == 0:
        try:
            with fsfault.Tracer(outdir, fail_at=k, mode="die", flush_before_death=flush):
                runner.generate(model, outdir)
        finally:
            os._exit(0)
    _, status = os.waitpid(pid, 0)
    return "died" if os.WEXITSTATUS(status) == 17 else "completed"


def crash_case(runner, r, oc, reqs, pend, max_points, big=False, support_copy=False):
    model = genlib.rand_model(r, ("sm", "sm", "sm", "proto", "uml"), big) if not support_copy else (
        genlib.rand_sm_model(r, "cpp", big) if r.random() < 0.6 else genlib.rand_proto_model(r, big))
    if model["kind"] in ("sm", "proto") and (support_copy or r.random() < 0.5):
        model["copy_other"] = True        # kojen's default: the support sources are copied below <out>/allplatforms
        oc.stat("cases_with_support_copy")
    evolve = r.random() < 0.5
    with scratch() as base:
        real = prepare(runner, r, base, model)
        model2 = genlib.mutate_model(r, model)[0] if evolve else model
        before = e2e.snapshot(real)
        # reference: complete traced run in a copy
        ref = os.path.join(base, "ref")
        shutil.copytree(real, ref)
        with CopyRecorder() as rec, fsfault.Tracer(ref) as tr:
            ret, fresh = runner.generate(model2, ref)
        ops = norm_ops(tr.ops)
        final = e2e.snapshot(ref)
        cm_out = runner.captured_out[-1] if len(runner.captured_out) == 1 else None
        if cm_out is None:
            oc.corr_failures.append(dict(what="createoutput was not called exactly once", model=model2))
        else:
            copies = rec.as_request()
            reqs.append(dict(cmd="script", outdir=ref, cm=[[k, v] for k, v in cm_out], **(dict(copies=copies) if copies else {})))
            copy_tmps = {os.path.join(c["dirTo"], f[0]) + ".kojen-tmp" for c in copies for f in c["files"]}
            pend.append(("script", dict(model=model2, existed=[os.path.join(ref, k) for k in before], copy_tmps=sorted(copy_tmps)), traced_ops(ops)))
            if copies:
                oc.stat("support_files_copied", sum(len(c["files"]) for c in copies))
        n = len(ops)
        oc.stat("ops_per_run_total", n)
        if n + 1 <= max_points:
            points = list(range(n + 1))
        else:
            # every non-write operation (open / close / copymode / replace / mkdirs) plus a sample of the line writes
            structural = [i for i, op in enumerate(ops) if op[0] != "write"] + [n]
            writes = [i for i, op in enumerate(ops) if op[0] == "write"]
            points = sorted(set(structural + r.sample(writes, min(len(writes), max(10, max_points - len(structural))))))
        for k in points:
            mode = r.choice(["raise", "die", "die"])
            flush = r.random() < 0.5
            work = os.path.join(base, "w")
            shutil.rmtree(work, ignore_errors=True)
            shutil.copytree(real, work)
            how = run_faulted(runner, model2, work, k, mode, flush)
            after = e2e.snapshot(work)
            oc.stat("fault_" + mode + "_" + how)
            opname = ops[k][0] if k < n else "end"
            oc.stat("fault_at_" + opname)
            for rel, old in before.items():
                new = after.get(rel)
                if new != old and new != final.get(rel):
                    oc.violations.append(dict(what="after a %s at operation %d (%s) the pre-existing file %s is neither its old nor the complete new content" % (
                        "raised ENOSPC" if mode == "raise" else "process death", k, opname, rel),
                        model=model2, first_model=model, k=k, mode=mode, flushed=flush, old=old, got=new, complete_new=final.get(rel)))
                    return
            leftovers = [p for p in after if p.endswith(".kojen-tmp")]
            if mode == "raise" and how == "raised" and leftovers:
                oc.corr_failures.append(dict(what="temporary file left behind after a raised error: %s" % leftovers, model=model2, k=k))
            oc.case(("crash", json.dumps(model2, sort_keys=True, default=str), k, mode, flush), nontrivial=bool(before) and k < n)
        if len(oc.samples) < 3:
            oc.samples.append(dict(model=model2, evolved=evolve, operations=n, crash_points=len(points), first_ops=ops[:5]))


def traced_ops(ops):
    """the traced operations without the second fault point of an open"""
    return [op for op in ops if op[0] != "opened"]


class CopyRecorder:
    """records the calls of cgen.FileCopyUtil (dir_from, dir_to, names) of one run - the copy of the support sources"""

    def __init__(self):
        self.calls = []

    def __enter__(self):
        import sys
        self.saved = []
        rec = self

        for name in ("kojen.cgen", "kojen.smgen", "kojen.protogen"):
            mod = sys.modules.get(name)
            if mod is not None and hasattr(mod, "FileCopyUtil"):
                orig = getattr(mod, "FileCopyUtil")
                self.saved.append((mod, orig))

                def wrapped(dir_from, dir_to, names, _orig=orig):
                    rec.calls.append((dir_from, dir_to, list(names)))
                    return _orig(dir_from, dir_to, names)
                setattr(mod, "FileCopyUtil", wrapped)
        return self

    def __exit__(self, *a):
        for mod, orig in self.saved:
            setattr(mod, "FileCopyUtil", orig)
        return False

    def as_request(self):
        out = []
        for dir_from, dir_to, names in self.calls:
            files = []
            for n in names:
                try:
                    with open(os.path.join(dir_from, n), "rb") as f:
                        content = f.read().decode("latin-1")
                except OSError:
                    continue        # (the generator warns and goes on)
                files.append([n, os.path.join(dir_from, n), content])
            out.append(dict(dirTo=dir_to, files=files))
        return out


def settle(oc, reqs, pend):
    answers = lean_batch(reqs)
    for (kind, info, impl), ans in zip(pend, answers):
        if "error" in ans:
            oc.corr_failures.append(dict(what="Lean driver error: " + ans["error"], input=info))
            continue
        existed = set(info["existed"])
        # copymode happens only for files that exist; the data of a support file travels by sendfile: no write is traced
        copy_tmps = set(info.get("copy_tmps", []))
        mops = [op for op in ans["ops"] if not (op[0] == "copymode" and op[2] not in copy_tmps and op[1] not in existed)
                and not (op[0] == "write" and op[1] in copy_tmps)]
        oc.traces_validated += 1
        if mops != impl:
            i = next((i for i in range(min(len(mops), len(impl))) if mops[i] != impl[i]), min(len(mops), len(impl)))
            oc.corr_failures.append(dict(what="traced I/O operations differ from Model.script at op %d: model %r / impl %r" % (
                i, mops[i] if i < len(mops) else None, impl[i] if i < len(impl) else None), input=info["model"]))


def search():
    r = rng(PROP, "search")
    runner = genlib.Runner()
    oc = Outcome(PROP)
    for i in range(12):
        crash_case(runner, r, oc, [], [], 120, support_copy=i % 2 == 0)
        if oc.violations:
            return oc.violations[0]
    return None


def run(tier):
    t0 = time.time()
    thorough = tier == "thorough"
    proof = proof_status(PROP, thorough)
    oc = Outcome(PROP)
    oc.rule = ("fault enumeration: directory with user code, (possibly mutated) model regenerated with operation k of the traced output stage failing, "
               "k over every operation index (quick: all indices of small runs, sampled incl. first/last for large ones), as raised OSError(ENOSPC) in-process and as os._exit in a forked child "
               "(with and without flushing the buffered data first); oracle: every pre-existing file equals its old bytes or the bytes of a complete run; "
               "half of the C++ / protocol cases with kojen's default copy of the support sources on (stale copies pre-existing); a second fault point right after every open; "
               "translation validation: traced operation sequence == Lean prog(runBlocks(outdir, code model, recorded FileCopyUtil calls)); non-trivial = fault before the end in a directory with files")
    oc.assumptions = TRUSTED
    r = rng(PROP)
    runner = genlib.Runner()
    reqs, pend = [], []
    for i in range(20 if thorough else 6):
        crash_case(runner, r, oc, reqs, pend, 500 if thorough else 150, big=thorough, support_copy=i % 3 == 1)
        if oc.violations:
            break
    settle(oc, reqs, pend)
    return finish(PROP, tier, proof, oc, t0, level="proof", trusted=TRUSTED, search=search)


def replay(path):
    return c01.replay(path)
