"""C05 — interrupted generation never destroys an existing file (per-file atomicity)."""
import copy
import json
import os
import random
import shutil
import time

import common
import e2e
import fsfault
import genlib
from checks import c01
from common import Outcome, finish, lean_batch, proof_status, rng, scratch

PROP = "C05"
TRUSTED = [
    "Lean 4.33 kernel; axioms propext, Classical.choice, Quot.sound only",
    "Model/OutStage.script is hand-written after cgen.createoutput/writeFileAtomically, Lemmas/OutStageRun.runBlocks after cgen.FileCopyUtil/copyFileAtomically; tied by translation validation: the traced operation sequence of every real run must equal prog(runBlocks(outdir, code model, recorded FileCopyUtil calls)) - the bulk data of a copied file travels by sendfile and is not traced",
    "POSIX rename atomicity; distinct path strings of one run denote distinct files",
    "harness/fsfault.py (tracer / fault injector: patches builtins.open, os.makedirs, os.replace, os.rename, os.remove, shutil.copymode)",
]


def norm_ops(ops):
    out = []
    for op in ops:
        if op[0] == "open":
            out.append(["open", op[1]])
        elif op[0] == "remove":
            continue
        else:
            out.append(list(op))
    return out


def prepare(runner, r, base, model):
    real = os.path.join(base, "out")
    runner.generate(model, real)
    ro = r.random() < 0.4
    for rel, data in sorted(e2e.snapshot(real).items()):
        dups = genlib.duplicate_tags(data.decode("utf-8", "surrogateescape"))
        genlib.edit_file(r, os.path.join(real, rel), fraction=0.6, skip=dups)
        if ro and r.random() < 0.6:
            os.chmod(os.path.join(real, rel), 0o444)      # sources checked out read-only: still replaced by rename, never removed first
    if r.random() < 0.4:
        # what an earlier, killed run left behind (a temporary file next to a target), and files of others
        names_ = sorted(e2e.snapshot(real))
        if names_:
            with open(os.path.join(real, r.choice(names_) + ".kojen-tmp"), "w") as f:
                f.write("half a file from a run that was kil")
        os.makedirs(os.path.join(real, "docs"), exist_ok=True)
        with open(os.path.join(real, "docs", "README.txt"), "w") as f:
            f.write("// {{{USER_HEADER_INCLUDES}}}\nnot generated\n// {{{USER_HEADER_INCLUDES}}}\n")
    return real


def run_faulted(runner, model, outdir, k, mode, flush):
    """returns 'completed' / 'raised' / 'died'"""
    if mode == "raise":
        with fsfault.Tracer(outdir, fail_at=k, mode="raise") as tr:
            try:
                runner.generate(model, outdir)
                return "completed" if not tr.fired else "swallowed"
            except OSError:
                return "raised"
    pid = os.fork()
    if pid == 0:
        try:
            with fsfault.Tracer(outdir, fail_at=k, mode="die", flush_before_death=flush):
                runner.generate(model, outdir)
        finally:
            os._exit(0)
    _, status = os.waitpid(pid, 0)
    return "died" if os.WEXITSTATUS(status) == 17 else "completed"


def crash_case(runner, r, oc, reqs, pend, max_points, big=False, support_copy=False):
    model = genlib.rand_model(r, ("sm", "sm", "sm", "proto", "uml"), big) if not support_copy else (
        genlib.rand_sm_model(r, "cpp", big) if r.random() < 0.6 else genlib.rand_proto_model(r, big))
    if model["kind"] in ("sm", "proto") and (support_copy or r.random() < 0.5):
        model["copy_other"] = True        # kojen's default: the support sources are copied below <out>/allplatforms
        oc.stat("cases_with_support_copy")
    evolve = r.random() < 0.5
    with scratch() as base:
        real = prepare(runner, r, base, model)
        model2 = genlib.mutate_model(r, model)[0] if evolve else model
        before = e2e.snapshot(real)
        # reference: complete traced run in a copy
        ref = os.path.join(base, "ref")
        shutil.copytree(real, ref)
        with CopyRecorder() as rec, fsfault.Tracer(ref) as tr:
            ret, fresh = runner.generate(model2, ref)
        ops = norm_ops(tr.ops)
        final = e2e.snapshot(ref)
        cm_out = runner.captured_out[-1] if len(runner.captured_out) == 1 else None
        if cm_out is None:
            oc.corr_failures.append(dict(what="createoutput was not called exactly once", model=model2))
        else:
            copies = rec.as_request()
            reqs.append(dict(cmd="script", outdir=ref, cm=[[k, v] for k, v in cm_out], **(dict(copies=copies) if copies else {})))
            copy_tmps = {os.path.join(c["dirTo"], f[0]) + ".kojen-tmp" for c in copies for f in c["files"]}
            pend.append(("script", dict(model=model2, existed=[os.path.join(ref, k) for k in before], copy_tmps=sorted(copy_tmps)), traced_ops(ops)))
            if copies:
                oc.stat("support_files_copied", sum(len(c["files"]) for c in copies))
        n = len(ops)
        oc.stat("ops_per_run_total", n)
        if n + 1 <= max_points:
            points = list(range(n + 1))
        else:
            # every non-write operation (open / close / copymode / replace / mkdirs) plus a sample of the line writes
            structural = [i for i, op in enumerate(ops) if op[0] != "write"] + [n]
            writes = [i for i, op in enumerate(ops) if op[0] == "write"]
            points = sorted(set(structural + r.sample(writes, min(len(writes), max(10, max_points - len(structural))))))
        for k in points:
            mode = r.choice(["raise", "die", "die"])
            flush = r.random() < 0.5
            work = os.path.join(base, "w")
            shutil.rmtree(work, ignore_errors=True)
            shutil.copytree(real, work)
            how = run_faulted(runner, model2, work, k, mode, flush)
            after = e2e.snapshot(work)
            oc.stat("fault_" + mode + "_" + how)
            opname = ops[k][0] if k < n else "end"
            oc.stat("fault_at_" + opname)
            for rel, old in before.items():
                if rel.endswith(".kojen-tmp"):
                    continue        # a left-over temporary file is the stage's own scratch name, not a file to protect
                new = after.get(rel)
                if new != old and new != final.get(rel):
                    oc.violations.append(dict(what="after a %s at operation %d (%s) the pre-existing file %s is neither its old nor the complete new content" % (
                        "raised ENOSPC" if mode == "raise" else "process death", k, opname, rel),
                        model=model2, first_model=model, k=k, mode=mode, flushed=flush, old=old, got=new, complete_new=final.get(rel)))
                    return
            leftovers = [p for p in after if p.endswith(".kojen-tmp") and after[p] != before.get(p)]      # (not the one an earlier run left)
            if mode == "raise" and how == "raised" and leftovers:
                oc.corr_failures.append(dict(what="temporary file left behind after a raised error: %s" % leftovers, model=model2, k=k))
            oc.case(("crash", json.dumps(model2, sort_keys=True, default=str), k, mode, flush), nontrivial=bool(before) and k < n)
        if len(oc.samples) < 3:
            oc.samples.append(dict(model=model2, evolved=evolve, operations=n, crash_points=len(points), first_ops=ops[:5]))


def reused_instance_case(runner, r, oc, points=12, reqs=None, pend=None):
    """a script that keeps its generator object (smgen.CStateMachineGenerator): first run into an empty directory - every file
    is new -, hand-written code added, then the same object generates again (same or changed table) and is interrupted"""
    import sys
    smgen = sys.modules["kojen.smgen"]
    backend = r.choice(["cpp", "cs", "py"])
    model = genlib.rand_sm_model(r, backend)
    lang_mod, lang_cls, tdir = {"cpp": ("kojen.LanguageCPP", "LanguageCPP", "statemachine_templates_embedded_arm"),
                                "cs": ("kojen.LanguageCsharp", "LanguageCsharp", "statemachine_templates_cs_winlinmac"),
                                "py": ("kojen.LanguagePython", "LanguagePython", "statemachine_templates_py")}[backend]
    templatedir = os.path.join(os.path.dirname(smgen.__file__), tdir)
    model2 = genlib.mutate_model(r, model)[0] if r.random() < 0.5 else model
    if model2["iface"] != model["iface"]:
        model2 = model      # (the object is built around one events interface)

    def make(outdir):
        with genlib.quiet():
            g = smgen.CStateMachineGenerator(templatedir, outdir, genlib.build_iface(runner.kt, model["iface"]), getattr(sys.modules[lang_mod], lang_cls)(), "auth", "grp", "brief")
        g.vpp_filename = "Transition Table"
        return g

    def gen(g, m):
        with genlib.quiet():
            return g.Generate(copy.deepcopy(m["tt"]), m["ns"], m["name"], m.get("dclspc", ""), False)

    def first_run(outdir, seed):
        g = make(outdir)
        gen(g, model)
        r2 = random.Random(seed)
        for rel, data in sorted(e2e.snapshot(outdir).items()):
            dups = genlib.duplicate_tags(data.decode("utf-8", "surrogateescape"))
            genlib.edit_file(r2, os.path.join(outdir, rel), fraction=0.6, skip=dups)
        return g
    with scratch() as base:
        seed = r.randrange(1 << 30)
        ref = os.path.join(base, "ref")
        g = first_run(ref, seed)
        before = e2e.snapshot(ref)
        runner.captured_out = []
        with fsfault.Tracer(ref) as tr:
            gen(g, model2)
        n = len(norm_ops(tr.ops))
        final = e2e.snapshot(ref)
        if reqs is not None and len(runner.captured_out) == 1:
            # the second run of a kept object performs the same operations as any run: Lean prog(script(outdir, code model))
            reqs.append(dict(cmd="script", outdir=ref, cm=[[k_, v_] for k_, v_ in runner.captured_out[-1]]))
            pend.append(("script", dict(model=model2, reused_generator=True, existed=[os.path.join(ref, k_) for k_ in before], copy_tmps=[]), traced_ops(norm_ops(tr.ops))))
            oc.stat("reused_generator_runs_compared_with_the_model")
        ks = sorted(set(r.sample(range(n + 1), min(n + 1, points))))
        for k in ks:
            work = os.path.join(base, "w%d" % k)
            g = first_run(work, seed)
            if e2e.snapshot(work) != before:
                oc.corr_failures.append(dict(what="the prepared tree of a reused-generator history is not reproducible", model=model))
                return
            with fsfault.Tracer(work, fail_at=k, mode="raise"):
                try:
                    gen(g, model2)
                except OSError:
                    pass
            after = e2e.snapshot(work)
            for rel, old in before.items():
                new = after.get(rel)
                if new != old and new != final.get(rel):
                    oc.violations.append(dict(what="generator object used for a second run: after a raised ENOSPC at operation %d the pre-existing file %s is neither its old nor the complete new content" % (k, rel),
                                              model=model2, first_model=model, k=k, mode="raise", reused_generator=True, old=old, got=new, complete_new=final.get(rel)))
                    return
            shutil.rmtree(work, ignore_errors=True)
            oc.case(("reused", json.dumps(model2, sort_keys=True, default=str), k), nontrivial=k < n)
        oc.stat("reused_generator_histories")


def traced_ops(ops):
    """the traced operations without the second fault point of an open"""
    return [op for op in ops if op[0] != "opened"]


class CopyRecorder:
    """records the calls of cgen.FileCopyUtil (dir_from, dir_to, names) of one run - the copy of the support sources"""

    def __init__(self):
        self.calls = []

    def __enter__(self):
        import sys
        self.saved = []
        rec = self

        for name in ("kojen.cgen", "kojen.smgen", "kojen.protogen"):
            mod = sys.modules.get(name)
            if mod is not None and hasattr(mod, "FileCopyUtil"):
                orig = getattr(mod, "FileCopyUtil")
                self.saved.append((mod, orig))

                def wrapped(dir_from, dir_to, names, _orig=orig):
                    rec.calls.append((dir_from, dir_to, list(names)))
                    return _orig(dir_from, dir_to, names)
                setattr(mod, "FileCopyUtil", wrapped)
        return self

    def __exit__(self, *a):
        for mod, orig in self.saved:
            setattr(mod, "FileCopyUtil", orig)
        return False

    def as_request(self):
        out = []
        for dir_from, dir_to, names in self.calls:
            files = []
            for n in names:
                try:
                    with open(os.path.join(dir_from, n), "rb") as f:
                        content = f.read().decode("latin-1")
                except OSError:
                    continue        # (the generator warns and goes on)
                files.append([n, os.path.join(dir_from, n), content])
            out.append(dict(dirTo=dir_to, files=files))
        return out


def writer_cases(r, oc, n):
    """the two atomic writers on their own (cgen.writeFileAtomically, cgen.copyFileAtomically), every operation as a fault
    point, on file names of ordinary and of boundary length (the longest names a file system takes: 255 bytes; a name whose
    temporary twin no longer fits is refused with the file untouched)"""
    import sys
    cgen = sys.modules["kojen.cgen"]
    for i in range(n):
        with scratch() as base:
            d = os.path.join(base, "out")
            os.makedirs(d)
            ln = [1, 12, 244, 245, 246, 250, 254, 255][i % 8] if i < 16 else r.choice([3, 40, 200, 245, 255])
            name = ("N" * ln)[:max(ln - 2, 0)] + ".h"[-min(ln, 2):]
            name = name[:ln] if len(name) >= ln else name + "x" * (ln - len(name))
            target = os.path.join(d, name)
            old = "old line\n// {{{USER_X}}}\nhand-written\n// {{{USER_X}}}\n"
            with open(target, "w") as f:
                f.write(old)
            lines = ["new %d\n" % k for k in range(r.randint(1, 5))]
            src = os.path.join(base, "shipped.h")
            with open(src, "w") as f:
                f.write("".join(lines))
            which = r.choice(["write", "copy"])
            call = (lambda: cgen.writeFileAtomically(target, lines)) if which == "write" else (lambda: cgen.copyFileAtomically(src, target))
            if which == "copy" and not hasattr(cgen, "copyFileAtomically"):
                continue
            # reference run in a copy, to learn the operations
            ref = os.path.join(base, "ref")
            shutil.copytree(d, ref)
            tref = os.path.join(ref, name)
            with fsfault.Tracer(ref) as tr:
                try:
                    (cgen.writeFileAtomically(tref, lines) if which == "write" else cgen.copyFileAtomically(src, tref))
                    refused = False
                except OSError:
                    refused = True      # ENAMETOOLONG for the temporary twin: allowed, as long as nothing is touched
            nops = len(tr.ops)
            final = e2e.snapshot(ref)
            for k in range(nops + 1):
                for mode in ("raise", "die"):
                    work = os.path.join(base, "w")
                    shutil.rmtree(work, ignore_errors=True)
                    shutil.copytree(d, work)
                    twork = os.path.join(work, name)
                    fn = (lambda: cgen.writeFileAtomically(twork, lines)) if which == "write" else (lambda: cgen.copyFileAtomically(src, twork))
                    if mode == "raise":
                        with fsfault.Tracer(work, fail_at=k, mode="raise"):
                            try:
                                fn()
                            except OSError:
                                pass
                    else:
                        pid = os.fork()
                        if pid == 0:
                            try:
                                with fsfault.Tracer(work, fail_at=k, mode="die", flush_before_death=r.random() < 0.5):
                                    try:
                                        fn()
                                    except OSError:
                                        pass
                            finally:
                                os._exit(0)
                        os.waitpid(pid, 0)
                    got = e2e.snapshot(work).get(name)
                    oc.case(("writer", which, ln, k, mode), nontrivial=k < nops)
                    if got != old.encode() and got != final.get(name):
                        oc.violations.append(dict(what="%s on a file name of %d characters, %s at operation %d of %d: the pre-existing file is neither its old nor the complete new content (%s)" % (
                            "writeFileAtomically" if which == "write" else "copyFileAtomically", ln, "raised ENOSPC" if mode == "raise" else "process death", k, nops,
                            "missing" if got is None else "%d bytes" % len(got)), name_length=ln, writer=which, k=k, mode=mode, refused_when_complete=refused))
                        return
            oc.stat("writer_name_length_%d" % ln)


def settle(oc, reqs, pend):
    answers = lean_batch(reqs)
    for (kind, info, impl), ans in zip(pend, answers):
        if "error" in ans:
            oc.corr_failures.append(dict(what="Lean driver error: " + ans["error"], input=info))
            continue
        existed = set(info["existed"])
        # copymode happens only for files that exist; the data of a support file travels by sendfile: no write is traced
        copy_tmps = set(info.get("copy_tmps", []))
        mops = [op for op in ans["ops"] if not (op[0] == "copymode" and op[2] not in copy_tmps and op[1] not in existed)
                and not (op[0] == "write" and op[1] in copy_tmps)]
        oc.traces_validated += 1
        if mops != impl:
            i = next((i for i in range(min(len(mops), len(impl))) if mops[i] != impl[i]), min(len(mops), len(impl)))
            oc.corr_failures.append(dict(what="traced I/O operations differ from Model.script at op %d: model %r / impl %r" % (
                i, mops[i] if i < len(mops) else None, impl[i] if i < len(impl) else None), input=info["model"]))


def search():
    r = rng(PROP, "search")
    runner = genlib.Runner()
    oc = Outcome(PROP)
    for i in range(12):
        crash_case(runner, r, oc, [], [], 120, support_copy=i % 2 == 0)
        if oc.violations:
            return oc.violations[0]
    return None


def run(tier):
    t0 = time.time()
    thorough = tier == "thorough"
    proof = proof_status(PROP, thorough)
    oc = Outcome(PROP)
    oc.rule = ("fault enumeration: directory with user code, (possibly mutated) model regenerated with operation k of the traced output stage failing, "
               "k over every operation index (quick: all indices of small runs, sampled incl. first/last for large ones), as raised OSError(ENOSPC) in-process and as os._exit in a forked child "
               "(with and without flushing the buffered data first); oracle: every pre-existing file equals its old bytes or the bytes of a complete run; "
               "half of the C++ / protocol cases with kojen's default copy of the support sources on (stale copies pre-existing); a second fault point right after every open; histories in which the script keeps one generator object (smgen.CStateMachineGenerator) for a first run into an empty directory and a faulted second run; "
               "translation validation: traced operation sequence == Lean prog(runBlocks(outdir, code model, recorded FileCopyUtil calls)); non-trivial = fault before the end in a directory with files")
    oc.assumptions = TRUSTED
    r = rng(PROP)
    runner = genlib.Runner()
    reqs, pend = [], []
    for i in range(20 if thorough else 6):
        crash_case(runner, r, oc, reqs, pend, 500 if thorough else 150, big=thorough, support_copy=i % 3 == 1)
        if oc.violations:
            break
    if not oc.violations:
        writer_cases(r, oc, 40 if thorough else 16)
    for i in range(12 if thorough else 3):
        if oc.violations:
            break
        reused_instance_case(runner, r, oc, points=30 if thorough else 12, reqs=reqs, pend=pend)
    settle(oc, reqs, pend)
    return finish(PROP, tier, proof, oc, t0, level="proof", trusted=TRUSTED, search=search)


def replay(path):
    return c01.replay(path)
