"""C20 — state-diagram extraction from a VP project yields exactly the drawn transitions."""
import os
import sys
import time

import common
import genlib
import vppsynth
from checks import c01
from common import Outcome, finish, lean_batch, proof_status, quiet, rng, scratch

PROP = "C20"
TRUSTED = [
    "Lean 4.33 kernel; axioms propext, Classical.choice, Quot.sound only",
    "Model/Vpp is hand-written after kojen/vppfs.py (element classification, Transition.Parse / Guard.Parse at string level, GetTransitionTable); tied every run by differential runs of the real "
    "ExtractTransitionTable on synthesised SQLite project files against Vpp.extract on the same three tables (as SELECT * returns them, blobs as str(bytes)), exceptions included",
    "the synthesiser (harness/vppsynth.py) is calibrated against the shipped kojen/test/blob.xml: same schema, VP's blob notation, ids over VP's alphabet, and the entry that shares the first ';'-piece "
    "with the header is never a reference (as in every blob of the shipped project); the shipped diagram itself is re-extracted as calibration point every run",
    "SQLite and the schema checks of the table readers are outside the model; names are ASCII identifiers, distinct per diagram for states; diagrams contain states, transitions, one initial pseudo-state, notes / anchors",
]


def vppfs():
    common.fresh_modules()
    return sys.modules.get("kojen.vppfs") or __import__("kojen.vppfs", fromlist=["x"])


def groups_ok(rows, d):
    """rows of one source state contiguous; group of the initial target first (when it has rows)"""
    seen, last = set(), None
    for row in rows:
        if row[0] != last:
            if row[0] in seen:
                return "rows of source state %s are not contiguous" % row[0]
            seen.add(row[0])
            last = row[0]
    if d.get("initial") is not None and rows:
        ini = d["states"][d["initial"]]
        if any(row[0] == ini for row in rows) and rows[0][0] != ini:
            return "the rows of the state entered from the initial pseudo-state (%s) do not come first" % ini
    return None


def run(tier):
    t0 = time.time()
    thorough = tier == "thorough"
    proof = proof_status(PROP, thorough)
    oc = Outcome(PROP)
    oc.rule = ("synthesised VP projects: 1-3 state diagrams (1-6 states, 0-9 transitions, guards / effects present or absent, effects shared between transitions, self loops, transitions drawn twice, "
               "notes / anchors, trigger names containing 'guard' / 'effect', nested owner:child references) plus class diagrams as noise, element ids random, table rows shuffled; "
               "every third project is followed by a revision of itself (same element ids; states / events / activities renamed, transitions re-wired) extracted in the same process; "
               "oracle: extraction == one row per drawn transition with names and 'None' conventions, grouped by source, initial target's group first; model: Vpp.extract on the dumped tables; "
               "calibration: the shipped project's TestStateMachine and its abstract re-synthesis; non-trivial = diagram with >= 2 transitions")
    oc.assumptions = TRUSTED
    r = rng(PROP)
    V = vppfs()
    reqs, pend = [], []
    shipped = os.path.join(common.REPO, "kojen", "test", "blob.xml")
    cal_expected = [["StateRed", "EventButtonPressed", "StateOrange", "OnOrange", "GuardCanChangeToOrange"],
                    ["StateOrange", "EventButtonPressed", "StateGreen", "OnGreen", "GuardCanChangeToGreen"],
                    ["StateGreen", "EventButtonPressed", "StateRed", "OnRed", "GuardCanChangeToRed"]]
    with quiet():
        got = V.ExtractTransitionTable("TestStateMachine", shipped)
    if got != cal_expected:
        oc.violations.append(dict(what="the shipped project's TestStateMachine no longer extracts to its three drawn transitions", got=got))
    tabs = vppsynth.dump_tables(shipped)
    reqs.append(dict(cmd="vpp", diagrams=tabs[0], elems=tabs[1], models=tabs[2], name="TestStateMachine"))
    pend.append((dict(name="TestStateMachine", shipped=True), got, None, None))
    cal = dict(name="TestStateMachine", states=["StateRed", "StateOrange", "StateGreen"], initial=0, has_initial=True,
               transitions=[dict(src=0, dst=1, event="EventButtonPressed", effect=1, guard="GuardCanChangeToOrange"),
                            dict(src=1, dst=2, event="EventButtonPressed", effect=2, guard="GuardCanChangeToGreen"),
                            dict(src=2, dst=0, event="EventButtonPressed", effect=0, guard="GuardCanChangeToRed")],
               activities=["OnRed", "OnOrange", "OnGreen"], notes=0)
    n = 1500 if thorough else 150
    with scratch() as base:
        todo = []
        for i in range(n + 1):
            ds = [cal] if i == 0 else [vppsynth.rand_diagram(r, "SM%d" % k) for k in range(r.choice([1, 2, 3]))]
            ncd = r.choice([0, 1, 2])
            if i > 0 and len(ds) > 1 and r.random() < 0.6 and vppsynth.share_effects(r, ds):
                oc.stat("projects_with_an_effect_activity_shared_between_diagrams")
            if i > 0 and i % 3 == 0:
                # a project and a later revision of it (same element ids, other names and wiring), extracted one after
                # the other in this process - to the same path or to another one
                seed = r.randrange(1 << 30)
                same_path = r.random() < 0.5
                todo.append((ds, ncd, seed, "p%d.vpp" % i, "first"))
                # ... or the revision under a name that is the percent-encoding of the first one's (Lamp v2.vpp / Lamp%20v2.vpp)
                rev_name = ("p%d.vpp" % i if same_path else "p%dr.vpp" % i) if r.random() < 0.7 else None
                if rev_name is None:
                    todo[-1] = (ds, ncd, seed, "Lamp v%d.vpp" % i, "first")
                    rev_name = "Lamp%%20v%d.vpp" % i
                todo.append((vppsynth.revise(r, ds), ncd, seed, rev_name, "revision"))
            else:
                # project files are where the user put them: blanks, '#', '?', '%', a sub-folder
                fname = "p%d.vpp" % i if r.random() < 0.6 else r.choice(["Rev #2/p%d.vpp", "what?/p%d.vpp", "100%% done/p%d.vpp", "my projects/p %d.vpp", "a&b=c/p%d.vpp", "\u00fcbung/p%d.vpp"]) % i
                todo.append((ds, ncd, None, fname, None))
        for (ds, ncd, seed, fname, role) in todo:
            path = os.path.join(base, fname)
            os.makedirs(os.path.dirname(path), exist_ok=True)
            if fname != "p%d.vpp" % 0 and not fname.startswith("p"):
                oc.stat("project_paths_with_special_characters")
            vppsynth.write_project(r, path, ds, class_diagrams=ncd, id_seed=seed)
            tabs = vppsynth.dump_tables(path)
            if role:
                oc.stat("extraction_of_" + role + "_of_a_revised_project")
            for d in ds:
                name = d["name"] if r.random() < 0.8 else "  " + d["name"] + " "
                try:
                    with quiet():
                        tt = V.ExtractTransitionTable(name, path)
                    err = None
                except Exception as e:      # noqa
                    tt, err = None, "%s: %s" % (type(e).__name__, e)
                reqs.append(dict(cmd="vpp", diagrams=tabs[0], elems=tabs[1], models=tabs[2], name=name))
                pend.append((d, tt, err, len(ds)))
                oc.case(("vpp", repr(d), repr(tabs[1])), nontrivial=len(d["transitions"]) >= 2)
                oc.stat("diagrams_per_project_%d" % len(ds))
                if any(t["src"] == t["dst"] for t in d["transitions"]):
                    oc.stat("with_self_loop")
                if any(t.get("guard") is None for t in d["transitions"]) and any(t.get("guard") for t in d["transitions"]):
                    oc.stat("guards_mixed")
                if d.get("drawn_twice"):
                    oc.stat("transition_drawn_twice")
                if any(("guard" in t["event"] or "effect" in t["event"]) for t in d["transitions"]):
                    oc.stat("trigger_name_contains_keyword")
                if err is None and not d.get("shipped"):
                    exp = vppsynth.expected_rows(d)
                    info = dict(diagram=d, extracted=tt)
                    if sorted(map(tuple, tt)) != sorted(map(tuple, exp)):
                        oc.violations.append(dict(what="extracted rows are not the drawn transitions: expected (any order) %s" % exp, **info))
                    else:
                        g = groups_ok(tt, d)
                        if g:
                            oc.violations.append(dict(what=g, **info))
                elif err is not None:
                    oc.violations.append(dict(what="extraction raised %s" % err, diagram=d))
            os.remove(path)
            if oc.violations:
                break
    for (d, tt, err, _), a in zip(pend, lean_batch(reqs)):
        oc.traces_validated += 1
        if "error" in a:
            oc.corr_failures.append(dict(what="Lean driver error: " + a["error"][:200], diagram=d))
        elif err is not None:
            if a["ok"]:
                oc.corr_failures.append(dict(what="the extraction raised (%s) where Vpp.extract yields a table" % err, diagram=d))
        elif not a["ok"]:
            oc.corr_failures.append(dict(what="Vpp.extract fails where the extraction yields a table", diagram=d, extracted=tt))
        elif a["rows"] != tt:
            oc.corr_failures.append(dict(what="Vpp.extract differs from ExtractTransitionTable", diagram=d, extracted=tt, model=a["rows"]))
    return finish(PROP, tier, proof, oc, t0, trusted=TRUSTED)


def replay(path):
    return c01.replay(path)
