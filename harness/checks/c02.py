"""C02 — model evolution: surviving tags keep their code, the rest follows the new model."""
import json
import os
import time

import common
import e2e
import findings
import genlib
from checks import c01
from common import Outcome, finish, lean_batch, proof_status, rng, scratch

PROP = "C02"
TRUSTED = c01.TRUSTED


def expected_tree(fresh_tree, before):
    """the property's statement: fresh tree of the new model + blocks of the old tree,
    written through the TAB filter"""
    out = {}
    for rel, data in fresh_tree.items():
        new = data.decode("utf-8", "surrogateescape")
        if rel in before:
            new = genlib.spec_splice(new, before[rel].decode("utf-8", "surrogateescape"))
        out[rel] = new.replace("\t", "    ").encode("utf-8", "surrogateescape")
    return out


def drop_an_event(r, model):
    """an event (one without parameters, if there is one) gets another name: its old name is gone from the model"""
    m = json.loads(json.dumps(model))
    evs = sorted({row[1] for row in m["tt"]})
    plain = [e for e in evs if all(s[0] != e for s in m["iface"]["structs"])]
    old = r.choice(plain or evs)
    new = old + r.choice(["Renamed", "2", "X"])
    for row in m["tt"]:
        if row[1] == old:
            row[1] = new
    m["iface"]["structs"] = [[(new if s[0] == old else s[0]), s[1]] for s in m["iface"]["structs"]]
    return m, "rename-event-directed"


def chain_case(runner, r, oc, reqs, pend, steps, kinds=("sm", "sm", "sm", "proto", "uml"), big=False, directed=False):
    model = genlib.rand_model(r, kinds, big) if not directed else genlib.rand_sm_model(r, big=big)
    with scratch() as base:
        outdir_arg, cwd = genlib.rand_outdir_spelling(r, base)
        real = os.path.join(base, "out")
        hist = dict(models=[model], outdir=outdir_arg, cwd=cwd, mutations=[], edits=[])
        # one script, one Interface object: half of the chains hand the same events-interface object to every generation
        # whose interface description did not change (the fresh reference always gets a pristine one)
        reuse = directed or r.random() < 0.5
        hist["same_interface_object"] = reuse
        runner.itf_cache = {} if reuse else None
        if reuse:
            oc.stat("chains_reusing_the_interface_object")
        with e2e.in_cwd(cwd):
            runner.generate(model, outdir_arg)
            for step in range(steps):
                edits = {}
                for rel, data in sorted(e2e.snapshot(real).items()):
                    if rel.endswith(".LostCode.txt"):
                        continue
                    dups = genlib.duplicate_tags(data.decode("utf-8", "surrogateescape"))
                    w = genlib.edit_file(r, os.path.join(real, rel), fraction=r.choice([0.3, 0.8]), skip=dups)
                    if w:
                        edits[rel] = sorted(w)
                hist["edits"].append(edits)
                if directed == "drop-struct" and step == 0 and model["iface"]["structs"]:
                    model = json.loads(json.dumps(model))
                    del model["iface"]["structs"][r.randrange(len(model["iface"]["structs"]))]
                    what = "drop-event-struct-directed"
                elif directed and step == 0:
                    model, what = drop_an_event(r, model)
                else:
                    model, what = genlib.mutate_model(r, model)
                hist["models"].append(model)
                hist["mutations"].append(what)
                oc.stat("mutation_" + what)
                before = e2e.snapshot(real)
                files_before = e2e.decode_tree(real)
                # fresh generation of the new model into an empty directory (real code)
                with scratch() as fb:
                    saved, runner.itf_cache = runner.itf_cache, None
                    try:
                        runner.generate(model, os.path.join(fb, "o"))
                    finally:
                        runner.itf_cache = saved
                    fresh_tree = e2e.snapshot(os.path.join(fb, "o"))
                ret, fresh = runner.generate(model, outdir_arg)
                after = e2e.snapshot(real)
                exp = expected_tree(fresh_tree, before)
                bad = [rel for rel in exp if after.get(rel) != exp[rel]]
                gone = [rel for rel in before if rel not in after]
                if bad or gone:
                    rel = (bad + gone)[0]
                    oc.violations.append(dict(what="after a model change (%s) %s is not the fresh file of the new model with the old blocks re-inserted" % (what, rel),
                                              history=hist, file=rel, expected=exp.get(rel), actual=after.get(rel), before=before.get(rel)))
                    return
                if fresh is not None:
                    reqs.append(e2e.regen_request(cwd, outdir_arg, files_before, fresh))
                    pend.append(("regen", dict(history=hist, step=step), (e2e.decode_tree(real), ret)))
                    for fn, lines in fresh:
                        dups = genlib.duplicate_tags("".join(lines))
                        reqs.append(dict(cmd="wf", lines=lines))
                        pend.append(("wf", dict(model=model, file=fn, dups=sorted(dups),
                                                dups_known=model["kind"] == "uml" and findings.uml_dup_known_shape(dups, model)), None))
                else:
                    oc.corr_failures.append(dict(what="could not capture the fresh code model", history=hist))
        runner.itf_cache = None
        oc.case(("chain", json.dumps(hist, sort_keys=True, default=str)), nontrivial=any(hist["edits"]))
        oc.stat("backend_" + model["backend"])
        if len(oc.samples) < 3:
            oc.samples.append(dict(first_model=hist["models"][0], mutations=hist["mutations"], edits=hist["edits"], outdir=outdir_arg))


def search():
    r = rng(PROP, "search")
    runner = genlib.Runner()
    oc = Outcome(PROP)
    for i in range(120):
        chain_case(runner, r, oc, [], [], 3, directed=("rename" if i % 4 == 1 else ("drop-struct" if i % 4 == 3 else False)))
        if oc.violations:
            return oc.violations[0]
    return None


def run(tier):
    t0 = time.time()
    thorough = tier == "thorough"
    proof = proof_status(PROP, thorough)
    oc = Outcome(PROP)
    oc.rule = ("chains of 1-4 model mutations (add/remove/rename/reorder rows, states, events, actions, guards, event parameters, messages, members; "
               "export macro for UML) with user text edited before every step; oracle: fresh generation of the new model into an empty directory "
               "spliced with the old blocks by tag name; the same step is run through the Lean pipeline model; non-trivial = some tag pair held user text")
    oc.assumptions = TRUSTED
    r = rng(PROP)
    runner = genlib.Runner()
    reqs, pend = [], []
    n = 300 if thorough else 40
    for i in range(n):
        chain_case(runner, r, oc, reqs, pend, r.choice([1, 2, 3, 4]) if thorough else r.choice([1, 2, 3]), big=thorough, directed=("rename" if i % 10 == 3 else ("drop-struct" if i % 10 == 7 else False)))
        if oc.violations:
            break
    # a tree saved with CRLF line endings, then a model change: modulo the line terminator the result is what the LF copy gives
    import crlfprobe
    for i in range(12 if thorough else 3):
        if oc.violations:
            break
        res = crlfprobe.run(runner, r, change_model=True)
        oc.stat("crlf_trees_regenerated_after_model_change")
        if res["kind"] == "violation":
            oc.violations.append(res)
    c01.settle(oc, reqs, pend)
    return finish(PROP, tier, proof, oc, t0, trusted=TRUSTED, search=search)


def replay(path):
    return c01.replay(path)
