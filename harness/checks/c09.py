"""C09 — generated C++ (boost::sml) encodes exactly the table and is self-consistent."""
import concurrent.futures
import json
import os
import time

import common
import cppprobe
import genlib
import smparse
from checks import c01
from common import Outcome, finish, lean_batch, proof_status, rng, scratch

PROP = "C09"
TRUSTED = [
    "Lean 4.33 kernel; axioms propext, Classical.choice, Quot.sound only",
    "Model/EmitSml.rows is hand-written after smgen.innerexpand_sml; tied by parse-back of make_transition_table(...) and of the declarations in the three generated units",
    "boost::sml's run-time semantics is not modelled (the library is absent from the sandbox): the property's encoding clauses are proved, 'type-check together' is decided per sampled table by g++ -fsyntax-only against probes/sml_stub (interface-only stand-in that instantiates every guard/action with the row's event); Test.<SM>StateMachine.cpp needs the absent minunit submodule and is not compiled",
    "names: UpperCamelCase, disjoint between kinds; a guard literally named 'Gnone' would shadow the built-in gnone (recorded domain boundary)",
]


def one_table(args):
    model, do_compile = args
    runner = genlib.Runner()
    tt = smparse.norm_tt(model["tt"])
    res = dict(model=model, tt=tt, violations=[], compiled=False)
    with scratch() as base:
        out = os.path.join(base, "out")
        runner.generate(model, out)
        name = model["name"]
        impl = open(os.path.join(out, name + "StateMachineImpl_SML.cpp")).read()
        ctrl = open(os.path.join(out, "I" + name + "Controller.h")).read()
        smh = open(os.path.join(out, name + "StateMachine.h")).read()
        res["rows"], res["row_errors"] = smparse.sml_table(impl)
        res["decls"] = smparse.cpp_decls(impl, ctrl, smh, name)
        if do_compile:
            inc = os.path.join(base, "inc")
            os.makedirs(inc)
            os.symlink(cppprobe.CPP, os.path.join(inc, "allplatforms"))
            import subprocess
            p = subprocess.run(["g++", "-std=c++17", "-fsyntax-only", "-DMY_EXPORT=", "-I" + inc, "-I" + os.path.join(cppprobe.PROBES, "sml_stub"), "-I" + out,
                                os.path.join(out, name + "StateMachineImpl_SML.cpp")], capture_output=True, text=True, timeout=300)
            res["compiled"] = True
            if p.returncode != 0:
                res["violations"].append("generated units do not type-check together: " + "\n".join(l for l in p.stderr.splitlines() if "error" in l)[:600])
    return res


def run(tier):
    t0 = time.time()
    thorough = tier == "thorough"
    proof = proof_status(PROP, thorough)
    oc = Outcome(PROP)
    oc.rule = ("random well-formed tables and event interfaces (primitive C++ member types with/without defaults, threading/verbosity user tags, namespace and export-macro arguments) "
               "-> real Generate.StateMachine -> make_transition_table(...) parsed back to rows and compared with Model.EmitSml.rows; declared states/guards/actions/hooks/overloads/events "
               "extracted from the three units and compared (as multisets) with the table's first-appearance lists; every third table (all in thorough) g++ -fsyntax-only against the sml stub; "
               "non-trivial = table with more than one row")
    oc.assumptions = TRUSTED
    r = rng(PROP)
    n = 240 if thorough else 45
    jobs = []
    for i in range(n):
        m = genlib.rand_sm_model(r, "cpp", thorough)
        m.pop("templatedir", None)      # C09 is about the boost::sml table of the default template set
        if i < len(genlib.SHORT_NAMES):
            # a target state with a very short name (On, No, One, N ...): the words the emitter treats as "no target" are
            # none / None / '' and nothing else
            m = genlib.with_state_named(m, genlib.SHORT_NAMES[i], target=True)
        m["dclspc"] = r.choice(["", "MY_EXPORT"])
        jobs.append((m, thorough or i % 3 == 0))
    with concurrent.futures.ProcessPoolExecutor(max_workers=14) as ex:
        results = list(ex.map(one_table, jobs))
    reqs = [dict(cmd="emitsml", tt=res["tt"]) for res in results]
    for res, ans in zip(results, lean_batch(reqs)):
        model, tt = res["model"], res["tt"]
        for v in res["violations"]:
            oc.violations.append(dict(what=v, model=model))
        oc.case(("tt", json.dumps(tt), json.dumps(model["iface"], sort_keys=True)), nontrivial=len(tt) > 1)
        if res["compiled"]:
            oc.stat("syntax_checked")
        if "error" in ans:
            oc.corr_failures.append(dict(what="Lean driver error: " + ans["error"], model=model))
            continue
        oc.traces_validated += 1
        if res["row_errors"]:
            oc.corr_failures.append(dict(what="transition table text has an unexpected shape: %s" % res["row_errors"][:3], model=model))
            continue
        if res["rows"] != ans["rows"]:
            oc.violations.append(dict(what="make_transition_table rows differ from the table's encoding", model=model, expected=ans["rows"], got=res["rows"]))
            continue
        d = res["decls"]
        lc = lambda s: s[0].lower() + s[1:]
        ev_all = list(ans["events"]) + [s for s, _ in model["iface"]["structs"] if s not in ans["events"]]
        exp = dict(state_fwd=ans["states"], guard_structs=ans["guards"], entry_structs=ans["states"], exit_structs=ans["states"], action_structs=ans["actions"],
                   ctrl_guards=ans["guards"], ctrl_entry=ans["states"], ctrl_exit=ans["states"], ctrl_actions=[[a, e] for a, e in ans["sigs"]],
                   events=ev_all, is_state=ans["states"], triggers=ev_all)
        got = dict(d)
        got["ctrl_actions"] = [list(x) for x in d["ctrl_actions"]]
        inst_exp = sorted([[s + "OnEntry", lc(s) + "OnEntry"] for s in ans["states"]] + [[s + "OnExit", lc(s) + "OnExit"] for s in ans["states"]]
                          + [[a, lc(a)] for a in ans["actions"]] + [[g, lc(g)] for g in ans["guards"]])
        bad = [k for k in exp if got[k] != exp[k]]
        if bad:
            k = bad[0]
            oc.violations.append(dict(what="declarations '%s' are %s, the table needs %s (each exactly once)" % (k, got[k], exp[k]), model=model))
        elif sorted([list(x) for x in d["instances"]]) != inst_exp:
            oc.violations.append(dict(what="functor instances %s, expected %s" % (sorted(d["instances"]), inst_exp), model=model))
        if len(oc.samples) < 2:
            oc.samples.append(dict(table=tt, rows=res["rows"][:5]))
    return finish(PROP, tier, proof, oc, t0, trusted=TRUSTED)


def replay(path):
    return c01.replay(path)
