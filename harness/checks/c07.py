"""C07 — outputs stay re-preservable: tags fully expanded, USER tags paired and unique."""
import os
import re
import time

import common
import e2e
import findings
import genlib
from checks import c01
from common import Outcome, finish, lean_batch, proof_status, rng, scratch

PROP = "C07"
TRUSTED = [
    "Lean 4.33 kernel; axioms propext, Classical.choice, Quot.sound only",
    "the acceptance check (wfFresh, noGenTag) is evaluated by the Lean driver on every file the real generators write; its soundness for re-preservability is the theorem C07_accepted_is_represervable "
    "(through the preservation model of C01); an independent Python evaluation (regex for <<<...>>>, pairing / duplicate scan of USER tags) must agree with the driver on every file",
    "the naming-scheme theorems (injectivity per template, <action>_<event>, plain vs suffixed, whole-file uniqueness C07_file_keys_nodup) are about the schemes of the shipped templates, and "
    "C07_shipped_sm_schemes_classified / C07_shipped_other_templates_static (decide +kernel over the templates regenerated from the tree) show that the templates use no other scheme; that every file of "
    "every model is accepted (no generator tag left, static tags distinct from dynamic ones) is observed on the generated sample, not proved (the template sets use tags outside the engine model): partial",
    "model domain: identifiers without underscore in state/event/action/guard names (near-miss variants included), names that do not collide with the hooks derived from other names (On<State>Exit ...)",
]
GEN_TAG = re.compile(r"<<<([^<>]*)>>>")


def py_accepts(text):
    """independent evaluation of the property on one file"""
    lines, tags = genlib.tag_positions(text)
    problems = []
    if GEN_TAG.search(text):
        problems.append("unexpanded generator tag %s" % GEN_TAG.search(text).group(0))
    npref = sum(1 for l in lines if genlib.PREFIX in l)
    if npref != 2 * len(tags):
        problems.append("USER tag lines do not pair up (%d tag lines)" % npref)
    for (o, c, name) in tags:
        m2 = genlib.USER_TAG_RE.search(lines[c])
        if not m2 or m2.group(1) != name:
            problems.append("pair with different names: %r / %r" % (lines[o].strip(), lines[c].strip()))
        if c != o + 1:
            problems.append("a freshly generated pair is not empty: %s" % name)
    dup = genlib.duplicate_tags(text)
    if dup:
        problems.append("USER tag occurs in more than one pair: %s" % sorted(dup))
    return problems, dup


def check_tree(oc, out, info, reqs, pend, known_dup_ok=False):
    for rel, data in sorted(e2e.snapshot(out).items()):
        if "allplatforms" in rel.split(os.sep):
            continue            # copied support files, not generated from templates
        text = data.decode("utf-8", "surrogateescape")
        problems, dup = py_accepts(text)
        oc.stat("files_checked")
        reqs.append(dict(cmd="wf", lines=genlib.split_nl(text)))
        pend.append((dict(info, file=rel, npairs=text.count(genlib.PREFIX) // 2), problems, dup))


def run(tier):
    t0 = time.time()
    thorough = tier == "thorough"
    proof = proof_status(PROP, thorough)
    oc = Outcome(PROP)
    oc.rule = ("every file written by the real generators (state machine C++/C#/Python with tables containing repeated actions on different events, target-only states, rows without guard/action/target, "
               "near-miss and concatenation-ambiguous names, event interfaces with parameters, user-tag settings; protocol; UML diagrams of the test project and synthesised class diagrams (read-only attributes, modelled constructors of every arity, interfaces, structs, enumerations), both back ends, namespace folders on/off) "
               "into an empty directory: accepted by the Lean driver's wfFresh/noGenTag and by an independent Python evaluation; non-trivial = file with at least one tag pair")
    oc.assumptions = TRUSTED
    r = rng(PROP)
    runner = genlib.Runner()
    reqs, pend = [], []
    n = 500 if thorough else 90
    with scratch() as base:
        for i in range(n):
            model = genlib.rand_model(r, ("sm", "sm", "sm", "proto", "uml", "uml", "uml"), big=r.random() < 0.3)
            if i % 15 == 4:
                import umlsynth
                spec = umlsynth.rand_spec(r, focus="overloads")
                model = dict(kind="uml", backend=r.choice(["uml", "uml", "umlcs"]), project=genlib.BLOB, diagram=spec["diagram"], ns_folders=r.random() < 0.5, dclspc="", synth=spec)
                oc.stat("class_diagrams_with_overloads_by_default_values")
            if model["kind"] == "sm" and r.random() < 0.35:
                model = genlib.share_a_name(r, model)
                oc.stat("tables_with_a_name_in_two_roles")
            out = os.path.join(base, "o%d" % i)
            try:
                runner.generate(model, out)
            except Exception as e:      # noqa
                oc.violations.append(dict(what="generator raised %s: %s" % (type(e).__name__, e), model=model))
                break
            oc.stat("kind_" + model["kind"] + "_" + str(model.get("backend")) + ("_synthesised" if model.get("synth") else ""))
            check_tree(oc, out, dict(model=model), reqs, pend)
        # every pair of roles sharing a name, on every back end (and both C++ template sets)
        import itertools
        k = 0
        for backend in ("py", "cs", "cpp", "cpp"):
            for pair in itertools.combinations(("state", "event", "action", "guard"), 2):
                if oc.violations:
                    break
                model = genlib.share_a_name(r, genlib.rand_sm_model(r, backend), pair=list(pair))
                out = os.path.join(base, "x%d" % k)
                k += 1
                try:
                    runner.generate(model, out)
                except Exception as e:      # noqa
                    oc.violations.append(dict(what="generator raised %s: %s" % (type(e).__name__, e), model=model))
                    break
                oc.stat("name_shared_by_%s_and_%s" % pair)
                check_tree(oc, out, dict(model=model), reqs, pend)
    for (info, problems, dup), a in zip(pend, lean_batch(reqs)):
        oc.traces_validated += 1
        if "error" in a:
            oc.corr_failures.append(dict(what="Lean driver error: " + a["error"][:200], **info))
            continue
        lean_ok = a["fresh"] and a["nogentag"]
        if lean_ok != (not problems):
            oc.corr_failures.append(dict(what="driver (%s) and Python evaluation (%s) disagree on %s" % (a, problems, info["file"]), **info))
        oc.case((info["file"], repr(info["model"])), nontrivial=info["npairs"] > 0)
        if not lean_ok:
            is_uml = info["model"]["kind"] == "uml"
            only_dup = a["nogentag"] and a["parses"] and a["items"] and not a["nodup"]
            if is_uml and only_dup and findings.uml_dup_known_shape(dup, info["model"]):
                findings.record(oc, PROP, findings.UML_DUP, True, dict(file=info["file"], dup=sorted(dup)))
            else:
                oc.violations.append(dict(what="generated file %s is not re-preservable: %s" % (info["file"], problems or a), **info))
    # the recorded finding is probed on its own witness too
    model, rel, dups = findings.uml_dup_witness(runner)
    if rel and findings.uml_dup_known_shape(dups, model):
        findings.record(oc, PROP, findings.UML_DUP, True, dict(file=rel, dup=sorted(dups)))
    elif not rel:
        findings.record(oc, PROP, findings.UML_DUP, False, {})
    return finish(PROP, tier, proof, oc, t0, trusted=TRUSTED)


def replay(path):
    return c01.replay(path)
