"""C15 — C++ dispatcher/queue: at-most-once FIFO hand-off, clean shutdown, no data races."""
import json
import os
import re
import subprocess
import time

import common
import cppprobe
import translate
from checks import c01
from common import Outcome, finish, lean_batch, proof_status, rng, scratch

PROP = "C15"
TRUSTED = [
    "Lean 4.33 kernel; axioms propext, Classical.choice, Quot.sound only",
    "Model/Conc is hand-written after threaded_dispatcher.h / threadsafe_queue.h; granularity: each mutex-protected queue method is one atomic step, each access to the atomic flag a step of its own; "
    "a condition wait is a step enabled exactly when its predicate holds — side conditions of that abstraction (waits have the predicate, push notifies, wake_up sets the flag under the mutex and notifies all, "
    "worker re-tests the flag after the pop) and the lockset table (every queue method locks m_mutex first, m_shutting_down is std::atomic) and the destruction order (stop() first in the generated destructor) "
    "are facts regenerated from the sources by harness/translate.py (regular expressions over the two headers and the SML implementation template) and are theorem obligations",
    "tied dynamically by running the real headers (probes/dispatch_stress.cpp, ThreadSanitizer build, derived destructor calling stop() exactly when the generated one does) under seeded jitter: "
    "every execution's event log is turned into a label sequence that must be a run of Model/Conc with the same hand-off order; ThreadSanitizer reports, hangs (deadline) and crashes are violations",
    "the C++ memory model is not formalised: race freedom is the lockset theorem over the regenerated access facts plus ThreadSanitizer on the explored schedules; fairness of the OS scheduler is assumed for the eventual-handling theorem (bounded response in worker steps)",
    "FreeRTOS / ARM variants of the headers are not modelled",
]
EV = re.compile(r"^([dhe])(\d+)\.(\d+)(?:@(\d+))?$")


def parse_log(line):
    log, _, summary = line.partition("|")
    evs = []
    for tok in log.split():
        if tok in ("X", "Y"):
            evs.append((tok,))
            continue
        m = EV.match(tok)
        if not m:
            return None, None
        evs.append((m.group(1), int(m.group(2)), int(m.group(3)), int(m.group(4)) if m.group(4) is not None else None))
    flags = dict(kv.split("=") for kv in summary.split())
    return evs, flags


def oracle(evs, flags, producers, per, workers, mode):
    """what the property says about one execution"""
    v = []
    hs = [(e[1], e[2]) for e in evs if e[0] == "h"]
    if len(set(hs)) != len(hs):
        v.append("an item was handed to the handler twice: %s" % hs)
    ds = {(e[1], e[2]) for e in evs if e[0] == "d"}
    if not set(hs) <= ds:
        v.append("handled an item that was never dispatched")
    if workers == 1:
        for p in range(producers):
            seq = [i for (q, i) in hs if q == p]
            if seq != sorted(seq):
                v.append("items of producer %d handled out of dispatch order: %s" % (p, seq))
        depth = 0
        for e in evs:
            if e[0] == "h":
                depth += 1
                if depth > 1:
                    v.append("two handler calls in progress at once (single worker)")
                    break
            elif e[0] == "e":
                depth -= 1
        if flags.get("overlap") == "1":
            v.append("overlap flag set with a single worker")
    if mode in (0, 2) and len(hs) != producers * per:
        v.append("dispatcher alive and idle-waited, but only %d of %d items were handled" % (len(hs), producers * per))
    if ("Y",) not in evs:
        v.append("destruction did not complete")
    else:
        y = evs.index(("Y",))
        if any(e[0] in "he" for e in evs[y + 1:]):
            v.append("handler activity after the dispatcher was destroyed")
    return v


def labels_of(evs, producers, per, workers):
    """a Model/Conc label sequence for the execution.  The log fixes the order in which handler calls begin and
    end, not the moments of push, pop and of the flag write: pushes are placed as late as possible, the pop of
    p.i by its worker right before the first logged hand-off that needs it out of the queue (the queue is FIFO:
    p.j, j<i, must have been popped before p.i), the flag write where destruction completes.
    Returns None when the log cannot be completed that way (several workers and an item discarded at shutdown
    that precedes a handled one of the same producer)."""
    labels = []
    pushed = [0] * producers
    popped = [0] * producers
    wmap = {}
    who = {(e[1], e[2]): e[3] for e in evs if e[0] == "h"}

    def wid(w):
        return wmap.setdefault(w, len(wmap))

    def pop_upto(p, i):
        while popped[p] <= i:
            j = popped[p]
            if (p, j) not in who:
                return False
            while pushed[p] <= j:
                labels.append(["push", p])
                pushed[p] += 1
            w = wid(who[(p, j)])
            labels.extend([["wCheck", w], ["wPop", w]])
            popped[p] += 1
        return True

    for e in evs:
        if e[0] == "h":
            p, i, w = e[1], e[2], e[3]
            if not pop_upto(p, i):
                return None, 0
            labels.append(["wTest", wid(w)])
        elif e[0] == "e":
            labels.append(["wEnd", wid(e[3])])
        elif e[0] == "Y":
            for p in range(producers):
                while pushed[p] < per:
                    labels.append(["push", p])
                    pushed[p] += 1
            labels += [["dSet"], ["dWake"]] + [["wRun", w] for w in range(workers)] + [["dJoin"], ["dDestroyDerived"]]
    return labels, len(wmap)


def run_batches(oc, r, which, exe, scen, B, env, reqs, pend):
    """scenarios in batches so that a hang / crash is attributed to few scenarios"""
    for b in range(0, len(scen), B):
        batch = scen[b:b + B]
        lines = [" ".join(str(x) for x in s) for s in batch]
        try:
            p = subprocess.run([exe], input="\n".join(lines) + "\n", capture_output=True, text=True, timeout=(120 if which == "tsan" else 60), env=dict(os.environ, **env))
            rc, out, err = p.returncode, p.stdout.splitlines(), p.stderr
        except subprocess.TimeoutExpired as e:
            out = (e.stdout or b"").decode(errors="replace").splitlines() if isinstance(e.stdout, bytes) else (e.stdout or "").splitlines()
            hung = batch[len(out)] if len(out) < len(batch) else batch[-1]
            oc.violations.append(dict(what="scenario did not terminate within the deadline (deadlock / waiter not released) [%s build]" % which, scenario=list(hung), batch=lines, build=which))
            break
        if "ThreadSanitizer" in err:
            oc.violations.append(dict(what="ThreadSanitizer report: %s" % tsan_summary(err), batch=lines, stderr=err[-2500:]))
            break
        if rc != 0:
            oc.violations.append(dict(what="probe crashed (exit %d) after %d of %d scenarios: %s" % (rc, len(out), len(batch), err[-400:]), batch=lines))
            break
        for s, line in zip(batch, out):
            if s[0] == "P":
                _, consumers, seed = s
                fl = dict(kv.split("=") for kv in line.partition("|")[2].split())
                oc.case(("P", consumers, seed), nontrivial=consumers >= 2)
                oc.stat("burst_consumers_%d" % consumers)
                if int(fl["got"]) != consumers:
                    oc.violations.append(dict(what="%d consumers waited, %d items were pushed in one burst, only %s consumers were released with an item (lost wake-up)"
                                              % (consumers, consumers, fl["got"]), scenario=list(s), build=which))
                continue
            if s[0] == "R":
                _, rounds, seed = s
                fl = dict(kv.split("=") for kv in line.partition("|")[2].split())
                oc.case(("R", rounds, seed), nontrivial=True)
                oc.stat("one_shot_reply_queue_rounds", rounds)
                if int(fl["ok"]) != rounds:
                    oc.violations.append(dict(what="one-shot reply queues: %s of %d replies arrived" % (fl["ok"], rounds), scenario=list(s), build=which))
                continue
            if s[0] == "W":
                _, consumers, seed = s
                fl = dict(kv.split("=") for kv in line.partition("|")[2].split())
                oc.case(("W", consumers, seed), nontrivial=consumers >= 2)
                oc.stat("wake_then_push_consumers_%d" % consumers)
                if int(fl["released"]) != consumers:
                    oc.violations.append(dict(what="wake_up() followed at once by push(): %s of %d waiting consumers were released" % (fl["released"], consumers), scenario=list(s), build=which))
                continue
            if s[0] == "Q":
                _, consumers, items, seed = s
                fl = dict(kv.split("=") for kv in line.partition("|")[2].split())
                oc.case(("Q", consumers, items, seed), nontrivial=items >= 2)
                oc.stat("queue_consumers_%d" % consumers)
                if int(fl["released"]) != consumers:
                    oc.violations.append(dict(what="wake_up() released %s of %d waiting consumers" % (fl["released"], consumers), scenario=list(s)))
                if int(fl["got"]) != items:
                    oc.violations.append(dict(what="queue delivered %s of %d items" % (fl["got"], items), scenario=list(s)))
                continue
            _, producers, per, workers, seed, mode = s
            evs, fl = parse_log(line)
            if evs is None:
                raise common.Infra("unparsable probe output: " + line[:200])
            oc.case(("D", line), nontrivial=producers * per >= 2)
            oc.stat("build_" + which)
            oc.stat("workers_%d" % workers)
            oc.stat("producers_%d" % producers)
            oc.stat("mode_%d" % mode)
            hs = [(e[1], e[2]) for e in evs if e[0] == "h"]
            if mode == 1 and len(hs) < producers * per:
                oc.stat("destroyed_with_items_outstanding")
            if ("X",) in evs and any(e[0] == "e" for e in evs[evs.index(("X",)):]):
                oc.stat("destroyed_while_handler_running")
            vs = oracle(evs, fl, producers, per, workers, mode)
            info = dict(scenario=list(s), log=line)
            for v in vs:
                oc.violations.append(dict(what=v, **info))
            if not vs:
                labels, nw_seen = labels_of(evs, producers, per, workers)
                if labels is None:
                    oc.stat("replay_skipped_discarded_item_precedes_handled_one")
                    if workers == 1:
                        oc.corr_failures.append(dict(what="single worker handled an item after skipping an earlier one of the same producer: not a run of Model/Conc", **info))
                    continue
                reqs.append(dict(cmd="conc", totals=[per] * producers, nworkers=workers, labels=labels))
                pend.append((info, hs, producers * per, labels))
            if len(oc.samples) < 2:
                oc.samples.append(info)
        if oc.violations:
            break


def tsan_summary(err):
    m = re.findall(r"WARNING: ThreadSanitizer: ([^\n]*)\n(?:.*\n){0,12}", err)
    return m[:3]


def run(tier):
    t0 = time.time()
    thorough = tier == "thorough"
    proof = proof_status(PROP, thorough)
    oc = Outcome(PROP)
    oc.rule = ("real headers, ThreadSanitizer build: D scenarios = 1-4 producers x 0-12 items, 1-3 workers, destroy after idle (mode 0), at a jittered moment (mode 1), or after idle with an empty pointer dispatched in between by every producer (mode 2), seeded jitter in producers and handler; "
               "Q scenarios = 1-4 consumers blocked in wait_and_pop then wake_up(); R scenarios = one-shot reply queues (pushed into by another thread, popped and destroyed at once by their owner; 300 rounds each); W scenarios = 2-6 consumers blocked, wake_up() with a push() landing right behind it: all released; oracle per execution: no item twice, per-producer order and no overlap (1 worker), everything handled when alive and idle-waited, "
               "destruction completes before the deadline, no handler activity afterwards, no ThreadSanitizer report; each log replayed as a label sequence on Model/Conc (same hand-off order, all workers exited, nothing lost); "
               "non-trivial = at least 2 items")
    oc.assumptions = TRUSTED
    r = rng(PROP)
    facts = translate.cpp_facts() if hasattr(translate, "cpp_facts") else None
    tpl = open(os.path.join(common.REPO, "kojen", "statemachine_templates_embedded_arm", "TEMPLATEStateMachineImpl_SML.cpp")).read()
    impl_calls_stop = re.search(r"~C<<<STATEMACHINENAME>>>StateMachineImpl\(\)\s*\{[^}]*\bstop\(\);", tpl, re.S) is not None
    has_stop = "void stop()" in open(os.path.join(cppprobe.CPP, "threaded_dispatcher.h")).read()
    reqs, pend = [], []
    with scratch() as base:
        exe = os.path.join(base, "stress")
        flags = ["-O1", "-g", "-fsanitize=thread", "-DTHREADED"]
        if impl_calls_stop and has_stop:
            flags.append("-DPROBE_CALLS_STOP")
        ok, msg = cppprobe.build(exe, [os.path.join(cppprobe.PROBES, "dispatch_stress.cpp")], flags)
        if not ok:
            raise common.Infra("dispatch_stress.cpp does not build: " + msg)
        exe2 = os.path.join(base, "stress_widen")
        flags2 = ["-O1", "-g", "-DTHREADED", "-DPROBE_WIDEN_CONDWAIT", "-rdynamic"] + (["-DPROBE_CALLS_STOP"] if impl_calls_stop and has_stop else [])
        ok, msg = cppprobe.build(exe2, [os.path.join(cppprobe.PROBES, "dispatch_stress.cpp"), "-ldl"], flags2)
        if not ok:
            raise common.Infra("dispatch_stress.cpp (widened cond-wait build) does not build: " + msg)
        scen = []
        n = 700 if thorough else 120
        for k in range(n):
            producers = r.choice([1, 1, 2, 3, 4])
            per = r.choice([0, 1, 2, 3, 5, 12])
            workers = r.choice([1, 1, 1, 2, 3])
            mode = r.choice([0, 1, 1, 2])
            scen.append(("D", producers, per, workers, r.randrange(1 << 30), mode))
        for k in range(n // 4):
            scen.append(("Q", r.choice([1, 2, 3, 4]), r.choice([0, 1, 3, 9]), r.randrange(1 << 30)))
        for k in range(n // 10):
            scen.append(("P", r.choice([2, 3, 4]), r.randrange(1 << 30)))
        for k in range(n // 8):
            scen.append(("W", r.choice([2, 3, 4, 6]), r.randrange(1 << 30)))
        for k in range(max(2, n // 60)):
            scen.append(("R", 300, r.randrange(1 << 30)))
        # second build: the window between a wait predicate and the actual blocking is widened (no sanitizer)
        scen2 = []
        for k in range(n // 3):
            if r.random() < 0.5:
                scen2.append(("Q", r.choice([1, 2, 3, 4]), r.choice([0, 1, 3]), r.randrange(1 << 30)) if r.random() < 0.5 else
                             (("P", r.choice([2, 3]), r.randrange(1 << 30)) if r.random() < 0.5 else ("W", r.choice([2, 3, 4]), r.randrange(1 << 30))))
            else:
                scen2.append(("D", r.choice([1, 2]), r.choice([0, 1, 2, 3]), r.choice([1, 1, 2]), r.randrange(1 << 30), r.choice([0, 1])))
        env = {"TSAN_OPTIONS": "halt_on_error=0:exitcode=66:second_deadlock_stack=1"}
        for which, binary, todo, B in (("tsan", exe, scen, 10), ("widened-condwait", exe2, scen2, 5)):
            run_batches(oc, r, which, binary, todo, B, env, reqs, pend)
            if oc.violations:
                break
            if oc.violations:
                break
    for (info, hs, total, labels), ans in zip(pend, lean_batch(reqs)):
        oc.traces_validated += 1
        if "error" in ans:
            oc.corr_failures.append(dict(what="Lean driver error: " + ans["error"], **info))
        elif ans["failed_at"] is not None:
            oc.corr_failures.append(dict(what="execution is not a run of Model/Conc: label %d (%s) not enabled" % (ans["failed_at"], labels[ans["failed_at"]]), **info))
        elif [tuple(x) for x in ans["begun"]] != hs:
            oc.corr_failures.append(dict(what="hand-off order differs: model %s" % ans["begun"], **info))
        elif not ans["all_exited"] or ans["derived_alive"] or ans["destroyer"] != "destroyed":
            oc.corr_failures.append(dict(what="model does not complete destruction: %s" % ans, **info))
        elif len(ans["begun"]) + len(ans["dropped"]) + len(ans["queue"]) != total:
            oc.corr_failures.append(dict(what="items lost or duplicated in the model run: %s" % ans, **info))
    return finish(PROP, tier, proof, oc, t0, trusted=TRUSTED)


def replay(path):
    return c01.replay(path)
