"""C12 — protocol structs are padding-free; factories yield declared header and defaults."""
import concurrent.futures
import json
import os
import shutil
import time

import common
import cppprobe
import genlib
import protoprobe
from checks import c01
from common import Outcome, finish, lean_batch, proof_status, rng, scratch

PROP = "C12"
TRUSTED = [
    "Lean 4.33 kernel; axioms propext, Classical.choice, Quot.sound only",
    "Model/Wire (packed layout = sum of sizes, aggregate initialisation, factory header) is hand-written; tied by compiled probes (g++ and clang++) printing sizeof/offsetof/factory bytes of the *generated* headers",
    "C++ compiler / ABI (packed attribute, little endian, IEEE floats, type sizes) trusted; 'compiles for every interface' is decided per sampled interface by the compilers, not proved",
    "domain: no empty structs, ids and preamble < 2^16, sizeof < 2^32, primitive types uint8..int64/float/double/bool",
]


def parse_static(lines):
    sizes, offs, fac, facargs = {}, {}, {}, {}
    for l in lines:
        t = l.split()
        if not t:
            continue
        if t[0] == "sizeof":
            sizes[t[1]] = int(t[2])
        elif t[0] == "offsetof":
            offs[(t[1], t[2])] = int(t[3])
        elif t[0] == "factory":
            fac[int(t[1])] = t[2]
        elif t[0] == "factoryargs":
            facargs[int(t[1])] = t[2]
    return sizes, offs, fac, facargs


def one_interface(args):
    model, seed, both = args
    import random
    r = random.Random(seed)
    res = dict(model=model, violations=[], corr=[], reqs=[], pend=[], stats={})
    runner = genlib.Runner()
    with scratch() as base:
        out = os.path.join(base, "out")
        try:
            runner.generate(model, out)
        except Exception as e:
            res["violations"].append("Generate.Protocol raised %s: %s" % (type(e).__name__, e))
            return res
        arg_cases, arg_imgs = [], []
        for i, (mn, mid, mem) in enumerate(model["msgs"]):
            if mem:
                e, im = protoprobe.arg_values(r, model, mem)
                arg_cases.append((i, e))
                arg_imgs.append((i, im))
        ok, log, exe = protoprobe.build(model, out, os.path.join(base, "w"), arg_cases)
        if not ok:
            res["violations"].append("generated C++ does not compile (g++): " + log[-700:])
            return res
        if both:
            ok2, log2, _ = protoprobe.build(model, out, os.path.join(base, "w2"), arg_cases, compiler="clang++")
            if not ok2:
                res["violations"].append("generated C++ does not compile (clang++): " + log2[-700:])
                return res
            res["stats"]["compiled_clang"] = 1
        rc, lines, err = cppprobe.run_lines(exe, [])
        sizes, offs, fac, facargs = parse_static(lines)
        # independent packing (the property's oracle)
        if sizes.get("sMsgHeader") != 8:
            res["violations"].append("sizeof(sMsgHeader) = %s" % sizes.get("sMsgHeader"))
        for sn, mem in model["structs"]:
            if sizes.get(sn) != protoprobe.spec_size(model, mem):
                res["violations"].append("sizeof(%s) = %s, sum of member sizes = %d" % (sn, sizes.get(sn), protoprobe.spec_size(model, mem)))
            for n, o in protoprobe.spec_offsets(model, mem):
                if offs.get((sn, n)) != o:
                    res["violations"].append("offsetof(%s,%s) = %s, expected %d" % (sn, n, offs.get((sn, n)), o))
            res["reqs"].append(dict(cmd="layout", base=0, fields=protoprobe.fld_json(model, mem)))
            res["pend"].append(("layout", sn, (sizes.get(sn), [offs.get((sn, n)) for n, _, _ in mem])))
        for i, (mn, mid, mem) in enumerate(model["msgs"]):
            size = 8 + protoprobe.spec_size(model, mem)
            if sizes.get(mn) != size:
                res["violations"].append("sizeof(%s) = %s, expected %d" % (mn, sizes.get(mn), size))
            for n, o in protoprobe.spec_offsets(model, mem, 8):
                if offs.get((mn, n)) != o:
                    res["violations"].append("offsetof(%s,%s) = %s, expected %d" % (mn, n, offs.get((mn, n)), o))
            exp = bytes(protoprobe.spec_header(model, mid, mem) + protoprobe.spec_defaults(model, mem)).hex()
            if fac.get(i) != exp:
                res["violations"].append("Create%s() = %s, declared header+defaults = %s" % (mn, fac.get(i), exp))
        for k, ((i, exprs), (_, imgs)) in enumerate(zip(arg_cases, arg_imgs)):
            mn, mid, mem = model["msgs"][i]
            exp = bytes(protoprobe.spec_header(model, mid, mem) + [b for im in imgs for b in im]).hex()
            if facargs.get(k) != exp:
                res["violations"].append("Create%s(%s) = %s, arguments by name give %s" % (mn, ", ".join(exprs), facargs.get(k), exp))
            res["reqs"].append(dict(cmd="factory", preamble=model["preamble"], typeId=mid, fields=protoprobe.fld_json(model, mem),
                                    args=[bytes(im).hex() for im in imgs]))
            res["pend"].append(("factory", mn, (fac.get(i), facargs.get(k), sizes.get(mn))))
        for i, (mn, mid, mem) in enumerate(model["msgs"]):
            if not mem:
                res["reqs"].append(dict(cmd="factory", preamble=model["preamble"], typeId=mid, fields=[], args=[]))
                res["pend"].append(("factory", mn, (fac.get(i), fac.get(i), sizes.get(mn))))
    depth = 0
    sm = protoprobe.struct_map(model)

    def dep(mem):
        return 1 + max([dep(sm[t[7:]]) for _, t, _ in mem if t.startswith("struct:")] or [0])
    depth = max([dep(mem) for _, _, mem in model["msgs"]] or [1])
    res["stats"]["nesting_depth_%d" % depth] = 1
    return res


def run(tier):
    t0 = time.time()
    thorough = tier == "thorough"
    proof = proof_status(PROP, thorough)
    oc = Outcome(PROP)
    oc.rule = ("random interfaces (0-5 structs nested to depth <= 4, 1-6 messages with 0-4 fields, all 11 primitive types, defaults present/absent at every level incl. extreme values, "
               "enums and defines, 7+ preambles, arbitrary distinct ids) -> real Generate.Protocol -> probe compiled with g++ (and clang++) printing sizeof/offsetof/factory bytes "
               "with and without arguments; oracle: independent Python packing; the same numbers from Model/Wire; non-trivial = interface with at least one struct-typed field")
    oc.assumptions = TRUSTED
    r = rng(PROP)
    n = 80 if thorough else 24
    jobs = [((protoprobe.rand_grown_iface if i % 4 == 1 else protoprobe.rand_iface)(r, thorough), r.randrange(1 << 30), thorough or i % 3 == 0) for i in range(n)]
    with concurrent.futures.ProcessPoolExecutor(max_workers=min(14, n)) as ex:
        results = list(ex.map(one_interface, jobs))
    reqs, pend = [], []
    for res in results:
        model = res["model"]
        for v in res["violations"]:
            oc.violations.append(dict(what=v, model=model))
        for k, v in res["stats"].items():
            oc.stat(k, v)
        reqs += res["reqs"]
        pend += [(model, p) for p in res["pend"]]
        nt = any(t.startswith("struct:") for _, _, mem in model["msgs"] for _, t, _ in mem)
        oc.case(("iface", json.dumps(model, sort_keys=True)), nontrivial=nt)
        oc.stat("messages", len(model["msgs"]))
        oc.stat("structs", len(model["structs"]))
        if len(oc.samples) < 2:
            oc.samples.append(model)
    if not oc.violations:
        for (model, (kind, name, impl)), ans in zip(pend, lean_batch(reqs)):
            oc.traces_validated += 1
            if "error" in ans:
                oc.corr_failures.append(dict(what="Lean driver error: " + ans["error"], model=model))
            elif kind == "layout":
                if (ans["size"], ans["offsets"]) != (impl[0], impl[1]):
                    oc.corr_failures.append(dict(what="Model.Wire layout of %s differs from the compiler: model %s / impl %s" % (name, (ans["size"], ans["offsets"]), impl), model=model))
            else:
                if (ans["default"], ans["with"], ans["size"]) != impl:
                    oc.corr_failures.append(dict(what="Model.Wire factory bytes of %s differ: model %s / impl %s" % (name, (ans["default"], ans["with"], ans["size"]), impl), model=model))
    return finish(PROP, tier, proof, oc, t0, trusted=TRUSTED)


def replay(path):
    return c01.replay(path)
