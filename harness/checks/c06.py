"""C06 — generation is deterministic: same inputs give byte-identical trees everywhere."""
import json
import os
import shutil
import subprocess
import sys
import time

import common
import e2e
import genlib
from checks import c01
from common import Outcome, finish, lean_batch, proof_status, rng, scratch

PROP = "C06"
TRUSTED = c01.TRUSTED + ["translator fact setSitesSorted (ast scan of LanguageCPP/LanguageCsharp for loops over the type-name sets)",
                         "harness/detworker.py patches time.time and os.walk inside the worker process only"]
WORKER = os.path.join(os.path.dirname(os.path.dirname(os.path.abspath(__file__))), "detworker.py")


def run_worker(cfg, hashseed, tz):
    env = dict(os.environ)
    env["PYTHONHASHSEED"] = str(hashseed)
    env["TZ"] = tz
    p = subprocess.run([sys.executable, WORKER], input=json.dumps(cfg), text=True, capture_output=True, env=env, timeout=300)
    ret = None
    for l in p.stdout.splitlines():
        if l.startswith("RET "):
            ret = json.loads(l[4:])
    return p.returncode, ret, p.stderr[-500:]


def norm_ret(ret, real):
    return sorted(os.path.normpath(os.path.join(real, x)).replace(real, "<out>") for x in (ret or []))


def matrix_case(runner, r, oc, nconf, big=False, support_copy=False):
    model = genlib.rand_model(r, ("sm", "sm", "proto", "uml", "uml"), big) if not support_copy else (
        genlib.rand_sm_model(r, "cpp", big) if r.random() < 0.6 else genlib.rand_proto_model(r, big))
    with scratch() as base:
        # a directory with user code, then a model change that loses some of it (so LostCode is involved)
        seed_dir = os.path.join(base, "seed", "out")
        runner.generate(model, seed_dir)
        for rel, data in sorted(e2e.snapshot(seed_dir).items()):
            dups = genlib.duplicate_tags(data.decode("utf-8", "surrogateescape"))
            genlib.edit_file(r, os.path.join(seed_dir, rel), fraction=0.7, skip=dups)
        # kojen's default: the support sources (allplatforms/...) are copied next to the output.  A stale copy from an earlier
        # release lies there already; its age - like everything else about the pre-existing tree but the user code - must not matter
        copy_other = model["kind"] in ("sm", "proto") and (support_copy or r.random() < 0.8)
        stale = []
        if copy_other:
            with scratch() as probe:
                runner.generate(dict(model, copy_other=True), os.path.join(probe, "out"))
                probe_snap = e2e.snapshot(os.path.join(probe, "out"))
                support = sorted(set(probe_snap) - set(e2e.snapshot(seed_dir)))
            for rel in r.sample(support, min(len(support), r.randint(1, 3))):
                p_ = os.path.join(seed_dir, rel)
                os.makedirs(os.path.dirname(p_), exist_ok=True)
                if r.random() < 0.5 and len(probe_snap[rel]) > 8:
                    # ... or the shipped file edited in place, its length unchanged (one character of a comment, a digit)
                    data = bytearray(probe_snap[rel])
                    k_ = r.randrange(len(data))
                    data[k_] = ord("#") if data[k_] != ord("#") else ord("%")
                    with open(p_, "wb") as f:
                        f.write(bytes(data))
                    oc.stat("stale_support_files_of_unchanged_length")
                else:
                    with open(p_, "w") as f:
                        f.write("// support file of an earlier release\n")
                stale.append(rel)
            if stale:
                oc.stat("cases_with_stale_support_files")
        model2 = genlib.mutate_model(r, model)[0] if r.random() < 0.6 else model
        if model["kind"] == "sm" and r.random() < 0.7:
            # a change that certainly orphans user code: every state / action / guard renamed (the LostCode files then
            # name the files the code came from - by their absolute path, whatever the spelling of the output directory)
            from checks import c03
            model2 = c03.rename_all(r, model, r.choice(["state", "action", "guard"]))[0]
        results = []
        for i in range(nconf):
            work = os.path.join(base, "w")            # the same place every time: only the configuration varies
            real = os.path.join(work, "out")
            shutil.rmtree(work, ignore_errors=True)
            shutil.copytree(os.path.dirname(seed_dir), work)
            k = i % 6
            if k == 0:
                outdir, cwd = real, "/"
            elif k == 1:
                outdir, cwd = "out", work
            elif k == 2:
                outdir, cwd = "./out/", work
            elif k == 3:
                os.makedirs(os.path.join(work, "sub"), exist_ok=True)
                outdir, cwd = "../out", os.path.join(work, "sub")
            elif k == 4:
                outdir, cwd = os.path.join(work, "x", "..", "out"), base
                os.makedirs(os.path.join(work, "x"), exist_ok=True)
            else:
                outdir, cwd = "out//", work
            # the pre-existing tree checked out with the other end-of-line convention: the regenerated tree is the same
            # (the generator reads with universal newlines and writes '\n'; see C01's finding crlf-line-endings-normalised)
            if i % 3 == 2 and not any(b"\r" in d for d in e2e.snapshot(work).values()):
                for root, _, fs in os.walk(work):
                    for f_ in fs:
                        p_ = os.path.join(root, f_)
                        with open(p_, "rb") as fh:
                            data = fh.read()
                        with open(p_, "wb") as fh:
                            fh.write(data.replace(b"\n", b"\r\n"))
                oc.stat("conf_tree_saved_with_crlf")
                crlf_before = e2e.snapshot(real)
            else:
                crlf_before = None
            age = [None, "old", "future"][(i + 1) % 3] if stale else r.choice([None, "old", "future"])
            if age:
                stamp = 978307200 if age == "old" else time.time() + 3600
                for root, _, fs in os.walk(work):
                    for f_ in fs:
                        os.utime(os.path.join(root, f_), (stamp, stamp))
                oc.stat("conf_tree_mtime_" + age)
            cfg = dict(model=dict(model2, copy_other=copy_other), outdir=outdir, cwd=cwd, warmup=(i % 4 == 3), faketime=r.choice([None, 0, 86400 * 365.25 * 30 + 7, 2 ** 31 - 5]),
                       walkseed=r.choice([None, 1, 2, 3]))
            hs = r.choice([0, 1, 2, 3, 4242, 31337])
            tz = r.choice(["UTC", "Asia/Tokyo", "America/New_York"])
            rc, ret, err = run_worker(cfg, hs, tz)
            if rc != 0:
                oc.corr_failures.append(dict(what="worker failed: " + err, cfg=cfg))
                return
            tree = e2e.snapshot(real)
            if crlf_before is not None:
                # files the run does not report (orphans of an earlier model, old LostCode files) are input, not output:
                # they keep the line endings this configuration gave them
                reported = {os.path.relpath(os.path.normpath(os.path.join(cwd, outdir, x)), real) for x in (ret or [])}
                for rel, data in list(tree.items()):
                    if rel not in reported and crlf_before.get(rel) == data:
                        tree[rel] = data.replace(b"\r\n", b"\n")
            extra = [p for p in e2e.snapshot(work) if not p.startswith("out" + os.sep)]
            results.append((dict(cfg=cfg, hashseed=hs, tz=tz), tree, norm_ret(ret, real), extra))
            oc.stat("conf_outdir_kind_%d" % k)
            oc.stat("conf_hashseed_%s" % hs)
        ref = results[0]
        for cur in results[1:]:
            if cur[1] != ref[1]:
                d = e2e.tree_diff(ref[1], cur[1])
                oc.violations.append(dict(what="trees differ between two process configurations: %s" % d[:5], model=model2, a=ref[0], b=cur[0],
                                          file_a=ref[1].get(d[0][1:]), file_b=cur[1].get(d[0][1:])))
                return
            if cur[2] != ref[2]:
                oc.violations.append(dict(what="set of reported files differs: %s / %s" % (ref[2], cur[2]), model=model2, a=ref[0], b=cur[0]))
                return
            if cur[3] or ref[3]:
                oc.violations.append(dict(what="files written outside the output directory: %s" % (cur[3] or ref[3])[:4], model=model2, a=ref[0], b=cur[0]))
                return
        oc.case(("matrix", json.dumps(model2, sort_keys=True, default=str)), nontrivial=True)
        oc.stat("backend_" + model2["backend"])
        if any(k.endswith(".LostCode.txt") for k in ref[1]):
            oc.stat("cases_with_lostcode")
        if len(oc.samples) < 2:
            oc.samples.append(dict(model=model2, configurations=[x[0] for x in results][:4], files=sorted(ref[1])[:8]))


def path_cases(r, oc, reqs, pend, n):
    """Basic/Path vs os.path on generated paths (the model's path algebra is validated, not proved)"""
    parts = ["a", "b", "out", "..", ".", "", "x.y", "rel", "π"]
    for i in range(n):
        a = ("/" if r.random() < 0.4 else "") + "/".join(r.choice(parts) for _ in range(r.randint(0, 5))) + ("/" if r.random() < 0.2 else "")
        b = "/" + "/".join(r.choice(parts[:4]) for _ in range(r.randint(1, 3)))
        reqs.append(dict(cmd="path", a=a, b=b))
        cwd_join = a if os.path.isabs(a) else os.path.join(b, a)
        pend.append((a, b, dict(join=os.path.join(a, b), normpath=os.path.normpath(a), abspath=os.path.normpath(cwd_join),
                                dirname=os.path.dirname(a), basename=os.path.basename(a), isabs=os.path.isabs(a))))
        oc.stat("path_cases")


def search():
    r = rng(PROP, "search")
    runner = genlib.Runner()
    oc = Outcome(PROP)
    for i in range(25):
        matrix_case(runner, r, oc, 6, support_copy=i % 2 == 1)
        if oc.violations:
            return oc.violations[0]
    return None


def run(tier):
    t0 = time.time()
    thorough = tier == "thorough"
    proof = proof_status(PROP, thorough)
    oc = Outcome(PROP)
    oc.rule = ("matrix: a directory with user code is regenerated (60% with a mutated model, so LostCode occurs) in fresh interpreters under "
               "PYTHONHASHSEED in {0,1,2,3,4242,31337} x TZ x fake clock x shuffled os.walk listings x 6 spellings of the output directory/cwd x age of the pre-existing tree (2001 / as copied / one hour ahead) x its end-of-line convention (LF / CRLF) x history of the process (fresh / the same generation already ran once); "
               "C++ and protocol cases mostly with kojen's default copy of the support sources on, stale support files of an earlier release planted in the pre-existing tree; "
               "oracle: all trees byte-identical, same set of reported files, nothing outside the output directory; "
               "path: Basic/Path functions vs os.path on generated paths; non-trivial = every matrix case (>= 4 configurations compared)")
    oc.assumptions = TRUSTED
    r = rng(PROP)
    runner = genlib.Runner()
    for i in range(40 if thorough else 7):
        matrix_case(runner, r, oc, 12 if thorough else 6, big=thorough, support_copy=i % 4 == 1)
        if oc.violations:
            break
    reqs, pend = [], []
    path_cases(r, oc, reqs, pend, 5000 if thorough else 600)
    for (a, b, exp), ans in zip(pend, lean_batch(reqs)):
        got = {k: ans.get(k) for k in exp}
        if got != exp:
            oc.corr_failures.append(dict(what="Basic/Path differs from os.path on a=%r b=%r: %s" % (a, b, {k: (got[k], exp[k]) for k in exp if got[k] != exp[k]})))
    return finish(PROP, tier, proof, oc, t0, trusted=TRUSTED, search=search)


def replay(path):
    return c01.replay(path)
