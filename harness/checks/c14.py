"""C14 — connection layer reassembles messages exactly under arbitrary fragmentation."""
import itertools
import json
import os
import time

import common
import cppprobe
from checks import c01
from common import Outcome, finish, lean_batch, proof_status, rng, scratch

PROP = "C14"
TRUSTED = [
    "Lean 4.33 kernel; axioms propext, Classical.choice, Quot.sound only",
    "Model/Conn.onData is hand-written after IConnection.cpp (non-ARM build); tied by differential runs of the compiled IConnection.cpp (g++ ASan+UBSan build and a -D_GLIBCXX_ASSERTIONS build) against the model on the same chunk lists",
    "bytes < 256, message length < 2^32 (uint32 wrap-around outside the domain); the ARM fixed-buffer variant is not modelled",
    "memory safety: index bounds are discharged in the model's total list operations and supported by ASan/UBSan/_GLIBCXX_ASSERTIONS runs; the C++ abstract machine is not formalised",
]
PREAMBLES = [0xDEAD, 0xAAAA, 0x0000, 0x0100, 0xBEEF, 0x00FF, 0xFFFF]


def hexs(b):
    return bytes(b).hex() if b else "-"


def rand_msg(r, pre, maxpay):
    p0, p1 = pre & 0xFF, pre >> 8
    n = r.choice([0, 0, 1, 2, 3, 5, 8, maxpay])
    bias = [p0, p1, p0, p1, 0, 8, 0xFF]
    payload = [r.choice(bias) if r.random() < 0.6 else r.randrange(256) for _ in range(n)]
    tid = r.choice([p0 | (p1 << 8), r.randrange(65536), p0 * 257])
    return [p0, p1, tid & 0xFF, tid >> 8, n & 0xFF, (n >> 8) & 0xFF, 0, 0] + payload


def rand_filler(r, pre, maxlen):
    p0 = pre & 0xFF
    n = r.choice([0, 0, 1, 2, maxlen])
    alphabet = [x for x in [pre >> 8, 0, 1, 0xFF, 8, (p0 + 1) & 0xFF] if x != p0] or [(p0 + 1) & 0xFF]
    return [r.choice(alphabet) if r.random() < 0.7 else r.choice([x for x in range(256) if x != p0]) for _ in range(n)]


def rand_stream(r, pre, nmsg, maxpay=12, maxfill=4):
    segs = []
    for i in range(nmsg):
        f = rand_filler(r, pre, maxfill)
        if f:
            segs.append(("f", f))
        segs.append(("m", rand_msg(r, pre, maxpay)))
    f = rand_filler(r, pre, maxfill)
    if f:
        segs.append(("f", f))
    if r.random() < 0.25 and segs and segs[-1][0] == "m":      # stream that ends mid-message
        m = segs[-1][1]
        segs[-1] = ("p", m[:r.randrange(1, len(m))])
    return segs


def flat(segs):
    return [b for _, s in segs for b in s]


def chunkings_all(stream):
    n = len(stream)
    for mask in range(1 << (n - 1)):
        cuts = [i + 1 for i in range(n - 1) if mask >> i & 1]
        yield [stream[a:b] for a, b in zip([0] + cuts, cuts + [n])]


def rand_chunking(r, stream):
    n = len(stream)
    k = r.choice([0, 1, 2, 3, n // 3, n - 1])
    cuts = sorted(set(r.randrange(1, n) for _ in range(min(k, max(n - 1, 0))))) if n > 1 else []
    return [stream[a:b] for a, b in zip([0] + cuts, cuts + [n])]


def expected(segs):
    msgs = [hexs(s) for k, s in segs if k == "m"]
    tail = segs[-1][1] if segs and segs[-1][0] == "p" else []
    req = 0
    if len(tail) >= 8:
        ms = 8 + tail[4] + 256 * tail[5] + 65536 * tail[6] + 16777216 * tail[7]
        req = ms - len(tail)
    return msgs, (bytes(tail).hex(), req)


def run(tier):
    t0 = time.time()
    thorough = tier == "thorough"
    proof = proof_status(PROP, thorough)
    oc = Outcome(PROP)
    oc.rule = ("well-formed streams (fillers free of the preamble's first byte, messages with payload 0..n biased to the two preamble bytes, 7 preambles incl. equal bytes, "
               "optionally ending mid-message): every subset of cut positions for streams up to %d bytes, random chunkings for long streams; plus a malformed stream (model validation only) and raw-receiver runs; "
               "each case through the ASan+UBSan build, the _GLIBCXX_ASSERTIONS build and the Lean model; oracle: deliveries == messages of the stream, final state canonical; "
               "non-trivial = stream with at least one message and at least one cut") % (15 if thorough else 12)
    oc.assumptions = TRUSTED
    r = rng(PROP)
    cases = []   # (kind, pre, chunks, segs or None)
    limit = 15 if thorough else 12
    for i in range(40 if thorough else 14):
        pre = r.choice(PREAMBLES)
        segs = rand_stream(r, pre, r.choice([1, 1, 2]), maxpay=2, maxfill=2)
        s = flat(segs)
        if not (1 <= len(s) <= limit):
            continue
        for ch in chunkings_all(s):
            cases.append(("exh", pre, ch, segs))
        oc.stat("exhaustive_streams")
        oc.stat("exhaustive_stream_len_%d" % len(s))
    for i in range(20000 if thorough else 2500):
        pre = r.choice(PREAMBLES)
        segs = rand_stream(r, pre, r.choice([1, 2, 3, 6]), maxpay=r.choice([12, 40, 300]))
        s = flat(segs)
        if s:
            cases.append(("rnd", pre, rand_chunking(r, s), segs))
    # messages larger than 64 KiB (the size field has four bytes; counters of the fragment buffer must not be 16 bit wide):
    # chunk boundaries that leave exactly 65536 * k bytes buffered, power-of-two reads, a header split in the middle
    combos = [(70000, "4096"), (70000, "split-header"), (131064, "65536"), (65536, "16384"), (65529, "8192"), (70000, "65535"), (140000, "4096"), (65528, "1000")]
    for i in range(16 if thorough else 5):
        pre = r.choice(PREAMBLES)
        p0, p1 = pre & 0xFF, pre >> 8
        n, how = combos[i] if i < len(combos) else (r.choice([65528, 65536, 70000, 131064, 65529]), r.choice(["4096", "8192", "16384", "65536", "split-header", "65535", "1000"]))
        payload = [((j * 7 + i) % 251) for j in range(n)]        # no accidental preamble pairs needed; 251 is prime
        big = [p0, p1, 0x34, 0x12, n & 0xFF, (n >> 8) & 0xFF, (n >> 16) & 0xFF, 0] + payload
        tail_segs = rand_stream(r, pre, 2, maxpay=8, maxfill=0)
        segs = [("m", big)] + tail_segs
        stream = flat(segs)
        if how == "split-header":
            ch = [stream[:5], stream[5:65536], stream[65536:]]
        else:
            step = int(how)
            ch = [stream[k:k + step] for k in range(0, len(stream), step)]
        cases.append(("big", pre, ch, segs))
        oc.stat("messages_larger_than_64KiB")
    # more than 64 KiB of line noise between two messages, in one chunk (offsets inside a chunk are not 16 bit wide either)
    for i in range(8 if thorough else 3):
        pre = r.choice(PREAMBLES)
        p0 = pre & 0xFF
        nfill = [70000, 65536, 200000, 65535, 131072][i % 5]
        noise = [x for x in ((j * 11 + i) % 253 for j in range(nfill + 300)) if x != p0][:nfill]
        first = rand_stream(r, pre, 1, maxpay=8, maxfill=0)
        last = rand_stream(r, pre, 2, maxpay=8, maxfill=0)
        if first and first[-1][0] == "p":
            first = [("m", rand_msg(r, pre, 8))]
        segs = first + [("f", noise)] + last
        stream = flat(segs)
        ch = [stream] if i % 2 == 0 else [stream[:len(flat(first)) + 3], stream[len(flat(first)) + 3:]]
        cases.append(("big", pre, ch, segs))
        oc.stat("noise_of_more_than_64KiB_in_one_chunk")
    for i in range(6000 if thorough else 800):
        pre = r.choice(PREAMBLES)
        p0, p1 = pre & 0xFF, pre >> 8
        s = [r.choice([p0, p1, 0, 1, 8, 0xFF, r.randrange(256)]) for _ in range(r.randint(1, 40))]
        # stay inside the model's domain (message length < 2^32, no uint32 wrap-around): whatever could be read as a
        # header - the two preamble bytes at ANY offset - gets the two high size bytes zeroed; zeroing can create new
        # candidates when a preamble byte is 0, hence the fixpoint
        changed = True
        while changed:
            changed = False
            for j in range(len(s) - 1):
                if s[j] == p0 and s[j + 1] == p1:
                    for k in (j + 6, j + 7):
                        if k < len(s) and s[k] != 0:
                            s[k] = 0
                            changed = True
        cases.append(("bad", pre, rand_chunking(r, s), None))
    for i in range(300 if thorough else 60):
        pre = r.choice(PREAMBLES)
        s = flat(rand_stream(r, pre, 2))
        if s:
            ch = rand_chunking(r, s)
            if r.random() < 0.3:
                ch.insert(r.randrange(len(ch) + 1), [])
            cases.append(("raw", pre, ch, None))
    lines = [("R" if k == "raw" else "M") + " %04x " % pre + " ".join(hexs(c) for c in ch) for k, pre, ch, _ in cases]
    with scratch() as d:
        src = [os.path.join(cppprobe.PROBES, "conn_driver.cpp"), os.path.join(cppprobe.CPP, "IConnection.cpp")]
        ok1, log1 = cppprobe.build(os.path.join(d, "asan"), src, ["-O1", "-g", "-fsanitize=address,undefined", "-fno-sanitize-recover=undefined"])
        ok2, log2 = cppprobe.build(os.path.join(d, "assert"), src, ["-O1", "-D_GLIBCXX_ASSERTIONS"])
        if not (ok1 and ok2):
            oc.corr_failures.append(dict(what="probe does not compile against the current IConnection sources: " + (log1 if not ok1 else log2)[-600:]))
            return finish(PROP, tier, proof, oc, t0, trusted=TRUSTED)
        rc1, out1, err1 = cppprobe.run_lines(os.path.join(d, "asan"), lines)
        rc2, out2, err2 = cppprobe.run_lines(os.path.join(d, "assert"), lines)
    for name, rc, out, err in (("ASan+UBSan", rc1, out1, err1), ("_GLIBCXX_ASSERTIONS", rc2, out2, err2)):
        if rc != 0 or len(out) != len(lines):
            k = len(out)
            kind, pre, ch, segs = cases[min(k, len(cases) - 1)]
            v = dict(what="memory error / abort in the %s build (exit %s) on input line %d: %s" % (name, rc, k, err[-400:]), input=lines[min(k, len(lines) - 1)], kind=kind)
            if kind in ("exh", "rnd", "raw", "big"):
                oc.violations.append(v)
            else:
                oc.corr_failures.append(v)   # malformed stream: outside the property's domain, still reported
            return finish(PROP, tier, proof, oc, t0, trusted=TRUSTED)
    if out1 != out2:
        i = next(i for i in range(len(out1)) if out1[i] != out2[i])
        oc.corr_failures.append(dict(what="the two builds disagree on line %d" % i, input=lines[i], asan=out1[i], asserts=out2[i]))
    reqs = [dict(cmd="conn", p0=pre & 0xFF, p1=pre >> 8, raw=(k == "raw"), chunks=["" if not c else bytes(c).hex() for c in ch]) for k, pre, ch, _ in cases]
    answers = lean_batch(reqs)
    for (kind, pre, ch, segs), line, got, ans in zip(cases, lines, out1, answers):
        toks = got.split()
        msgs = [t[2:] for t in toks if t.startswith("m:")]
        raws = [t[2:] for t in toks if t.startswith("r:")]
        st = toks[-1][2:].split(":")
        state = (st[0], int(st[1]))
        oc.stat("cases_" + kind)
        oc.stat("chunks_%s" % ("1" if len(ch) == 1 else "2-3" if len(ch) <= 3 else "4+"))
        if kind == "raw":
            exp = [bytes(c).hex() for c in ch if c]
            if raws != exp or msgs:
                oc.violations.append(dict(what="raw-data receiver did not see every chunk unmodified", input=line, got=got))
                break
            if ans.get("raw") != raws:
                oc.corr_failures.append(dict(what="model feedRaw differs", input=line, model=ans, impl=got))
            oc.case(("raw", line), nontrivial=len(ch) > 1)
            continue
        if "error" in ans or ans["msgs"] != msgs or (ans["buf"], ans["req"]) != state:
            oc.corr_failures.append(dict(what="Model.Conn.feedAll differs from IConnection.cpp", input=line, model=ans, impl=got))
        oc.traces_validated += 1
        if segs is not None:
            emsgs, estate = expected(segs)
            if msgs != emsgs or state != estate:
                oc.violations.append(dict(what="reassembly wrong: delivered %s, expected %s; final state %s, expected %s" % (msgs, emsgs, state, estate), input=line,
                                          segments=[(k, bytes(s).hex()) for k, s in segs]))
                break
            oc.case((kind, line), nontrivial=bool(emsgs) and len(ch) > 1)
        else:
            oc.case((kind, line), nontrivial=False)
    oc.samples = [dict(line=lines[i], out=out1[i]) for i in (0, len(lines) // 2, len(lines) - 1)]
    return finish(PROP, tier, proof, oc, t0, trusted=TRUSTED)


def replay(path):
    return c01.replay(path)
