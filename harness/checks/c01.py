"""C01 — regenerating an unchanged model is a fixed point that keeps all user code."""
import json
import os
import time

import common
import e2e
import findings
import genlib
import unitgen
from common import Outcome, finish, lean_batch, proof_status, rng, scratch

PROP = "C01"
TRUSTED = [
    "Lean 4.33 kernel; axioms propext, Classical.choice, Quot.sound only",
    "harness/translate.py (CleanUpLine chain, tag prefix, shipped templates regenerated each run)",
    "correspondence harness: Preservative.CollectFile/Emplace and the public generators vs Model/Preserv, Model/Pipeline",
    "modelled not verified: Python text decoding / universal newlines, os.path, template expansion (enters as the captured fresh code model)",
]


def unit_cases(r, n, oc, reqs, pend):
    """Preservative.CollectFile / Emplace vs the Lean model on generated documents"""
    import sys
    P = sys.modules["kojen.preservative"]
    with scratch() as d:
        for i in range(n):
            malformed = r.random() < 0.35
            old = unitgen.doc(r, malformed)
            new = unitgen.doc(r, r.random() < 0.2)
            replace = r.random() < 0.4
            path = os.path.join(d, "f%d.h" % i)
            with open(path, "w") as f:
                f.write("".join(old))
            with common.quiet():
                p = P.Preservative(path)
                tags = [[k, list(v)] for k, v in p.preserved_tags_per_file.get(path, {}).items()]
                ftl = {path: list(new)}
                p.Emplace(ftl, replace)
            os.remove(path)
            lost = [[k, v] for k, v in ftl.items() if k != path]
            reqs.append(dict(cmd="collect", lines=old))
            pend.append(("collect", dict(old=old), tags))
            reqs.append(dict(cmd="emplace", lines=new, tags=tags, replace=replace))
            pend.append(("emplace", dict(old=old, new=new, replace=replace, tags=tags), (ftl[path], lost, path)))
            oc.case(("unit", "".join(old), "".join(new), replace), nontrivial=bool(tags))
            oc.stat("unit_malformed" if malformed else "unit_wellformed")
            oc.stat("unit_replace" if replace else "unit_insert")


def lost_lines(path, entries):
    out = []
    for k, body in entries:
        out += [os.path.abspath(path) + "\n", k + "\n"] + [b + "\n" for b in body] + [k + "\n", "-" * 45 + "\n"]
    return out


def e2e_case(runner, r, oc, reqs, pend, kinds, regens, big=False):
    model = genlib.rand_model(r, kinds, big)
    with scratch() as base:
        outdir_arg, cwd = genlib.rand_outdir_spelling(r, base)
        real = os.path.join(base, "out")
        hist = dict(model=model, outdir=outdir_arg, cwd=cwd, steps=[])
        with e2e.in_cwd(cwd):
            ret0, fresh0 = runner.generate(model, outdir_arg)
            if fresh0 is not None:
                for fn, lines in fresh0:
                    dups = genlib.duplicate_tags("".join(lines))
                    reqs.append(dict(cmd="wf", lines=lines))
                    pend.append(("wf", dict(model=model, file=fn, dups=sorted(dups),
                                            dups_known=model["kind"] == "uml" and findings.uml_dup_known_shape(dups, model)), None))
            # user edits in a random subset of the tag pairs of every generated file
            # (tags duplicated within a file are the recorded finding uml-overload-tag-collision:
            #  they are exercised by the witness probe, not by the random histories)
            edits = {}
            for rel, data in sorted(e2e.snapshot(real).items()):
                if rel.endswith(".LostCode.txt"):
                    continue
                dups = genlib.duplicate_tags(data.decode("utf-8", "surrogateescape"))
                if dups:
                    oc.stat("files_with_duplicated_tags")
                w = genlib.edit_file(r, os.path.join(real, rel), fraction=r.choice([0.3, 0.7, 1.0]), skip=dups)
                if w:
                    edits[rel] = w
            hist["edits"] = edits
            if r.random() < 0.4:
                # the output directory is not the generator's alone: other files live there - some of them look like generated
                # ones (same tag names, hand-written code) - and some generated files are checked out read-only
                names_ = sorted(e2e.snapshot(real))
                other = {"README.txt": "notes\n", os.path.join("old", "Legacy.h"): "// {{{USER_HEADER_INCLUDES}}}\n#include <legacy.h>\n// {{{USER_HEADER_INCLUDES}}}\nint legacy;\n"}
                if names_:
                    stem = r.choice(names_)
                    other[stem + ".orig"] = "// {{{USER_PUBLIC}}}\nint kept_by_hand;\n// {{{USER_PUBLIC}}}\n"
                    other[os.path.join("backup", os.path.basename(stem))] = "// {{{USER_HEADER_INCLUDES}}}\n#include <backup.h>\n// {{{USER_HEADER_INCLUDES}}}\n"
                for rel, text in other.items():
                    p_ = os.path.join(real, rel)
                    os.makedirs(os.path.dirname(p_), exist_ok=True)
                    with open(p_, "w") as f:
                        f.write(text)
                for rel in names_:
                    if r.random() < 0.3:
                        os.chmod(os.path.join(real, rel), 0o444)
                hist["other_files"] = sorted(other)
                oc.stat("trees_with_files_of_others")
            before = e2e.snapshot(real)
            oc.stat("backend_" + model["backend"])
            oc.stat("edited_tags", sum(len(v) for v in edits.values()))
            prev = before
            expect = {k: v.replace(b"\t", b"    ") for k, v in before.items()}
            for step in range(regens):
                files_before = e2e.decode_tree(real)
                ret, fresh = runner.generate(model, outdir_arg)
                after = e2e.snapshot(real)
                # the property itself, on the implementation
                if after != expect:
                    oc.violations.append(dict(what="regeneration %d of an unchanged model changed the tree: %s" % (step + 1, e2e.tree_diff(expect, after)[:6]),
                                              history=hist, before={k: v for k, v in prev.items() if k in [x[1:] for x in e2e.tree_diff(expect, after)]},
                                              after={k: after.get(k) for k in [x[1:] for x in e2e.tree_diff(expect, after)]}))
                    return
                if list(ret) != list(ret0):
                    oc.violations.append(dict(what="return value changed between generations: %r / %r" % (ret0, ret), history=hist))
                    return
                # the same step through the model
                if fresh is not None:
                    reqs.append(e2e.regen_request(cwd, outdir_arg, files_before, fresh))
                    pend.append(("regen", dict(history=hist, step=step), (e2e.decode_tree(real), ret)))
                else:
                    oc.corr_failures.append(dict(what="could not capture the fresh code model (preserve_usercode_in_files not called exactly once)", history=hist))
                prev = after
        oc.case(("e2e", json.dumps(model, sort_keys=True, default=str), json.dumps(edits, sort_keys=True)), nontrivial=bool(edits))
        if len(oc.samples) < 3:
            oc.samples.append(dict(model=model, outdir=outdir_arg, cwd=cwd, edited={k: sorted(v) for k, v in edits.items()}, regenerations=regens))


def fresh_process_case(r, oc, directed=False):
    """the build script run again: every (re)generation in a fresh interpreter with its own hash seed"""
    import subprocess
    import sys
    worker = os.path.join(os.path.dirname(os.path.dirname(os.path.abspath(__file__))), "detworker.py")

    def gen(model, out, hs):
        env = dict(os.environ, PYTHONHASHSEED=str(hs))
        p = subprocess.run([sys.executable, worker], input=json.dumps(dict(model=model, outdir=out, cwd="/")), text=True, capture_output=True, env=env, timeout=300)
        return p.returncode, p.stderr[-400:]
    model = genlib.rand_model(r, ("sm", "sm", "sm", "proto", "uml"))
    if directed:
        # a table with several final states (only ever a target): whatever collects them must not expose a hash order
        model = genlib.rand_sm_model(r, r.choice(["cs", "py", "cpp"]))
        used = {c for row in model["tt"] for c in (row[0], row[2])}
        finals = [n_ for n_ in ["StateDone", "StateFailed", "StateAborted", "StateGone", "StateExpired"] if n_ not in used][:r.choice([2, 3, 4, 5])]
        srcs = sorted({row[0] for row in model["tt"]})
        evs = sorted({row[1] for row in model["tt"] if row[1] not in ("", "None", "none", None)}) or ["EventEnd"]
        model["tt"] = [list(row) for row in model["tt"]] + [[r.choice(srcs), r.choice(evs), f_, "None", "None"] for f_ in finals]
        oc.stat("fresh_process_cases_with_several_final_states")
    seeds = r.sample([0, 1, 2, 3, 5, 7, 11, 4242, 99991], 4)
    with scratch() as base:
        out = os.path.join(base, "out")
        rc, err = gen(model, out, seeds[0])
        if rc != 0:
            oc.corr_failures.append(dict(what="worker failed: " + err, model=model))
            return
        wrote = 0
        for rel, data in sorted(e2e.snapshot(out).items()):
            dups = genlib.duplicate_tags(data.decode("utf-8", "surrogateescape"))
            wrote += len(genlib.edit_file(r, os.path.join(out, rel), fraction=0.6, skip=dups))
        gen(model, out, seeds[1])           # TAB normalisation happens here
        ref = e2e.snapshot(out)
        for hs in seeds[2:]:
            rc, err = gen(model, out, hs)
            cur = e2e.snapshot(out)
            if rc != 0 or cur != ref:
                d = e2e.tree_diff(ref, cur)
                oc.violations.append(dict(what="regenerating the unchanged model in a fresh interpreter (PYTHONHASHSEED=%s) changes the tree: %s" % (hs, d[:4]), model=model,
                                          hashseeds=seeds, before=ref.get(d[0][1:]) if d else None, after=cur.get(d[0][1:]) if d else None))
                return
        oc.case(("fresh-process", json.dumps(model, sort_keys=True, default=str)), nontrivial=wrote > 0)
        oc.stat("regenerations_in_a_fresh_interpreter", len(seeds) - 1)


def settle(oc, reqs, pend):
    answers = lean_batch(reqs)
    for (kind, info, impl), ans in zip(pend, answers):
        if "error" in ans:
            oc.corr_failures.append(dict(what="Lean driver error: " + ans["error"], input=info))
            continue
        if kind == "collect":
            if ans["tags"] != impl:
                oc.corr_failures.append(dict(what="CollectFile differs from Model.collect", input=info, model=ans["tags"], impl=impl))
        elif kind == "emplace":
            lines, lost, path = impl
            mlost = lost_lines(path, ans["lost"])
            ilost = lost[0][1] if lost else []
            if ans["lines"] != lines or mlost != ilost:
                oc.corr_failures.append(dict(what="Emplace differs from Model.emplaceAux/lostEntries", input=info, model=[ans["lines"], mlost], impl=[lines, ilost]))
        elif kind == "wf":
            oc.stat("files_wf_checked")
            if not ans["fresh"] and ans["parses"] and ans["items"] and not ans["nodup"] and info["dups_known"] and not ans["gentag"]:
                oc.stat("files_not_fresh_only_by_known_finding")
            elif not ans["fresh"] or ans["gentag"]:
                oc.corr_failures.append(dict(what="generated file is not a FreshDoc (wfFresh=%s, unexpanded tag=%s): hypothesis of C01_fixed_point not met" % (ans["fresh"], ans["gentag"]), input=info))
        elif kind == "regen":
            after, ret = impl
            d = e2e.compare_regen(ans, after, ret)
            oc.traces_validated += 1
            if d:
                oc.corr_failures.append(dict(what="pipeline model differs from implementation: " + "; ".join(d[:3]), input=info))


def search():
    """failing-input search after a broken proof / correspondence: more histories, oracle only"""
    r = rng(PROP, "search")
    runner = genlib.Runner()
    oc = Outcome(PROP)
    for i in range(150):
        e2e_case(runner, r, oc, [], [], ("sm", "sm", "proto", "uml"), 2)
        if oc.violations:
            return oc.violations[0]
    return None


def run(tier):
    t0 = time.time()
    thorough = tier == "thorough"
    proof = proof_status(PROP, thorough)
    oc = Outcome(PROP)
    oc.rule = ("unit: generated tagged documents (35% malformed) through CollectFile/Emplace vs model; "
               "e2e: random model x back end x outdir spelling, user text in a random subset of tag pairs, 2-4 regenerations; the same with every (re)generation in a fresh interpreter under its own PYTHONHASHSEED; "
               "non-trivial = at least one tag pair holds user text (e2e) / at least one block collected (unit); distinct by full input")
    oc.assumptions = TRUSTED
    r = rng(PROP)
    runner = genlib.Runner()
    reqs, pend = [], []
    rep, detail = findings.probe_uml_dup_regen(runner)
    findings.record(oc, PROP, findings.UML_DUP, rep, detail)
    # files saved with CRLF line endings: user code must stay in place (violation otherwise); that the pinned
    # generator rewrites the endings to LF is the recorded finding crlf-line-endings-normalised
    import crlfprobe
    seen = False
    for i in range(12 if thorough else 3):
        res = crlfprobe.run(runner, r, change_model=False)
        oc.stat("crlf_trees_regenerated")
        if res["kind"] == "violation":
            oc.violations.append(res)
            break
        seen = seen or res["kind"] == "finding"
    if not oc.violations:
        findings.record(oc, PROP, crlfprobe.CRLF, seen, dict(note="first regeneration of a CRLF-saved tree"))
    unit_cases(r, 3000 if thorough else 400, oc, reqs, pend)
    n = 400 if thorough else 45
    for i in range(n):
        e2e_case(runner, r, oc, reqs, pend, ("sm", "sm", "sm", "proto", "uml"), r.choice([2, 2, 3, 4]) if thorough else 2, big=thorough)
        if oc.violations:
            break
    for i in range(40 if thorough else 6):
        if oc.violations:
            break
        fresh_process_case(r, oc, directed=i % 2 == 1)
    settle(oc, reqs, pend)
    return finish(PROP, tier, proof, oc, t0, trusted=TRUSTED, search=search)


def replay(path):
    data = json.load(open(path))
    print(json.dumps(data.get("violation") or data.get("broken"), indent=1)[:4000])
    return 0
