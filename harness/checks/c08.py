"""C08 — the generated Python state machine executes exactly the transition table."""
import json
import os
import subprocess
import sys
import time

import common
import genlib
import smparse
from checks import c01
from common import Outcome, finish, lean_batch, proof_status, rng, scratch

PROP = "C08"
TRUSTED = [
    "Lean 4.33 kernel; axioms propext, Classical.choice, Quot.sound only",
    "Model/EmitPy.emit is hand-written after the shipped Python template and smgen's nested transition expansion; tied by parse-back of the real generated process region (must equal emit) and by importing and driving the real generated modules",
    "CPython executes the emitted structure as Model/EmitPy's interpreter does (if / return / call semantics); guards are pure within one event",
    "domain: UpperCamelCase identifiers that are no Python keywords, names disjoint between states/events/actions/guards, callbacks do not re-enter the machine",
]
WORKER = os.path.join(os.path.dirname(os.path.dirname(os.path.abspath(__file__))), "smworker.py")


def directed_runs(tt):
    """one run per row of the table that can fire at all: a shortest path of rows from the initial state to the row's
    source (each step with exactly its own guard true), then the row's event with its guard true"""
    first = tt[0][0]

    def firing(row):
        """the guard valuation under which `row` is the first of its (state, event) pair to fire; None if it cannot"""
        for other in tt:
            if other is row:
                return [row[4]] if row[4] else []
            if (other[0], other[1]) == (row[0], row[1]) and (not other[4] or other[4] == row[4]):
                return None
        return None
    # breadth-first over states
    path = {first: []}
    todo = [first]
    while todo:
        s = todo.pop(0)
        for row in tt:
            if row[0] == s and row[2] and row[2] not in path:
                val = firing(row)
                if val is not None:
                    path[row[2]] = path[s] + [[row[1], val]]
                    todo.append(row[2])
    out = []
    for row in tt:
        val = firing(row)
        if val is not None and row[0] in path:
            out.append(path[row[0]] + [[row[1], val]])
    return out


def table_case(runner, r, oc, reqs, pend, nruns, big=False, state_name=None):
    model = genlib.rand_sm_model(r, "py", big)
    if state_name:
        model = genlib.with_state_named(model, state_name)      # every run asks Is<State>() of every such adjective once
    model["iface"]["usertags"] = {"StateMachineThread": 0}
    tt = smparse.norm_tt(model["tt"])
    states, guards, actions, events = [], [], [], []
    for row in tt:
        for s in (row[0], row[2]):
            if s and s not in states:
                states.append(s)
        if row[1] not in events:
            events.append(row[1])
        if row[3] and row[3] not in actions:
            actions.append(row[3])
        if row[4] and row[4] not in guards:
            guards.append(row[4])
    nparams = {e: 0 for e in events}
    for sname, mem in model["iface"]["structs"]:
        nparams[sname] = len(mem)
    with scratch() as base:
        out = os.path.join(base, "out")
        runner.generate(model, out)
        text = open(os.path.join(out, model["name"] + "StateMachine.py")).read()
        parsed = smparse.py_process_region(text, model["name"], states)
        runs = []
        for _ in range(nruns):
            run = []
            for _ in range(r.randint(1, 12)):
                run.append([r.choice(events), [g for g in guards if r.random() < 0.5]])
            runs.append(run)
        runs += directed_runs(tt)[:12]
        cfg = dict(dir=out, name=model["name"], states=states, guards=guards, actions=actions, events=nparams, runs=runs)
        p = subprocess.run([sys.executable, WORKER], input=json.dumps(cfg), text=True, capture_output=True, timeout=300)
        try:
            res = json.loads(p.stdout.strip().splitlines()[-1])
        except Exception:
            oc.violations.append(dict(what="worker crashed: " + p.stderr[-500:], model=model))
            return
    if not res.get("import_ok"):
        oc.violations.append(dict(what="generated modules do not import: %s" % res.get("error"), model=model))
        return
    reqs.append(dict(cmd="emitpy", tt=tt))
    pend.append(("emit", dict(model=model), parsed))
    first = tt[0][0]
    for run, rr in zip(runs, res["runs"]):
        if "error" in rr:
            oc.violations.append(dict(what="generated state machine raised %s" % rr["error"], model=model, run=run))
            return
        if rr["construct"] != [["entry", first]] or rr["initial"] != [first]:
            oc.violations.append(dict(what="constructor: trace %s, state %s; expected entry of %s" % (rr["construct"], rr["initial"], first), model=model))
            return
        reqs.append(dict(cmd="runref", silent=False, start=first, tt=tt, events=run))
        pend.append(("run", dict(model=model, run=run), rr["steps"]))
    kinds = set()
    by = {}
    for row in tt:
        by.setdefault((row[0], row[1]), []).append(row[4])
    for gs in by.values():
        if len(gs) > 1 and gs[-1] is None and any(gs[:-1]):
            kinds.add("guarded_then_fallback")
        if len(gs) > 1 and gs[0] is None:
            kinds.add("unguarded_first")
    if any(s not in [r_[0] for r_ in tt] for s in states):
        kinds.add("target_only_state")
    if any(row[2] == row[0] for row in tt):
        kinds.add("self_loop")
    for k in kinds:
        oc.stat("table_" + k)
    oc.case(("tt", json.dumps(tt), json.dumps(runs)), nontrivial=len(tt) > 1)
    if len(oc.samples) < 2:
        oc.samples.append(dict(table=tt, run=runs[0], observed=res["runs"][0]["steps"][:3]))


def settle(oc, reqs, pend):
    for (kind, info, impl), ans in zip(pend, lean_batch(reqs)):
        if "error" in ans:
            oc.corr_failures.append(dict(what="Lean driver error: " + ans["error"], input=info))
            continue
        if kind == "emit":
            if impl["errors"] or not impl["tails_ok"]:
                oc.corr_failures.append(dict(what="generated process region has an unexpected shape: %s" % (impl["errors"][:3] or "tail of a process function"), input=info))
            elif impl["fns"] != ans["fns"] or impl["init"] != ans["init"] or impl["chain"] != [[f["state"], f["state"]] for f in ans["fns"]] and impl["chain"] != [(f["state"], f["state"]) for f in ans["fns"]]:
                oc.corr_failures.append(dict(what="parse-back of the generated process region differs from Model.EmitPy.emit", input=info, model=ans["fns"], impl=impl["fns"], chain=impl["chain"]))
            if not ans["indent_ok"]:
                oc.corr_failures.append(dict(what="Model: emitted lines violate the indentation rule", input=info))
        else:
            oc.traces_validated += 1
            exp = [dict(trace=s["trace"], state=[s["state"]]) for s in ans["steps"]]
            if not all(s["emit_agrees"] for s in ans["steps"]):
                oc.corr_failures.append(dict(what="Lean: interpreter of emit(t) disagrees with stepRef on this run (theorem instance fails?)", input=info))
            if exp != impl:
                i = next((i for i in range(min(len(exp), len(impl))) if exp[i] != impl[i]), 0)
                oc.violations.append(dict(what="generated Python machine deviates from the table at event %d: observed %s, table says %s" % (i, impl[i] if i < len(impl) else None, exp[i] if i < len(exp) else None),
                                          model=info["model"], run=info["run"]))


def run(tier):
    t0 = time.time()
    thorough = tier == "thorough"
    proof = proof_status(PROP, thorough)
    oc = Outcome(PROP)
    oc.rule = ("random well-formed tables (several rows per (state,event), guarded rows with unguarded fallback, unguarded before guarded, self loops, target-only states, repeated rows, "
               "None/none/'' spellings, event parameter interfaces) -> real StateMachine_PYTHON -> (a) process region parsed back == Model.EmitPy.emit, "
               "(b) modules imported in a fresh interpreter, random event sequences with a fresh random guard valuation per event, plus one directed run per row (a shortest path of rows to its source state, then the row itself), through a recording controller, "
               "callback trace and Is<State>() compared with the reference semantics; non-trivial = table with more than one row")
    oc.assumptions = TRUSTED
    r = rng(PROP)
    runner = genlib.Runner()
    reqs, pend = [], []
    for i in range(300 if thorough else 40):
        table_case(runner, r, oc, reqs, pend, 12 if thorough else 6, big=thorough, state_name=genlib.ADJECTIVES[i] if i < len(genlib.ADJECTIVES) else None)
        if oc.violations:
            break
    settle(oc, reqs, pend)
    return finish(PROP, tier, proof, oc, t0, trusted=TRUSTED)


def replay(path):
    return c01.replay(path)
