#!/usr/bin/env python3
"""Translator: regenerates lean/KojenVerif/Generated/*.lean from /repo's *current* sources.

Everything in the repository that is data rather than algorithm is re-translated on every
run, so that theorems about "the shipped templates / tag vocabulary / clean-up chain /
declared C++ types" are re-checked by the Lean kernel against what the tree says now.

Idempotent: unchanged sources give byte-identical files (lake then does nothing).
Uses only the standard library (ast, re, os).
"""
import ast
import os
import re
import sys
import warnings
warnings.simplefilter("ignore")

REPO = os.environ.get("KOJEN_REPO", "/repo")
KOJEN = os.path.join(REPO, "kojen")
HERE = os.path.dirname(os.path.abspath(__file__))
GEN = os.path.join(os.path.dirname(HERE), "lean", "KojenVerif", "Generated")

TEMPLATE_DIRS = [
    ("smCpp", "statemachine_templates_embedded_arm"),
    ("smCppBoost", "statemachine_templates_pc_boost"),
    ("smCs", "statemachine_templates_cs_winlinmac"),
    ("smPy", "statemachine_templates_py"),
    ("protoCpp", os.path.join("protocol_templates", "CPP")),
    ("umlCpp", os.path.join("classdiagram_templates", "CPP")),
    ("umlCs", os.path.join("classdiagram_templates", "C#")),
]


def lean_str(s):
    return "[" + ",".join(str(ord(ch)) for ch in s) + "]"


def lean_lines(lines, chunk=120):
    """a list literal; long lists as a concatenation of chunks (one literal of several hundred elements exceeds the
    elaborator's recursion depth)"""
    if len(lines) <= chunk:
        return "[" + ",\n    ".join(lean_str(l) for l in lines) + "]"
    return "(" + " ++\n    ".join("[" + ",\n    ".join(lean_str(l) for l in lines[i:i + chunk]) + "]" for i in range(0, len(lines), chunk)) + ")"


def read_lines(path):
    # same way the generator reads templates: text mode, universal newlines
    with open(path) as f:
        return list(f)


def clean_chain(tree):
    """[(a, b), ...] of the `.replace(a, b)` chain in preservative.CleanUpLine, in
    application order."""
    for node in ast.walk(tree):
        if isinstance(node, ast.FunctionDef) and node.name == "CleanUpLine":
            ret = [n for n in node.body if isinstance(n, ast.Return)]
            if len(node.body) != 1 or len(ret) != 1:
                raise SystemExit("translate: CleanUpLine is no longer a single return statement")
            chain = []
            e = ret[0].value
            while isinstance(e, ast.Call):
                if not (isinstance(e.func, ast.Attribute) and e.func.attr == "replace" and len(e.args) == 2
                        and all(isinstance(a, ast.Constant) and isinstance(a.value, str) for a in e.args)):
                    raise SystemExit("translate: CleanUpLine chain has an unexpected shape")
                chain.append((e.args[0].value, e.args[1].value))
                e = e.func.value
            if not (isinstance(e, ast.Name) and e.id == node.args.args[0].arg):
                raise SystemExit("translate: CleanUpLine chain does not start at its argument")
            chain.reverse()
            return chain
    raise SystemExit("translate: CleanUpLine not found")


def tag_prefix(tree):
    for node in ast.walk(tree):
        if isinstance(node, ast.FunctionDef) and node.name == "__init__":
            for st in node.body:
                if (isinstance(st, ast.Assign) and len(st.targets) == 1 and isinstance(st.targets[0], ast.Attribute)
                        and st.targets[0].attr == "_TAG_PREFIX_" and isinstance(st.value, ast.Constant)):
                    return st.value.value
    raise SystemExit("translate: _TAG_PREFIX_ not found")


def tag_consts(path):
    """module-level `__TAG_X__ = '<<<...>>>'` assignments, in source order"""
    tree = ast.parse(open(path).read())
    out = []
    for st in tree.body:
        if (isinstance(st, ast.Assign) and len(st.targets) == 1 and isinstance(st.targets[0], ast.Name)
                and st.targets[0].id.startswith("__TAG_") and isinstance(st.value, ast.Constant)
                and isinstance(st.value.value, str)):
            out.append((st.targets[0].id, st.value.value))
    return out


def cpp_facts():
    """declared-type facts of the C++ runtime used by the concurrency model (C15)"""
    facts = {}
    td = open(os.path.join(KOJEN, "allplatforms", "CPP", "threaded_dispatcher.h")).read()
    m = re.search(r"^\s*([A-Za-z_][A-Za-z_:<> ]*?)\s+m_shutting_down\s*(?:=[^;]*|\{[^;]*\})?;", td, re.M)
    decl = m.group(1).strip() if m else ""
    facts["shuttingDownAtomic"] = "atomic" in decl
    tq = open(os.path.join(KOJEN, "allplatforms", "CPP", "threadsafe_queue.h")).read()
    m = re.search(r"^\s*([A-Za-z_][A-Za-z_:<> ]*?)\s+m_stopped\s*(?:=[^;]*|\{[^;]*\})?;", tq, re.M)
    decl = m.group(1).strip() if m else ""
    facts["stoppedAtomic"] = "atomic" in decl
    # every member function of threadsafe_queue that touches m_data / m_stopped takes m_mutex first
    # (constructor / destructor excepted: no concurrent access is allowed there)
    bodies = re.findall(r"\n\s*(?:[\w:<>&\s\*]+?)\s+(\w+)\s*\([^)]*\)\s*(?:const)?\s*\{(.*?)\n        \}", tq, re.S)
    lock_re = r"std::(?:lock_guard|unique_lock|scoped_lock)<std::mutex>\s+\w+\(m_mutex\);"
    locked = {"m_data": True, "m_stopped": True}
    nmeth = {"m_data": 0, "m_stopped": 0}
    for name, body in bodies:
        for var in locked:
            if var in body:
                nmeth[var] += 1
                # the lock must be taken before the first mention of the variable
                before = body[:body.index(var)]
                if not re.search(lock_re, before):
                    locked[var] = False
    facts["queueMethodsLocked"] = locked["m_data"] and nmeth["m_data"] >= 6
    facts["stoppedAccessLocked"] = locked["m_stopped"] and nmeth["m_stopped"] >= 3
    # side conditions of modelling a condition wait as "may proceed exactly when its predicate holds":
    # every wait has the predicate (!empty || stopped), every push notifies, wake_up sets the flag under the
    # mutex and notifies all waiters
    waits = [l for l in tq.splitlines() if "m_cond.wait" in l]
    facts["waitsHavePredicate"] = len(waits) >= 1 and all(re.search(r"!m_data\.empty\(\)\s*\|\|\s*m_stopped", w) for w in waits)
    by_name = {}
    for name, body in bodies:
        by_name.setdefault(name, []).append(body)
    pushes = by_name.get("push", [])
    def notifies_unconditionally(body):
        """a notify call that is a statement of its own at the top level of the function body: not guarded by
        `if` / `else` / a loop, not inside a nested block"""
        depth = 0
        for stmt in re.split(r"(?<=[;{}])", body):
            if re.search(r"m_cond\.notify_(one|all)\(\)", stmt) and depth == 0 and not re.search(r"\b(if|while|for|else)\b", stmt):
                return True
            depth += stmt.count("{") - stmt.count("}")
        return False
    facts["pushNotifies"] = len(pushes) >= 1 and all(notifies_unconditionally(b) for b in pushes)
    wk = by_name.get("wake_up", [])
    facts["wakeNotifiesAll"] = len(wk) == 1 and re.search(lock_re + r".*m_stopped\s*=\s*true;.*m_cond\.notify_all\(\)", wk[0], re.S) is not None
    # the worker re-tests the shutdown flag after every pop, before handing the item over
    facts["workerRetestsFlag"] = re.search(r"wait_and_pop\(\)\)\s*&&\s*\(?\s*!m_shutting_down", td) is not None
    # the worker hand-shake lives in stop(), the base destructor calls it, and the generated state machine
    # implementation calls it first thing in its own destructor
    has_stop = re.search(r"void stop\(\)\s*\{[^}]*m_shutting_down = true;[^}]*m_queue\.wake_up\(\);[^}]*join\(\)", td, re.S) is not None
    dtor_calls = re.search(r"~threaded_dispatcher\(\)\s*\{\s*stop\(\);\s*\}", td) is not None
    tpl = open(os.path.join(KOJEN, "statemachine_templates_embedded_arm", "TEMPLATEStateMachineImpl_SML.cpp")).read()
    impl_calls = re.search(r"~C<<<STATEMACHINENAME>>>StateMachineImpl\(\)\s*\{[^}]*\bstop\(\);", tpl, re.S) is not None
    facts["dispatcherStopFirst"] = has_stop and dtor_calls and impl_calls
    return facts


ORDER_EXPOSING_FUNCS = {"list", "tuple", "enumerate", "iter", "next", "zip", "map", "filter", "str", "repr", "reversed"}
ORDER_EXPOSING_METHODS = {"extend", "join", "fromkeys", "writelines"}


def _is_set_expr(node, set_names, set_funcs=frozenset()):
    if isinstance(node, (ast.Set, ast.SetComp)):
        return True
    if isinstance(node, ast.Call) and isinstance(node.func, ast.Name) and node.func.id in ("set", "frozenset"):
        return True
    if isinstance(node, ast.Call) and isinstance(node.func, ast.Name) and node.func.id in set_funcs:
        return True
    if isinstance(node, ast.Call) and isinstance(node.func, ast.Attribute) and node.func.attr in set_funcs:
        return True
    if isinstance(node, ast.Name) and node.id in set_names:
        return True
    if isinstance(node, ast.BinOp) and isinstance(node.op, (ast.Sub, ast.BitOr, ast.BitAnd, ast.BitXor)):
        return _is_set_expr(node.left, set_names, set_funcs) or _is_set_expr(node.right, set_names, set_funcs)
    if isinstance(node, ast.IfExp):
        return _is_set_expr(node.body, set_names, set_funcs) or _is_set_expr(node.orelse, set_names, set_funcs)
    if isinstance(node, ast.Call) and isinstance(node.func, ast.Attribute) and node.func.attr in ("union", "intersection", "difference", "symmetric_difference", "copy"):
        return _is_set_expr(node.func.value, set_names, set_funcs)
    return False


def _order_insensitive(stmts):
    """loop bodies whose effect does not depend on the iteration order: only set add / remove / discard calls,
    possibly under `if`s without else-side effects of another kind"""
    for st in stmts:
        if isinstance(st, ast.If):
            if not (_order_insensitive(st.body) and _order_insensitive(st.orelse)):
                return False
        elif isinstance(st, ast.Expr) and isinstance(st.value, ast.Call) and isinstance(st.value.func, ast.Attribute) \
                and st.value.func.attr in ("add", "remove", "discard"):
            continue
        elif isinstance(st, ast.Pass):
            continue
        else:
            return False
    return True


def set_sites_sorted():
    """C06: nothing in the generator exposes the hash order of a set.  A set-valued expression is a `set(...)` call, a
    set literal / comprehension, set algebra, a name bound to one in the module, or a call of a function (of any kojen
    module) that returns one.  Its order is exposed by a `for` / comprehension over it (unless the body only adds to /
    removes from sets), by `list / tuple / enumerate / iter / next / zip / map / filter / str / repr (...)`, by
    `x.extend / join / fromkeys / writelines (...)`, by `+=`, by `*`-unpacking and by `.pop()`; `sorted(...)` makes it
    defined.  Returns (no exposing site and at least one sorted site, number of sites)."""
    n_sorted = n_raw = 0
    mods = {}
    for mod in sorted(f for f in os.listdir(KOJEN) if f.endswith(".py")):
        try:
            mods[mod] = ast.parse(open(os.path.join(KOJEN, mod)).read())
        except SyntaxError:
            continue
    set_funcs = set()
    for _ in range(4):      # functions returning sets, to a fixed point over all modules
        for tree in mods.values():
            for fn in [n for n in ast.walk(tree) if isinstance(n, (ast.FunctionDef, ast.AsyncFunctionDef))]:
                local = set()
                for n in ast.walk(fn):
                    if isinstance(n, ast.Assign) and _is_set_expr(n.value, local, set_funcs):
                        local.update(t.id for t in n.targets if isinstance(t, ast.Name))
                if any(isinstance(n, ast.Return) and n.value is not None and _is_set_expr(n.value, local, set_funcs) for n in ast.walk(fn)):
                    set_funcs.add(fn.name)
    for mod, tree in mods.items():
        set_names = {"setOfClasses", "setOfProjectDependencies"} if mod in ("LanguageCPP.py", "LanguageCsharp.py") else set()
        for _ in range(2):
            for node in ast.walk(tree):
                if isinstance(node, ast.Assign) and _is_set_expr(node.value, set_names, set_funcs):
                    for t in node.targets:
                        if isinstance(t, ast.Name):
                            set_names.add(t.id)
        S = lambda x: _is_set_expr(x, set_names, set_funcs)      # noqa
        for node in ast.walk(tree):
            if isinstance(node, (ast.For, ast.comprehension)):
                it = node.iter
                if S(it):
                    if isinstance(node, ast.For) and _order_insensitive(node.body):
                        continue        # e.g. `for i in a: if i in b: b.remove(i)`: a set difference
                    n_raw += 1
            elif isinstance(node, ast.Call) and isinstance(node.func, ast.Name) and node.func.id == "sorted" and node.args and S(node.args[0]):
                n_sorted += 1
            elif isinstance(node, ast.Call) and isinstance(node.func, ast.Name) and node.func.id in ORDER_EXPOSING_FUNCS and any(S(a) for a in node.args):
                n_raw += 1
            elif isinstance(node, ast.Call) and isinstance(node.func, ast.Attribute) and node.func.attr in ORDER_EXPOSING_METHODS and any(S(a) for a in node.args):
                n_raw += 1
            elif isinstance(node, ast.Call) and isinstance(node.func, ast.Attribute) and node.func.attr == "pop" and not node.args and S(node.func.value):
                n_raw += 1
            elif isinstance(node, ast.AugAssign) and isinstance(node.op, ast.Add) and S(node.value):
                n_raw += 1
            elif isinstance(node, ast.Starred) and S(node.value):
                n_raw += 1
    return (n_raw == 0 and n_sorted > 0), n_sorted + n_raw


def template_files():
    out = []
    for ident, rel in TEMPLATE_DIRS:
        d = os.path.join(KOJEN, rel)
        files = []
        for root, dirs, fs in os.walk(d):
            dirs.sort()
            for f in sorted(fs):
                if ".removed" in f.lower():
                    continue
                files.append((os.path.relpath(os.path.join(root, f), d), read_lines(os.path.join(root, f))))
        out.append((ident, rel, files))
    return out


def write_if_changed(path, text):
    try:
        if open(path).read() == text:
            return False
    except OSError:
        pass
    os.makedirs(os.path.dirname(path), exist_ok=True)
    with open(path, "w") as f:
        f.write(text)
    return True


def main():
    ptree = ast.parse(open(os.path.join(KOJEN, "preservative.py")).read())
    chain = clean_chain(ptree)
    prefix = tag_prefix(ptree)

    facts = ["/- GENERATED by harness/translate.py from /repo -- do not edit -/",
             "import KojenVerif.Basic.Str", "namespace KojenVerif.Generated", "",
             "/-- `Preservative._TAG_PREFIX_` -/",
             "def userPrefix : Str := " + lean_str(prefix), "",
             "/-- the `.replace(a, b)` chain of `preservative.CleanUpLine`, in application order -/",
             "def cleanChain : List (Str × Str) := [" + ",\n  ".join("(%s, %s)" % (lean_str(a), lean_str(b)) for a, b in chain) + "]",
             ""]
    for mod in ("cgen", "smgen", "umlgen"):
        consts = tag_consts(os.path.join(KOJEN, mod + ".py"))
        facts.append("/-- `__TAG_…__` constants of %s.py (name, text) -/" % mod)
        facts.append("def %sTags : List (Str × Str) := [" % mod + ",\n  ".join("(%s, %s)" % (lean_str(n), lean_str(v)) for n, v in consts) + "]")
        facts.append("")
    cf = cpp_facts()
    for k, v in sorted(cf.items()):
        facts.append("def %s : Bool := %s" % (k, "true" if v else "false"))
    ok, nsites = set_sites_sorted()
    facts.append("/-- nothing in kojen/*.py exposes the hash order of a set: loops, list()/join()/extend()/... over set-valued expressions go through `sorted(...)` -/")
    facts.append("def setSitesSorted : Bool := %s" % ("true" if ok else "false"))
    facts.append("def setSiteCount : Nat := %d" % nsites)
    facts.append("")
    for ident, sub in (("umlTemplatesCPP", "CPP"), ("umlTemplatesCS", "C#")):
        d = os.path.join(KOJEN, "classdiagram_templates", sub)
        fs = sorted(f for _, _, files in os.walk(d) for f in files)
        facts.append("/-- file names of kojen/classdiagram_templates/%s (sorted) -/" % sub)
        facts.append("def %s : List Str := [%s]" % (ident, ", ".join(lean_str(f) for f in fs)))
    facts.append("/-- the file-name replacements of umlgen.loadtemplates_firstfiltering, per kind: (filter, key) and the common tail -/")
    ug = open(os.path.join(KOJEN, "umlgen.py")).read()
    keys = re.findall(r'dict_to_replace_filenames\["(\w+Template)"\] = classobj\.NAME', ug)
    filters = re.findall(r'CGenerator\.loadtemplates_firstfiltering\(self,\s*dict_to_replace_lines,\s*dict_to_replace_filenames,\s*"(\w+)"\)', ug)
    tail = re.findall(r"dict_to_replace_filenames\['(\.\w+)'\] = '(\.\w+)'", ug)
    facts.append("def umlKindKeys : List (Str × Str) := [%s]" % ", ".join("(%s, %s)" % (lean_str(f), lean_str(k)) for f, k in zip(filters, keys)))
    facts.append("def umlNameTail : List (Str × Str) := [%s]" % ", ".join("(%s, %s)" % (lean_str(a), lean_str(b)) for a, b in tail[:3]))
    facts.append("")
    facts.append("end KojenVerif.Generated")
    changed = write_if_changed(os.path.join(GEN, "Facts.lean"), "\n".join(facts) + "\n")

    tl = ["/- GENERATED by harness/translate.py from /repo -- do not edit -/",
          "import KojenVerif.Basic.Str", "namespace KojenVerif.Generated", ""]
    names = []
    nfiles = 0
    nlines = 0
    for ident, rel, files in template_files():
        fnames = []
        for i, (fn, lines) in enumerate(files):
            dn = "%s_%d" % (ident, i)
            tl.append("set_option maxRecDepth 100000 in")
            tl.append("/-- %s/%s -/" % (rel, fn))
            tl.append("def %s : Str × List Str := (%s,\n   %s)" % (dn, lean_str(fn), lean_lines(lines)))
            tl.append("")
            fnames.append(dn)
            nfiles += 1
            nlines += len(lines)
        tl.append("def %s : List (Str × List Str) := [%s]" % (ident, ", ".join(fnames)))
        tl.append("")
        names.append(ident)
    tl.append("def allTemplateSets : List (List (Str × List Str)) := [%s]" % ", ".join(names))
    tl.append("def templateFileCount : Nat := %d" % nfiles)
    tl.append("def templateLineCount : Nat := %d" % nlines)
    tl.append("")
    tl.append("end KojenVerif.Generated")
    changed |= write_if_changed(os.path.join(GEN, "Templates.lean"), "\n".join(tl) + "\n")
    if "-v" in sys.argv:
        print("translate: %d template files, %d lines, chain %d steps, prefix %r, changed=%s" % (nfiles, nlines, len(chain), prefix, changed))
    return 0


if __name__ == "__main__":
    sys.exit(main())
