"""Shared machinery of the kojen verification harness: building and auditing the Lean
library, talking to the Lean driver, deterministic randomness, evidence and verdicts."""
import contextlib
import io
import json
import os
import random
import re
import shutil
import subprocess
import sys
import tempfile
import time

ROOT = os.path.dirname(os.path.dirname(os.path.abspath(__file__)))
LEAN = os.path.join(ROOT, "lean")
REPO = os.environ.get("KOJEN_REPO", "/repo")
# mutation runs (harness/mutrun.py) redirect the evidence so that the committed files describe the real tree only
EVID = os.environ.get("KOJEN_VERIF_EVIDENCE_DIR") or os.path.join(ROOT, "evidence")
REPLAY = os.path.join(ROOT, "replay")
CORPUS = os.path.join(ROOT, "corpus")
KNOWN = os.path.join(ROOT, "known_findings.txt")
ALLOWED_AXIOMS = {"propext", "Classical.choice", "Quot.sound"}
FORBIDDEN = re.compile(r"\bsorry\b|\badmit\b|^axiom |native_decide|bv_decide|implemented_by|\bunsafe |maxHeartbeats 0", re.M)

if REPO not in sys.path:
    sys.path.insert(0, REPO)


class Infra(Exception):
    """infrastructure failure: exit 2, never a VIOLATION"""


def seed():
    try:
        return int(os.environ.get("VERIF_SEED", "0"))
    except ValueError:
        return 0


def rng(prop, salt=""):
    return random.Random("%s/%s/%d" % (prop, salt, seed()))


def run(cmd, cwd=None, timeout=3600, env=None, input=None):
    e = dict(os.environ)
    if env:
        e.update(env)
    try:
        p = subprocess.run(cmd, cwd=cwd, env=e, input=input, capture_output=True, text=True, timeout=timeout)
    except subprocess.TimeoutExpired:
        raise Infra("timeout: %s" % " ".join(cmd))
    return p.returncode, p.stdout, p.stderr


# --------------------------------------------------------------------------- Lean side

def translate():
    rc, out, err = run([sys.executable, os.path.join(ROOT, "harness", "translate.py")])
    if rc != 0:
        # the translator refuses shapes it does not understand: that is a broken tie, the
        # caller turns it into a search, not into an infrastructure error
        return False, (out + err).strip()
    return True, ""


def strip_comments(src):
    src = re.sub(r"/-.*?-/", "", src, flags=re.S)
    src = re.sub(r"--.*", "", src)
    return src


def forbidden_tokens(paths):
    hits = []
    for p in paths:
        try:
            src = strip_comments(open(p).read())
        except OSError:
            continue
        for m in FORBIDDEN.finditer(src):
            hits.append("%s: %s" % (os.path.relpath(p, LEAN), m.group(0).strip()))
    return hits


def lean_sources():
    out = []
    for root, dirs, files in os.walk(os.path.join(LEAN, "KojenVerif")):
        for f in files:
            if f.endswith(".lean"):
                out.append(os.path.join(root, f))
    for sub in ("Audit", "Driver"):
        d = os.path.join(LEAN, sub)
        if os.path.isdir(d):
            out += [os.path.join(d, f) for f in os.listdir(d) if f.endswith(".lean")]
    return sorted(out)


def lake_build(targets, timeout=3000):
    rc, out, err = run(["lake", "build"] + list(targets), cwd=LEAN, timeout=timeout)
    return rc == 0, out + err


AX_RE = re.compile(r"'([^']+)' depends on axioms: \[([^\]]*)\]")
NOAX_RE = re.compile(r"'([^']+)' does not depend on any axioms")


def audit(prop):
    """runs Audit/<prop>.lean; returns (listed theorem names, {name: [axioms]}, raw output)"""
    path = os.path.join(LEAN, "Audit", prop + ".lean")
    listed = re.findall(r"^#print axioms\s+(\S+)", open(path).read(), re.M)
    rc, out, err = run(["lake", "env", "lean", path], cwd=LEAN, timeout=1800)
    text = out + err
    text1 = re.sub(r"\s+", " ", text)
    found = {}
    for m in AX_RE.finditer(text1):
        found[m.group(1)] = [a.strip() for a in m.group(2).split(",") if a.strip()]
    for m in NOAX_RE.finditer(text1):
        found[m.group(1)] = []
    return listed, found, text


def short(name):
    return name.split(".")[-1]


def proof_status(prop, thorough=False):
    """Build Props.<prop>, audit axioms, grep for forbidden tokens.
    Returns dict(ok, obligations, discharged, problems[list of str], theorems[list])."""
    problems = []
    ok_t, msg = translate()
    if not ok_t:
        problems.append("translator rejects the current sources: " + msg)
    ok_b, log = lake_build(["KojenVerif.Props." + prop])
    if not ok_b:
        errs = [l for l in log.splitlines() if "error" in l.lower()][:12]
        problems.append("lake build KojenVerif.Props.%s failed: %s" % (prop, " | ".join(errs)))
    listed, found = [], {}
    if ok_b:
        listed, found, raw = audit(prop)
        for t in listed:
            key = t if t in found else next((k for k in found if short(k) == short(t)), None)
            if key is None:
                problems.append("theorem %s missing from the audit output" % t)
            else:
                bad = [a for a in found[key] if a not in ALLOWED_AXIOMS]
                if bad:
                    problems.append("theorem %s depends on %s" % (t, bad))
    else:
        try:
            listed = re.findall(r"^#print axioms\s+(\S+)", open(os.path.join(LEAN, "Audit", prop + ".lean")).read(), re.M)
        except OSError:
            listed = []
    hits = forbidden_tokens(lean_sources())
    if hits:
        problems.append("forbidden tokens in Lean sources: " + "; ".join(hits[:8]))
    if thorough and ok_b:
        mods = ["KojenVerif.Props." + prop]
        rc, out, err = run(["lake", "env", "leanchecker"] + mods, cwd=LEAN, timeout=3000)
        if rc != 0:
            problems.append("leanchecker rejected %s: %s" % (mods, (out + err)[-400:]))
    discharged = 0
    if ok_b:
        for t in listed:
            key = t if t in found else next((k for k in found if short(k) == short(t)), None)
            if key is not None and all(a in ALLOWED_AXIOMS for a in found[key]):
                discharged += 1
    return dict(ok=not problems, obligations=len(listed), discharged=discharged, problems=problems,
                theorems=listed, axioms={short(k): v for k, v in found.items()})


# ---- string transport (see Driver/Main.lean)

def enc(s):
    """strings travel as JSON strings; a string containing a surrogate (from surrogateescape) cannot
    be a Lean String, so it travels as {"$s": [code points]}"""
    if any(0xD800 <= ord(ch) <= 0xDFFF for ch in s):
        return {"$s": [ord(ch) for ch in s]}
    return s


def enc_deep(x):
    if isinstance(x, str):
        return enc(x)
    if isinstance(x, (list, tuple)):
        return [enc_deep(y) for y in x]
    if isinstance(x, dict):
        return {k: enc_deep(v) for k, v in x.items()}
    return x


def dec_deep(x):
    if isinstance(x, list):
        return [dec_deep(y) for y in x]
    if isinstance(x, dict):
        if len(x) == 1 and "$s" in x:
            return "".join(chr(c) for c in x["$s"])
        return {k: dec_deep(v) for k, v in x.items()}
    return x


_DRIVER_BUILT = set()


def build_driver_imports(driver):
    """the driver is interpreted against compiled modules: make sure everything it imports is built from the
    current sources (the regenerated facts may have changed since the last build)"""
    if driver in _DRIVER_BUILT:
        return
    mods = []
    with open(os.path.join(LEAN, "Driver", driver)) as f:
        for line in f:
            m = re.match(r"import\s+(KojenVerif\.\S+)", line)
            if m:
                mods.append(m.group(1))
    if mods:
        rc, out, err = run(["lake", "build"] + mods, cwd=LEAN, timeout=3000)
        if rc != 0:
            raise Infra("building the Lean driver's imports failed: " + (out + err)[-800:])
    _DRIVER_BUILT.add(driver)


def lean_batch(requests, driver="Main.lean", timeout=1800):
    """send all requests (dicts) to the Lean driver, return the list of answers"""
    if not requests:
        return []
    build_driver_imports(driver)
    data = "\n".join(json.dumps(enc_deep(r), ensure_ascii=False) for r in requests) + "\n"
    p = subprocess.run(["lake", "env", "lean", "--run", os.path.join("Driver", driver)], cwd=LEAN,
                       input=data.encode("utf-8"), capture_output=True, timeout=timeout)
    if p.returncode != 0:
        raise Infra("Lean driver failed: " + p.stderr.decode("utf-8", "replace")[-800:] + p.stdout.decode("utf-8", "replace")[-400:])
    lines = p.stdout.decode("utf-8").split("\n")   # NOT splitlines(): U+2028, \x85, \x0c ... may occur inside JSON strings
    if lines and lines[-1] == "":
        lines.pop()
    if len(lines) != len(requests):
        raise Infra("Lean driver answered %d lines for %d requests: %s" % (len(lines), len(requests), p.stderr.decode("utf-8", "replace")[-400:]))
    return [dec_deep(json.loads(l)) for l in lines]


# --------------------------------------------------------------------------- implementation side

@contextlib.contextmanager
def quiet():
    buf = io.StringIO()
    with contextlib.redirect_stdout(buf):
        yield buf


@contextlib.contextmanager
def scratch(prefix="kojenverif-"):
    d = tempfile.mkdtemp(prefix=prefix)
    try:
        yield d
    finally:
        shutil.rmtree(d, ignore_errors=True)


def read_text(path):
    """the way the (fixed) generator reads an existing output file"""
    with open(path, errors="surrogateescape") as f:
        return f.read()


def read_tree(root):
    out = {}
    for r, d, fs in os.walk(root):
        for f in fs:
            p = os.path.join(r, f)
            with open(p, "rb") as fh:
                out[os.path.relpath(p, root)] = fh.read()
    return out


def fresh_modules():
    """(re)import kojen from REPO's current working tree"""
    for k in [k for k in sys.modules if k == "kojen" or k.startswith("kojen.")]:
        del sys.modules[k]
    import warnings
    warnings.simplefilter("ignore")
    import kojen.Generate  # noqa
    return sys.modules["kojen.Generate"]


# --------------------------------------------------------------------------- verdicts

class Outcome:
    def __init__(self, prop):
        self.prop = prop
        self.evaluations = 0
        self.nontrivial = set()
        self.rule = ""
        self.samples = []
        self.corr_failures = []     # model and implementation disagree: [dict]
        self.violations = []        # the property itself fails on the implementation: [dict]
        self.known = []             # (finding id, text)
        self.stats = {}
        self.traces_validated = 0
        self.assumptions = []
        self.notes = []

    def case(self, key, nontrivial=True):
        self.evaluations += 1
        if nontrivial:
            self.nontrivial.add(key)

    def stat(self, k, n=1):
        self.stats[k] = self.stats.get(k, 0) + n


def known_findings():
    out = []
    try:
        for line in open(KNOWN):
            line = line.strip()
            m = re.match(r"finding:\s+property=(\S+)\s+id=(\S+)\s+(.*)", line)
            if m:
                out.append((m.group(1), m.group(2), m.group(3)))
    except OSError:
        pass
    return out


def write_replay(prop, payload):
    os.makedirs(REPLAY, exist_ok=True)
    path = os.path.join(REPLAY, "%s-seed%d-%d.json" % (prop, seed(), int(time.time() * 1000) % 10 ** 9))
    with open(path, "w") as f:
        json.dump(payload, f, indent=1, ensure_ascii=True, default=repr)
    return path


def jsonable(x, depth=0):
    if isinstance(x, bytes):
        return x.decode("latin-1")
    if isinstance(x, dict):
        return {str(k): jsonable(v, depth + 1) for k, v in x.items()}
    if isinstance(x, (list, tuple, set)):
        return [jsonable(v, depth + 1) for v in x]
    if isinstance(x, (str, int, float, bool)) or x is None:
        return x
    return repr(x)


def finish(prop, tier, proof, oc, t0, level="proof", checker_cmd=None, trusted=None, search=None):
    """Write evidence, print verdict lines, return the exit code."""
    known_ids = {(p, i) for p, i, _ in known_findings()}
    violations = [v for v in oc.violations if (prop, v.get("finding")) not in known_ids]
    for v in oc.violations:
        if (prop, v.get("finding")) in known_ids:
            oc.known.append((v.get("finding"), v.get("what", "")))
    broken = list(proof["problems"]) + ["correspondence: " + c.get("what", "?") for c in oc.corr_failures]
    exit_code = 0
    lines = []
    seen = set()
    for fid, text in oc.known:
        if fid not in seen:
            seen.add(fid)
            lines.append("KNOWN-FINDING: property=%s %s %s" % (prop, fid, text))
    if violations:
        v = violations[0]
        path = write_replay(prop, jsonable(dict(property=prop, kind="failing-input", broken=broken, violation=v,
                                                all_violations=violations[:10], seed=seed(), tier=tier)))
        lines.append("VIOLATION property=%s replay=%s" % (prop, path))
        exit_code = 1
    elif broken:
        found = None
        if search is not None:
            found = search()
        if found:
            path = write_replay(prop, jsonable(dict(property=prop, kind="failing-input-after-broken-tie", broken=broken,
                                                    violation=found, seed=seed(), tier=tier)))
            lines.append("VIOLATION property=%s replay=%s" % (prop, path))
        else:
            path = write_replay(prop, jsonable(dict(property=prop, kind="no-failing-input-found", broken=broken,
                                                    correspondence_failures=oc.corr_failures[:10], seed=seed(), tier=tier)))
            lines.append("VIOLATION property=%s replay=%s no-failing-input-found" % (prop, path))
        exit_code = 1
    cov = dict(
        obligations=max(proof["obligations"], 1) if proof["obligations"] else 0,
        discharged=proof["discharged"],
        checker_cmd=checker_cmd or ("cd lean && lake build KojenVerif.Props.%s && lake env lean Audit/%s.lean" % (prop, prop)),
        trusted_base=trusted or [],
        theorems=proof["theorems"],
        axioms_used=proof.get("axioms", {}),
        proof_problems=proof["problems"],
        evaluations=oc.evaluations,
        distinct_nontrivial=len(oc.nontrivial),
        rule=oc.rule,
        samples=jsonable(oc.samples[:6]) or ["(no sample recorded)"],
        traces_validated_against_impl=oc.traces_validated,
        correspondence_failures=len(oc.corr_failures),
        distribution=oc.stats,
        notes=oc.notes,
        known_findings_seen=[k for k, _ in oc.known],
    )
    ev = dict(property_id=prop, tier=tier, seed=seed(), level=level, coverage=cov,
              assumptions=oc.assumptions, wall_s=round(time.time() - t0, 2), violations=len(violations) + (1 if (broken and not violations) else 0))
    os.makedirs(EVID, exist_ok=True)
    with open(os.path.join(EVID, prop + ".json"), "w") as f:
        json.dump(ev, f, indent=1, default=repr)
    # the verdict goes to the process's real standard output: `quiet()` swaps sys.stdout, and a thread of the code under
    # test that is still blocked inside it (a deadlock is one of the things C11 looks for) would swallow the lines
    out = sys.__stdout__
    for l in lines:
        print(l, file=out)
    if exit_code == 0:
        print("OK property=%s tier=%s obligations=%d discharged=%d evaluations=%d nontrivial=%d wall=%.1fs" % (
            prop, tier, proof["obligations"], proof["discharged"], oc.evaluations, len(oc.nontrivial), time.time() - t0), file=out)
    out.flush()
    return exit_code
