"""Function-level correspondence of Model/Engine with kojen.cgen helpers."""
import sys

import common
import enggen
from common import lean_batch


def cases(r, n):
    cg = sys.modules["kojen.cgen"]
    reqs, exps = [], []
    for i in range(n):
        a = enggen.rand_engine_string(r)
        k = r.randrange(12)
        if k == 0:
            reqs.append(dict(cmd="engfn", fn="tagBodies", a=a)); exps.append(cg.tag_pattern.findall(a))
        elif k == 1:
            tag = "<<<" + r.choice(enggen.KW) + ">>>"
            reqs.append(dict(cmd="engfn", fn="hasSpecificTag", a=a, tag=tag)); exps.append(bool(cg.hasSpecificTag(a, tag)))
        elif k == 2:
            d = r.choice(["=", " "])
            reqs.append(dict(cmd="engfn", fn="hasDefault", a=a, delim=d)); exps.append(bool(cg.hasDefault(a, d)))
        elif k == 3:
            d = r.choice(["=", " "])
            reqs.append(dict(cmd="engfn", fn="extractDefaultAndTag", a=a, delim=d)); exps.append(cg.extractDefaultAndTag(a, d))
        elif k == 4:
            reqs.append(dict(cmd="engfn", fn="removeDefault", a=a, delim="=")); exps.append(cg.removeDefault(a))
        elif k == 5:
            keys = r.sample(["Tag", "TagA", "TagB", "Verbose", "X"], r.randint(0, 3))
            vals = [r.choice(["1", "", "abc", "a,b", "0", "x y"]) for _ in keys]
            py = {kk: vv for kk, vv in zip(keys, vals)}
            reqs.append(dict(cmd="engfn", fn="replaceUserTags", a=a, dict=[[kk, vv] for kk, vv in zip(keys, vals)])); exps.append(cg.replaceUserTags(a, py))
        elif k == 6:
            b = r.choice(["a,b,c", "3", "", "x"])
            reqs.append(dict(cmd="engfn", fn="replaceDefault", a=a, b=b)); exps.append(cg.replaceDefault(a, b))
        elif k == 7:
            nm = enggen.rand_name(r)
            reqs.append(dict(cmd="engfn", fn="snake", a=nm)); exps.append(cg.snake_case(nm))
        elif k == 8:
            nm = enggen.rand_name(r)
            reqs.append(dict(cmd="engfn", fn="camelSmall", a=nm)); exps.append(cg.camel_case_small(nm))
        elif k == 9:
            lines = [r.choice(["\n", " \n", "  \n", "x\n", "\t\n", "", "y", "\n"]) for _ in range(r.randint(0, 8))]
            g = cg.CGenerator.__new__(cg.CGenerator)
            reqs.append(dict(cmd="engfn", fn="filterNewlines", lines=list(lines))); exps.append(g.filter_multiple_newlines(list(lines)))
        else:
            # a FOR block
            param = r.choice(["a,b", " fee, fie ,foe ", "3", "0", " 2 ", ",x,", "x", "", "1,2", "a,,b", "<<<Tag=a,b>>>"])
            body = [enggen.rand_engine_string(r) if r.random() < 0.4 else r.choice(["<<<FIRST>>>\n", "  v_<<<EACH>>> = <<<NUM>>>;\n", "<<<each>>><<<ALPH>>>\n", "<<<LAST>>>\n", "plain\n", "<<<FIRST>>> and <<<LAST>>>\n"]) for _ in range(r.randint(0, 4))]
            lines = ["pre\n", "<<<FOR_BEGIN" + ("=" + param if param or r.random() < 0.5 else "") + ">>>\n"] + body + ["<<<FOR_END>>>\n", "post\n"]
            g = cg.CGenerator.__new__(cg.CGenerator)
            try:
                exp = cg.PairExpander("<<<FOR_BEGIN>>>", "<<<FOR_END>>>").Expand(list(lines), g.innerexpand_for_loop)
            except Exception:
                exp = None
            reqs.append(dict(cmd="engfn", fn="doFor", lines=lines)); exps.append(exp)
    return reqs, exps


def run(r, n, oc):
    reqs, exps = cases(r, n)
    for q, e, a in zip(reqs, exps, lean_batch(reqs)):
        oc.traces_validated += 1
        oc.stat("engfn_" + q["fn"])
        got = a.get("r") if "error" not in a else a
        if isinstance(e, tuple):
            e = list(e)
        if got != e:
            oc.corr_failures.append(dict(what="Model/Engine.%s differs from kojen.cgen" % q["fn"], input=q, model=got, impl=e))
