"""Generators of kojen models (transition tables, event / protocol interfaces), user text and
output-directory spellings, and runners for the real generators that capture the freshly
expanded code model right before the preservation pass."""
import contextlib
import copy
import json
import os
import re
import string

from common import REPO, fresh_modules, quiet

WORDS = ["Stop", "Open", "Play", "Pause", "Idle", "Run", "Load", "Eject", "Seek", "Wait", "Init", "Done", "Red",
         "Green", "Orange", "Up", "Down", "Left", "Right", "Ready", "Busy", "Error", "Reset", "Start", "End",
         "Alpha", "Beta", "Gamma", "Delta", "Next", "Prev", "Track", "Disc", "Drive", "Door", "Timer", "Tick",
         "Test", "Foo", "Bar", "Baz", "Qux", "Zed", "Controller", "Machine",
         # words the generators give a meaning to when they stand alone: as part of a name they are just letters
         "None", "none", "Null", "True",
         # names that contain the word of a template tag (TransactionName contains actionName, SafeguardName guardName,
         # PreventName eventName, EstateName stateName), names that begin like `none`, names that are a part of `none`
         "TransactionName", "SafeguardName", "PreventName", "EstateName", "NonEmpty", "NoNetwork", "NoneLeft", "On", "No", "One",
         "Q", "A1", "V2x", "ExtraordinarilyLongIdentifierForTheElementInQuestion",
         # not ASCII (letters without upper / lower case, so that every case variant of the engine is defined the same way
         # by Python and by the model): two such names agree in all their ASCII characters
         "\u72b6\u614b", "\u5f85\u6a5f", "\u958b\u59cb", "\u505c\u6b62"]

# the harness used to give every kind of name its own fixed prefix (State..., Event..., On..., Guard...); real tables do not
PREFIXES = {"State": ["State", "State", "St", ""], "Event": ["Event", "Event", "Ev", ""], "On": ["On", "On", "Do", "", ""],
            "Guard": ["Guard", "Guard", "Has", "Can", ""]}

BACKENDS = ["cpp", "cs", "py"]
PRIM = {
    "cpp": ["uint8_t", "uint16_t", "uint32_t", "uint64_t", "int8_t", "int16_t", "int32_t", "int64_t", "float", "double", "bool"],
    "cs": ["byte", "ushort", "uint", "ulong", "sbyte", "short", "int", "long", "float", "double", "bool"],
    "py": ["int", "float", "bool"],
}
USER_TAG_RE = re.compile(r"\{\{\{(USER_[\w\-]*)")
PREFIX = "{{{USER_"


def camel(r, n=None):
    n = n or r.choice([1, 1, 2, 2, 3])
    w = "".join(r.choice(WORDS) for _ in range(n))
    # the keyword words only ever occur inside longer names: a namespace or class called just `none` / `True`
    # is a reserved word of the target language or of boost::sml, not an input of the properties
    return ("X" + w) if w.lower() in ("none", "null", "true") else w


_EATEN = None
_EATEN_END = None


def eaten_at_end():
    """identifier characters the current CleanUpLine removes when they end a tag name (none on the pinned tree)"""
    global _EATEN_END
    if _EATEN_END is None:
        _EATEN_END = []
        try:
            import importlib
            preservative = importlib.import_module("kojen.preservative")
            base = preservative.CleanUpLine("{{{USER_QQ}}}")
            for c in string.ascii_letters + string.digits + "_":
                for probe, want in (("{{{USER_QQ" + c + "}}}", base.replace("QQ", "QQ" + c)), ("{{{USER_" + c + "QQ}}}", base.replace("QQ", c + "QQ"))):
                    if preservative.CleanUpLine(probe) != want and c not in _EATEN_END:
                        _EATEN_END.append(c)
        except Exception:
            _EATEN_END = []
    return _EATEN_END


def eaten_chars():
    """identifier characters the *current* CleanUpLine removes from, or changes in, a tag key (none on the pinned
    tree).  Probed from the real code so that the search for a failing input is drawn towards names that the tag
    normalisation could merge."""
    global _EATEN
    if _EATEN is None:
        _EATEN = []
        try:
            import importlib
            preservative = importlib.import_module("kojen.preservative")
            for c in string.ascii_letters + string.digits + "_":
                probe = "{{{USER_Q" + c + "Q}}}"
                if preservative.CleanUpLine(probe) != preservative.CleanUpLine("{{{USER_QQ}}}").replace("QQ", "Q" + c + "Q"):
                    _EATEN.append(c)
        except Exception:
            _EATEN = []
    return _EATEN


def near_miss(r, w):
    """a name one edit away from w (insert / delete / substitute one character after the first)"""
    pool = eaten_chars() * 8 + list("tnseTNSE_01")
    ends = eaten_at_end()
    if ends and r.random() < 0.6:
        # names that differ only in what the normalisation strips from the end of a tag name
        return w + "".join(r.choice(ends) for _ in range(r.randint(1, 2))) if r.random() < 0.7 or len(w) < 3 else w.rstrip("".join(ends)) or w
    i = r.randrange(1, len(w) + 1)
    k = r.randrange(3)
    if k == 0 or len(w) < 3:
        return w[:i] + r.choice(pool) + w[i:]
    i = min(i, len(w) - 1)
    if k == 1:
        return w[:i] + w[i + 1:]
    return w[:i] + r.choice(pool) + w[i + 1:]


def names(r, kind, n, taken):
    out = []
    while len(out) < n:
        kind_prefix = r.choice(PREFIXES.get(kind, [kind]))
        same = sorted(t for t in taken if isinstance(t, str) and t.startswith(kind_prefix) and len(t) > len(kind_prefix))
        if same and r.random() < 0.25:
            w = near_miss(r, r.choice(same))
            if not re.fullmatch(r"[A-Za-z][A-Za-z0-9_]*", w) or not w.startswith(kind_prefix):
                continue
        else:
            w = kind_prefix + camel(r)
        if w[:1].islower():
            # an element's name with a small first letter is its own "small first letter" variant - the name the templates
            # give the member / instance that belongs to it (self.<guardName> next to def <GUARDNAME>): the tool's naming
            # convention is UpperCamelCase
            w = w[:1].upper() + w[1:]
        # (two names that differ only in the case of their first letter - NoneEject / noneEject - are one identifier for the
        #  back ends: every element also appears with a small first letter, as instance or member name)
        small = lambda x: x[:1].lower() + x[1:]
        if w not in taken and w not in ("None", "True", "False") and small(w) not in {small(t) for t in taken if isinstance(t, str)}:
            taken.add(w)
            out.append(w)
    return out


ADJECTIVES = ["Busy", "Running", "Stopped", "Empty", "Active", "Alive", "Valid", "Ready", "Done", "Open", "Closed", "Connected", "Idle", "Full", "Started", "Enabled"]


SHORT_NAMES = ["On", "No", "One", "Ne", "Non", "N", "O", "E"]      # parts of the word `none`


def with_state_named(model, name, target=False):
    """the model with its first state - or, with `target`, a state some row leads to - renamed (everywhere in the table)"""
    m = copy.deepcopy(model)
    old = m["tt"][0][0]
    if target:
        tg = [row[2] for row in m["tt"] if row[2] and row[2].lower() != "none"]
        old = tg[0] if tg else old
    if any(name in row for row in m["tt"]):
        return m
    for row in m["tt"]:
        for c in (0, 2):
            if row[c] == old:
                row[c] = name
    return m


def with_non_ascii_twins(r, model):
    """two names of one role that agree in every ASCII character and differ in the others (Door\u72b6\u614b / Door\u5f85\u6a5f):
    their tags must stay two tags"""
    m = copy.deepcopy(model)
    cols = r.choice([(0, 2), (3,), (4,)])
    present = sorted({row[c] for row in m["tt"] for c in cols if row[c] and row[c].lower() != "none"})
    stem = r.choice(["Door", "Phase", "X"])
    twins = [stem + "\u72b6\u614b", stem + "\u5f85\u6a5f"]
    if len(present) >= 2:
        a, b = r.sample(present, 2)
        ren = {a: twins[0], b: twins[1]}
        for row in m["tt"]:
            for c in cols:
                row[c] = ren.get(row[c], row[c])
    elif present:
        for row in m["tt"]:
            for c in cols:
                if row[c] == present[0]:
                    row[c] = twins[0]
        m["tt"].append([m["tt"][0][0], m["tt"][0][1]] + [twins[1] if c_ in cols else "None" for c_ in (2, 3, 4)])
    return m


def rand_table(r, big=False):
    """a well-formed transition table (rows of [start, event, next, action, guard])"""
    taken = set()
    ns = r.randint(1, 6 if big else 4)
    ne = r.randint(1, 5 if big else 3)
    na = r.randint(1, 5 if big else 3)
    ng = r.randint(0, 4 if big else 3)
    states = names(r, "State", ns, taken)
    events = names(r, "Event", ne, taken)
    actions = names(r, "On", na, taken)
    guards = names(r, "Guard", ng, taken)
    if r.random() < 0.3:
        # a state called by a bare adjective: its query is Is<State>() - IsBusy(), IsRunning(), IsEmpty() ... names a
        # template author is tempted to use for helpers of his own
        adj = r.choice(ADJECTIVES)
        if adj not in taken:
            taken.add(adj)
            states[r.randrange(len(states))] = adj
    nrows = r.randint(1, 12 if big else 7)
    rows = []
    none_sp = lambda: r.choice(["None", "None", "none", ""])
    # with some probability keep a state that only ever appears as a target
    target_only = r.random() < 0.3 and ns >= 2
    sources = states[:-1] if target_only else states
    for i in range(nrows):
        s = sources[0] if i == 0 else r.choice(sources)
        e = r.choice(events)
        nx = r.choice(states + [none_sp()] + ([s] if r.random() < 0.2 else []))
        a = r.choice(actions + [none_sp()])
        g = r.choice(guards + [none_sp(), none_sp()]) if guards else none_sp()
        rows.append([s, e, nx, a, g])
        if r.random() < 0.15:
            rows.append(list(rows[-1]))  # repeated row
    if target_only and not any(row[2] == states[-1] for row in rows):
        rows.append([sources[0], r.choice(events), states[-1], r.choice(actions), none_sp()])
    if r.random() < 0.2:
        # several states that are only ever a target (final states)
        for fs in names(r, "State", r.choice([2, 2, 3]), taken):
            rows.append([r.choice(sources), r.choice(events), fs, r.choice(actions + [none_sp()]), none_sp()])
    if r.random() < 0.15:
        # names whose concatenations coincide: (OnGo, EventNowX) / (OnGoEvent, NowX), and a guard named like a static tag
        w = camel(r, 1)
        rows.append([r.choice(sources), "EventNow" + w, r.choice(states), "OnGo", none_sp()])
        rows.append([r.choice(sources), "Now" + w, none_sp(), "OnGoEvent", r.choice(["None", "Guard" + w])])
    if r.random() < 0.15:
        # (state, event) pairs whose concatenations coincide: (Door, OpenRequest) / (DoorOpen, Request); the first pair fires
        # unconditionally, the second must still have its own rows
        w1, w2, w3 = "State" + camel(r, 1), camel(r, 1), camel(r, 1)
        if len({w1, w1 + w2, w2 + w3, w3} | taken) == len(taken) + 4:
            rows.append([sources[0], w2 + w3, w1, none_sp(), none_sp()])        # (reachable from the initial state)
            rows.append([w1, w2 + w3, w1 + w2, r.choice(actions + [none_sp()]), none_sp()])
            rows.append([w1 + w2, w3, r.choice([w1, none_sp()]), r.choice(actions), r.choice(guards + [none_sp()]) if guards else none_sp()])
    return rows


def table_events(tt):
    out = []
    for row in tt:
        if row[1] and row[1].lower() != "none" and row[1] not in out:
            out.append(row[1])
    return out


def rand_iface_spec(r, tt, backend):
    """events interface description: {'structs': [(name, [(member, type, default)])], 'usertags': {..}}"""
    evs = table_events(tt)
    structs = []
    for e in evs:
        if r.random() < 0.5:
            nm = r.randint(0, 3)
            mem = []
            for i in range(nm):
                t = r.choice(PRIM[backend])
                d = None
                if r.random() < 0.5:
                    d = "true" if t == "bool" else str(r.randint(0, 9))
                    if backend == "py" and t == "bool":
                        d = "True"
                mem.append(("m%s%d" % (camel(r, 1), i), t, d))
            structs.append((e, mem))
    # stateless extra events: interface structs no transition uses (appended to the machine's events after the table's)
    taken = set(evs)
    for _ in range(r.choice([0, 0, 0, 0, 1, 1, 2, 3, 4])):
        nm = "Event" + camel(r) + r.choice(["Extra", "Tick", "", "Info"])
        if nm not in taken:
            taken.add(nm)
            structs.append((nm, []))
    enums = []
    if r.random() < 0.3:
        # enumerations of the interface: declared through the <<<ENUMS>>> tag - a global tag with a multi-line value
        for k in range(r.randint(1, 2)):
            en = "E" + camel(r) + str(k)
            enums.append((en, [(en.upper() + "_%d" % j, j if r.random() < 0.7 else 10 * j + 1) for j in range(r.randint(1, 3))]))
    usertags = {}
    if r.random() < 0.4:
        usertags["StateMachineThread"] = r.choice([0, 1])
    if r.random() < 0.3:
        usertags["Verbose"] = r.choice([0, 1])
    return dict(structs=structs, usertags=usertags, enums=enums)


def build_iface(kt, spec, name="IEvents"):
    itf = kt.Interface(name)
    for sname, mem in spec["structs"]:
        s = kt.Struct(sname)
        for m, t, d in mem:
            s.AddType(m, t, d)
        itf.AddStruct(s)
    for en, lits in spec.get("enums", []):
        e = kt.Enum(en)
        for ln, lv in lits:
            e.Add(ln, lv)
        itf.AddEnum(e)
    for k, v in spec.get("usertags", {}).items():
        itf.AddUserTag(k, v)
    return itf


def rand_sm_model(r, backend=None, big=False):
    backend = backend or r.choice(BACKENDS)
    tt = rand_table(r, big)
    name = r.choice(["CDPlayer", "Foo", "IFoo", "Test", "TestX", "X", camel(r, 2), camel(r, 1) + "Test"])
    m = dict(kind="sm", backend=backend, tt=tt, iface=rand_iface_spec(r, tt, backend), name=name,
             ns=r.choice(["NS", "My::Space", camel(r, 1)]), dclspc=r.choice(["", "", "MY_EXPORT"]))
    if backend == "cpp" and r.random() < 0.3:
        # the second shipped C++ template set (boost::msm flavour), given the way a user gives it: as template directory
        m["templatedir"] = os.path.join(REPO, "kojen", "statemachine_templates_pc_boost")
    return m


def share_a_name(r, m, pair=None):
    """the state-machine model with one name used in two roles (an event and a guard called DoorClosed, a state and an
    action called Reset, ...): the roles live in different name spaces of the generated code, the USER tags of the
    shipped templates must stay apart all the same.  (Not every such model is a valid program in every language: used
    where the generated text, not its behaviour, is examined.)"""
    roles = {"state": (0, 2), "event": (1,), "action": (3,), "guard": (4,)}
    m = copy.deepcopy(m)
    tt = m["tt"]
    a, b = pair or r.sample(sorted(roles), 2)
    na = sorted({row[c] for row in tt for c in roles[a] if row[c] and row[c].lower() != "none"})
    nb = sorted({row[c] for row in tt for c in roles[b] if row[c] and row[c].lower() != "none"})
    if not na and not nb:
        return m
    if not na:
        a, b, na, nb = b, a, nb, na
    x = r.choice(na)
    if nb:
        y = r.choice(nb)
        for row in tt:
            for c in roles[b]:
                if row[c] == y:
                    row[c] = x
    else:
        y = None
        r.choice(tt)[roles[b][0]] = x        # the table has no name in that role yet: the shared one is its first
    seen = set()
    structs = []
    for sname, mem in m["iface"]["structs"]:
        sname = x if sname == y else sname
        if sname not in seen:
            seen.add(sname)
            structs.append((sname, mem))
    m["iface"]["structs"] = structs
    return m


# ---- protocol interfaces

PROTO_PRIM = ["uint8", "uint16", "uint32", "uint64", "int8", "int16", "int32", "int64", "float", "double", "bool"]


def rand_proto_model(r, big=False):
    taken = set()
    nst = r.randint(0, 3 if big else 2)
    structs = []
    for i in range(nst):
        sn = "Payload" + names(r, "", 1, taken)[0]
        mem = []
        for j in range(r.randint(1, 4)):
            if structs and r.random() < 0.3:
                mem.append(("s%d" % j, "struct:" + r.choice(structs)[0], None))
            else:
                t = r.choice(PROTO_PRIM)
                d = (r.choice(["true", "false"]) if t == "bool" else str(r.randint(0, 100))) if r.random() < 0.6 else None
                mem.append(("m%d" % j, t, d))
        structs.append((sn, mem))
    msgs = []
    ids = r.sample(list(range(1, 200)) + [0, 255, 256, 257, 65535, 65534, 1000], r.randint(1, 5 if big else 3))
    for i, mid in enumerate(ids):
        mn = "Msg" + names(r, "", 1, taken)[0]
        mem = []
        for j in range(r.randint(0, 3)):
            if structs and r.random() < 0.35:
                mem.append(("s%d" % j, "struct:" + r.choice(structs)[0], None))
            else:
                t = r.choice(PROTO_PRIM)
                d = (r.choice(["true", "false"]) if t == "bool" else str(r.randint(0, 100))) if r.random() < 0.6 else None
                mem.append(("m%d" % j, t, d))
        msgs.append((mn, mid, mem))
    enums = []
    if r.random() < 0.4:
        # enumerations of the interface: the shipped TEMPLATE.h declares them through an indented <<<ENUMS>>> (multi-line value)
        for k in range(r.randint(1, 2)):
            en = "E" + names(r, "", 1, taken)[0]
            enums.append((en, [(en.upper() + "_%d" % j, j if r.random() < 0.7 else 16 * j + 1) for j in range(r.randint(1, 3))]))
    redefined = {}
    if msgs and r.random() < 0.25:
        mn_, mid_, _ = r.choice(msgs)
        free = [x for x in range(1, 250) if x not in ids]
        redefined[mn_] = r.choice(free)
    return dict(kind="proto", backend="proto", structs=structs, msgs=msgs, enums=enums, redefined=redefined, preamble=r.choice([0xDEAD, 0xBEEF, 0xAAAA, 0x0100]),
                name=r.choice(["ExampleIF", "Foo", "IFoo", camel(r, 2)]), ns=r.choice(["ExampleIO", "NS"]))


@contextlib.contextmanager
def scratch_dir():
    import shutil
    import tempfile
    d = tempfile.mkdtemp(prefix="kojenverif-")
    try:
        yield d
    finally:
        shutil.rmtree(d, ignore_errors=True)


def build_proto_iface(kt, m, want_structs=False):
    itf = kt.Interface("I" + m["name"], m["preamble"])
    sobj = {}
    for sn, mem in m["structs"]:
        s = kt.Struct(sn)
        for mn, t, d in mem:
            if t.startswith("struct:"):
                s.AddStruct(mn, sobj[t[7:]])
            else:
                s.AddType(mn, t, d)
        sobj[sn] = s
        itf.AddStruct(s)
    for en, lits in m.get("enums", []):
        e = kt.Enum(en)
        for ln, lv in lits:
            e.Add(ln, lv)
        itf.AddEnum(e)
    for dn, dv in m.get("defines", []):
        itf.AddHashDefine(dn, dv)
    for mn, mid, mem in m["msgs"]:
        if mn in m.get("redefined", {}):
            # the script first defined this message under another id (common messages, then the product variant moves one):
            # the later definition is the one that counts
            itf.AddMessage(kt.Message(mn, m["redefined"][mn]))
        msg = kt.Message(mn, mid)
        for fn, t, d in mem:
            if t.startswith("struct:"):
                msg.AddStruct(fn, sobj[t[7:]])
            else:
                msg.AddType(fn, t, d)
        itf.AddMessage(msg)
    if want_structs:
        return itf, sobj
    return itf


# ---- UML (shipped project file; mutations live in vppmut.py)

BLOB = os.path.join(REPO, "kojen", "test", "blob.xml")


def rand_uml_model(r):
    m = dict(kind="uml", backend=r.choice(["uml", "umlcs"]), project=BLOB,
             diagram=r.choice(["TestClassDiagram", "ProtocolStack"]), ns_folders=r.choice([False, True]),
             dclspc=r.choice(["", "MY_EXPORT"]))
    if r.random() < 0.6:
        # a synthesised class diagram in place of what the SQLite extraction delivers (see umlsynth)
        import umlsynth
        m["synth"] = umlsynth.rand_spec(r)
        m["diagram"] = m["synth"]["diagram"]
    return m


AUTHORS = ["auth", "auth", "A. U. Thor", "J\u00f6rg M\u00fcller", ""]
GROUPS = ["grp", "grp", "", "Drive Control 2"]
BRIEFS = ["brief", "brief", "Does things.", "", "\u00dcbersicht (caf\u00e9)"]


def with_meta(r, m):
    """author / group / brief as a user gives them: with blanks, empty, not ASCII (the harness used to pin all three)"""
    if r.random() < 0.4:
        m = dict(m, author=r.choice(AUTHORS), group=r.choice(GROUPS), brief=r.choice(BRIEFS))
    return m


def rand_model(r, kinds=("sm", "sm", "sm", "proto", "uml"), big=False):
    return with_meta(r, _rand_model(r, kinds, big))


def _rand_model(r, kinds=("sm", "sm", "sm", "proto", "uml"), big=False):
    k = r.choice(kinds)
    if k == "sm":
        return rand_sm_model(r, big=big)
    if k == "proto":
        return rand_proto_model(r, big)
    return rand_uml_model(r)


# ---- running the real generators

class Runner:
    """Calls the public entry points of the kojen found in REPO's working tree and records,
    per call, the code model handed to the preservation pass."""

    def __init__(self):
        self.G = fresh_modules()
        import sys
        self.kt = sys.modules["kojen.kojentypes"]
        self.cgen = sys.modules["kojen.cgen"]
        self.captured = []
        self.capture_ok = False
        # None: every generation builds its events / protocol interface anew.  A dict: the interface object of an unchanged
        # description is built once and handed to every later generation - the way a user's script holds one Interface
        self.itf_cache = None
        self._patch()

    def _patch(self):
        cg = self.cgen.CGenerator
        if not hasattr(cg, "preserve_usercode_in_files"):
            return
        orig = cg.preserve_usercode_in_files
        outer = self

        def wrapper(self_, codemodel, *a, **kw):
            try:
                outer.captured.append([(k, list(v)) for k, v in codemodel.filenames_to_lines.items()])
            except Exception:
                pass
            return orig(self_, codemodel, *a, **kw)

        cg.preserve_usercode_in_files = wrapper
        self.capture_ok = True
        self.captured_out = []
        if hasattr(cg, "createoutput"):
            orig_co = cg.createoutput

            def co_wrapper(self_, filenames_to_lines, *a, **kw):
                try:
                    outer.captured_out.append([(k, list(v)) for k, v in filenames_to_lines.items()])
                except Exception:
                    pass
                return orig_co(self_, filenames_to_lines, *a, **kw)

            cg.createoutput = co_wrapper

    def generate(self, model, outdir, copy_other=None, tt_obj=None):
        """returns (return value, captured fresh code model or None)"""
        G = self.G
        if copy_other is None:
            copy_other = bool(model.get("copy_other", False))      # kojen's own default is True: the support sources are copied next to the output
        self.captured = []
        self.captured_out = []
        self.tt_obj = tt_obj        # the caller's own table list, handed over as it is (a script that generates several back ends from one table)
        try:
            return self._generate(G, model, outdir, copy_other)
        except Exception as e:      # noqa
            if not hasattr(e, "kojen_model"):
                e.kojen_model = model       # (vcheck reports a generator that raises on a model as a violation with this input)
            raise

    def _generate(self, G, model, outdir, copy_other):
        with quiet():
            if model["kind"] == "sm":
                if self.itf_cache is not None:
                    key = json.dumps(model["iface"], sort_keys=True, default=str)
                    if key not in self.itf_cache:
                        # a description that only lost structs: the user's script removes them from the object it holds
                        # (Interface is an ordered dictionary: pop is its documented way to remove an entry)
                        prev = self.itf_cache.get("__last__")
                        evolved = None
                        if prev is not None:
                            pspec, pobj = prev
                            old_names = [s_[0] for s_ in pspec["structs"]]
                            new_names = [s_[0] for s_ in model["iface"]["structs"]]
                            rest = dict(pspec, structs=None) == dict(model["iface"], structs=None)
                            kept = [s_ for s_ in pspec["structs"] if s_[0] in new_names]
                            if rest and len(new_names) < len(old_names) and json.dumps(kept, default=str) == json.dumps(model["iface"]["structs"], default=str):
                                for gone in [n_ for n_ in old_names if n_ not in new_names]:
                                    pobj.pop(gone)
                                evolved = pobj
                        self.itf_cache[key] = evolved if evolved is not None else build_iface(self.kt, model["iface"])
                    itf = self.itf_cache[key]
                    self.itf_cache["__last__"] = (copy.deepcopy(model["iface"]), itf)
                else:
                    itf = build_iface(self.kt, model["iface"])
                fn = {"cpp": G.StateMachine, "cs": G.StateMachine_CSHARP, "py": G.StateMachine_PYTHON}[model["backend"]]
                ret = fn(outdir, self.tt_obj if self.tt_obj is not None else copy.deepcopy(model["tt"]), itf, model["ns"], model["name"], model.get("dclspc", ""),
                         model.get("author", "auth"), model.get("group", "grp"), model.get("brief", "brief"), model.get("templatedir", ""), "", copy_other)
            elif model["kind"] == "proto":
                grow = model.get("grown_struct")
                if grow:
                    # the script's interface had this struct one member shorter when it was generated first; the member was
                    # then added to the very same Struct object (which other structs and messages contain), and the
                    # interface generated again
                    sn_, = [grow]
                    older = copy.deepcopy(model)
                    older["structs"] = [(n_, (mem_[:-1] if n_ == sn_ else mem_)) for n_, mem_ in model["structs"]]
                    older.pop("grown_struct")
                    itf, sobj = build_proto_iface(self.kt, older, want_structs=True)
                    with scratch_dir() as warm:
                        G.Protocol(os.path.join(warm, "o"), itf, model["ns"], model["name"], "", "auth", "grp", "brief", model.get("templatedir", ""), "", False)
                    mn_, t_, d_ = dict(model["structs"])[sn_][-1]
                    if t_.startswith("struct:"):
                        sobj[sn_].AddStruct(mn_, sobj[t_[7:]])
                    else:
                        sobj[sn_].AddType(mn_, t_, d_)
                    self.captured = []
                else:
                    itf = build_proto_iface(self.kt, model)
                ret = G.Protocol(outdir, itf, model["ns"], model["name"], "", model.get("author", "auth"), model.get("group", "grp"), model.get("brief", "brief"), model.get("templatedir", ""), "", copy_other)
            elif model["kind"] == "uml":
                fn = G.UML if model["backend"] == "uml" else G.UML_CSHARP
                import umlsynth
                with (umlsynth.installed(model["synth"]) if model.get("synth") else contextlib.nullcontext()):
                    ret = fn(outdir, model["project"], model["diagram"], model.get("dclspc", ""), model.get("author", "auth"), model.get("group", "grp"), model.get("brief", "brief"),
                             model.get("ns_folders", False), "")
            else:
                raise ValueError(model["kind"])
        cap = self.captured[-1] if len(self.captured) == 1 else None
        return ret, cap


# ---- user text

def rand_user_line(r):
    kind = r.randrange(14)
    ind = r.choice(["", "    ", "\t", "  \t ", "        "])
    if kind == 0:
        return "\n"
    if kind == 1:
        return ind + "\n"
    if kind == 2:
        return ind + "<<<%s>>>\n" % r.choice(["X", "IF x", "STATENAME", "ENDIF", "FOR_BEGIN=a,b", "EACH"])
    if kind == 3:
        return ind + r.choice(["/*", "//", "#", "'''", "*/", "///"]) + " " + camel(r, 2) + "\n"
    if kind == 4:
        return ind + "s = \"café 中文 ß\";\n"
    if kind == 5:
        return ind + "x" * r.choice([200, 3000]) + "\n"
    if kind == 6:
        return ind + "}}} USER_ {{ {USER %s\n" % camel(r, 1)
    if kind == 7:
        return ind + "a\tb\t\tc   \n"
    if kind == 8:
        return ind + "if (a < b && c > d) { return %d; }   \n" % r.randint(0, 99)
    if kind == 9:
        return ind + "\\t literal \\n backslashes \\\n"
    if kind == 10:
        return ind + "// USER_HEADER {{USER_ }}}\n"
    if kind == 12:
        # characters str.splitlines() treats as line boundaries but file iteration does not
        return ind + "page" + r.choice(["\x0c", "\x0b", "\x1c", "\x1d", "\x1e", "\x85", "\u2028", "\u2029"]) + "break " + camel(r, 1) + "\n"
    if kind == 11:
        # cleans to a plausible tag key without containing the prefix itself
        return ind + "/// {{{ USER_%s }}}\n" % r.choice(["HEADER", "IMPORTS", "LOCALS", "INCLUDES", "PUBLIC_MEMBERS"])
    return ind + "%s = %s(%d);\n" % (camel(r, 1).lower(), camel(r, 1), r.randint(0, 999))


def rand_user_body(r, marker=None):
    if marker is None and r.random() < 0.12:
        return []          # the user deleted whatever the template had put between the tags
    n = r.choice([1, 1, 2, 3, 5])
    lines = [rand_user_line(r) for _ in range(n)]
    if marker:
        lines.insert(r.randrange(len(lines) + 1), "    // MARK:%s\n" % marker)
    return lines


_NL_RE = re.compile(r"[^\n]*\n|[^\n]+")


def split_nl(text):
    """split after every "\\n" only (what text-mode file iteration does once newlines are
    translated); unlike str.splitlines this does not split at \\x0b, \\x0c, U+2028, ..."""
    return _NL_RE.findall(text)


def tag_positions(text):
    """[(line index of opening tag, line index of closing tag, name)] by the documented
    convention: consecutive lines carrying the prefix pair up"""
    lines = split_nl(text)
    out = []
    open_i = None
    for i, l in enumerate(lines):
        if PREFIX in l:
            if open_i is None:
                open_i = i
            else:
                m = USER_TAG_RE.search(lines[open_i])
                out.append((open_i, i, m.group(1) if m else lines[open_i].strip()))
                open_i = None
    return lines, out


def duplicate_tags(text):
    """names of USER tags that occur in more than one pair of a file"""
    _, tags = tag_positions(text)
    seen, dup = set(), set()
    for (_, _, name) in tags:
        (dup if name in seen else seen).add(name)
    return dup


def edit_file(r, path, fraction=0.5, marker_prefix=None, force_all=False, skip=()):
    """insert user text into a random subset of the tag pairs of a generated file;
    returns {tagname: [lines]} of what was written. Tag names in `skip` are left alone."""
    with open(path, errors="surrogateescape") as f:
        text = f.read()
    lines, tags = tag_positions(text)
    written = {}
    out = []
    pos = 0
    for (o, c, name) in tags:
        out.extend(lines[pos:o + 1])
        if name not in skip and (force_all or r.random() < fraction):
            body = rand_user_body(r, (marker_prefix + ":" + name) if marker_prefix else None)
            written[name] = body
            out.extend(body)
        else:
            out.extend(lines[o + 1:c])
        pos = c
    out.extend(lines[pos:])
    with open(path, "w", errors="surrogateescape") as f:
        f.write("".join(out))
    return written


def spec_blocks(text):
    """{name: [body lines]} by the documented convention (independent of the model)"""
    lines, tags = tag_positions(text)
    return {name: lines[o + 1:c] for (o, c, name) in tags}, lines, tags


def spec_splice(fresh_text, old_text):
    """the property's own statement of a regeneration: the fresh file with every old body
    re-inserted directly under the tag of the same name"""
    old, _, _ = spec_blocks(old_text)
    lines, tags = tag_positions(fresh_text)
    out = []
    pos = 0
    for (o, c, name) in tags:
        out.extend(lines[pos:o + 1])
        if name in old:
            out.extend(old[name])
        pos = o + 1
    out.extend(lines[pos:])
    return "".join(out)


def rand_outdir_spelling(r, base, leaf="out"):
    """(outdir argument, cwd) pairs that all denote base/leaf"""
    real = os.path.join(base, leaf)
    k = r.randrange(6)
    if k == 0:
        return real, base
    if k == 1:
        return leaf, base
    if k == 2:
        return "./" + leaf + "/", base
    if k == 3:
        return leaf + "//", base
    if k == 4:
        os.makedirs(os.path.join(base, "other"), exist_ok=True)
        return "../" + leaf, os.path.join(base, "other")
    return os.path.join(base, ".", leaf) + "/", "/"


# ---- model mutation (C02/C03: evolution of a model between generations)

def _rename_in_tt(tt, col_set, old, new):
    for row in tt:
        for c in col_set:
            if row[c] == old:
                row[c] = new


def mutate_sm(r, m):
    m = copy.deepcopy(m)
    tt = m["tt"]
    op = r.randrange(10)
    taken = {x for row in tt for x in row}
    if op == 9:
        if m["iface"]["structs"]:
            m["iface"]["structs"] = list(m["iface"]["structs"])
            del m["iface"]["structs"][r.randrange(len(m["iface"]["structs"]))]      # an event loses its parameters (or a stateless event goes)
            return m, "drop-event-struct"
        op = 8

    def fresh(prefix, old=None, pool=()):
        """a new name; often one that extends an existing name (EvGo -> EvGoFast, IsReady -> IsReady2): the tags of the
        new element then begin with the tags of an old one"""
        base = old or (r.choice(list(pool)) if pool else None)
        if base and base.lower() != "none" and r.random() < 0.4:
            for suf in r.sample(["2", "Fast", "X", "Ex", "10"], 5):
                if base + suf not in taken:
                    taken.add(base + suf)
                    return base + suf
        return names(r, prefix, 1, taken)[0]
    if op == 0 and len(tt) > 1:
        del tt[r.randrange(1, len(tt))]
        what = "remove-row"
    elif op == 1:
        states = [row[0] for row in tt]
        evs = [row[1] for row in tt]
        tt.insert(r.randrange(1, len(tt) + 1), [r.choice(states), r.choice(evs), r.choice(states + ["None"]),
                                                fresh("On", pool=[row[3] for row in tt]), r.choice(["None", fresh("Guard", pool=[row[4] for row in tt])])])
        what = "add-row"
    elif op == 2:
        old = r.choice([row[0] for row in tt])
        _rename_in_tt(tt, (0, 2), old, fresh("State", old))
        what = "rename-state"
    elif op == 3:
        old = r.choice([row[1] for row in tt])
        new = fresh("Event", old)
        _rename_in_tt(tt, (1,), old, new)
        m["iface"]["structs"] = [((new if s == old else s), mem) for s, mem in m["iface"]["structs"]]
        what = "rename-event"
    elif op == 4:
        acts = [row[3] for row in tt if row[3] and row[3].lower() != "none"]
        if acts:
            old = r.choice(acts)
            _rename_in_tt(tt, (3,), old, fresh("On", old))
        what = "rename-action"
    elif op == 5:
        gs = [row[4] for row in tt if row[4] and row[4].lower() != "none"]
        if gs and r.random() < 0.7:
            old = r.choice(gs)
            _rename_in_tt(tt, (4,), old, fresh("Guard", old))
        else:
            tt[r.randrange(len(tt))][4] = fresh("Guard", pool=gs)
        what = "rename-or-add-guard"
    elif op == 6 and len(tt) > 2:
        rest = tt[1:]
        r.shuffle(rest)
        tt[1:] = rest
        what = "reorder-rows"
    elif op == 7:
        m["iface"] = rand_iface_spec(r, tt, m["backend"])
        what = "change-event-parameters"
    else:
        i = r.randrange(len(tt))
        tt[i][3] = r.choice(["None", fresh("On", pool=[row[3] for row in tt])])
        tt[i][4] = "None"
        what = "drop-guard-change-action"
    return m, what


def mutate_proto(r, m):
    m = copy.deepcopy(m)
    op = r.randrange(5)
    if op == 0 and len(m["msgs"]) > 1:
        del m["msgs"][r.randrange(len(m["msgs"]))]
        what = "remove-message"
    elif op == 1:
        used = {i for _, i, _ in m["msgs"]}
        mid = next(i for i in range(200, 400) if i not in used)
        m["msgs"].append(("Msg" + camel(r, 2) + "New", mid, [("m0", r.choice(PROTO_PRIM), None)]))
        what = "add-message"
    elif op == 2 and m["msgs"]:
        i = r.randrange(len(m["msgs"]))
        n, mid, mem = m["msgs"][i]
        m["msgs"][i] = (n + "Renamed", mid, mem)
        what = "rename-message"
    elif op == 3 and m["msgs"]:
        i = r.randrange(len(m["msgs"]))
        n, mid, mem = m["msgs"][i]
        mem = list(mem)
        if mem and r.random() < 0.5:
            del mem[r.randrange(len(mem))]
        else:
            mem.append(("extra%d" % len(mem), r.choice(PROTO_PRIM), str(r.randint(0, 9))))
        m["msgs"][i] = (n, mid, mem)
        what = "change-members"
    else:
        m["msgs"] = list(reversed(m["msgs"]))
        what = "reorder-messages"
    return m, what


def mutate_uml(r, m):
    m = copy.deepcopy(m)
    if m.get("synth") and r.random() < 0.8:
        import umlsynth
        m["synth"], what = umlsynth.mutate_spec(r, m["synth"])
        return m, what
    m["dclspc"] = r.choice(["", "MY_EXPORT", "OTHER_API"])
    return m, "change-export-macro"


def mutate_model(r, m):
    if m["kind"] == "sm":
        return mutate_sm(r, m)
    if m["kind"] == "proto":
        return mutate_proto(r, m)
    return mutate_uml(r, m)
