"""Generators for unit-level correspondence of the preservation functions: line lists that
are mostly well-formed tagged documents plus a malformed stream."""
from genlib import camel, rand_user_line, split_nl

STYLES = ["/// {{{USER_%s}}}\n", "// {{{USER_%s}}}\n", "# {{{USER_%s}}}\n", "    /* {{{USER_%s}}} */\n",
          "\t\t/// {{{USER_%s}}}\n", "{{{USER_%s\n", "<!-- {{{USER_%s}}} -->\n", "  ' {{{USER_%s}}}\n",
          "~ @ {{{USER_%s}}} $ % ? + = ] >\n"]
KEYS = ["A", "B", "AB", "A_on_entry", "HEADER", "X1", "IMPORTS", "a", "Ab"]


def tag_line(r, key=None, style=None):
    return (style or r.choice(STYLES)).replace("%s", key or r.choice(KEYS))


def doc(r, malformed=False):
    """list of lines; well-formed: text / (open, body, close) with distinct keys"""
    lines = []
    keys = r.sample(KEYS, r.randint(0, min(5, len(KEYS))))
    for k in keys:
        for _ in range(r.randint(0, 3)):
            lines.append(rand_user_line(r) if r.random() < 0.5 else "code %s;\n" % camel(r, 1))
        lines.append(tag_line(r, k))
        for _ in range(r.choice([0, 0, 1, 2, 4])):
            lines.append(rand_user_line(r))
        lines.append(tag_line(r, k))
    for _ in range(r.randint(0, 3)):
        lines.append("tail %s\n" % camel(r, 1))
    if malformed:
        for _ in range(r.randint(1, 4)):
            op = r.randrange(6)
            pos = r.randrange(len(lines) + 1)
            if op == 0:
                lines.insert(pos, tag_line(r))          # unpaired / duplicate tag line
            elif op == 1 and lines:
                del lines[r.randrange(len(lines))]
            elif op == 2:
                lines.insert(pos, "/// {{{ USER_%s }}}\n" % r.choice(KEYS))   # cleans to a key, no prefix
            elif op == 3:
                lines.insert(pos, "{{{USER_\n")
            elif op == 4 and lines:
                i = r.randrange(len(lines))
                lines[i] = lines[i].rstrip("\n")         # glue two lines
            else:
                lines.insert(pos, "\\t{{{USER_%s\\n}}}\n" % r.choice(KEYS))
    if lines and r.random() < 0.2:
        lines[-1] = lines[-1].rstrip("\n")               # no trailing newline
    # a line without "\n" can only be the last line of a file
    text = "".join(lines)
    return split_nl(text)
