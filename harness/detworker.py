#!/usr/bin/env python3
"""Worker of the C06 determinism matrix: one generation in a fresh interpreter under the
configuration given on stdin (JSON): model, outdir argument, cwd, fake clock, permutation
seed for os.walk listings.  PYTHONHASHSEED / TZ come from the environment."""
import json
import os
import random
import sys

HERE = os.path.dirname(os.path.abspath(__file__))
sys.path.insert(0, HERE)


def main():
    cfg = json.load(sys.stdin)
    if cfg.get("faketime") is not None:
        import time
        t = float(cfg["faketime"])
        time.time = lambda: t
    if cfg.get("walkseed") is not None:
        real_walk = os.walk
        rnd = random.Random(cfg["walkseed"])

        def walk(top, *a, **kw):
            for root, dirs, files in real_walk(top, *a, **kw):
                files = list(files)
                rnd.shuffle(files)
                rnd.shuffle(dirs)
                yield root, dirs, files
        os.walk = walk
    import genlib
    os.chdir(cfg["cwd"])
    runner = genlib.Runner()
    if cfg.get("warmup"):
        # the process has a history: the same generation already ran here once (the tree was then put back as it was).
        # What a generation does must not depend on what the interpreter did before.
        import shutil
        real = os.path.abspath(cfg["outdir"])
        keep = real + ".kept"
        if os.path.isdir(real):
            shutil.copytree(real, keep, copy_function=shutil.copy2)
        runner.generate(cfg["model"], cfg["outdir"])
        shutil.rmtree(real, ignore_errors=True)
        if os.path.isdir(keep):
            shutil.copytree(keep, real, copy_function=shutil.copy2)
            shutil.rmtree(keep)
    ret = runner.generate(cfg["model"], cfg["outdir"])[0]
    print("RET " + json.dumps(ret))


if __name__ == "__main__":
    main()
