"""I/O tracer and fault injector for the output stage.  Installed around a real generation
run (in-process): records every mutating file-system operation below a root directory and can
make operation number k fail — as a raised OSError(ENOSPC) or as abrupt process death
(os._exit in a forked child, optionally after flushing an arbitrary prefix of the buffer)."""
import builtins
import errno
import os
import shutil


class Die(BaseException):
    pass


class Tracer:
    def __init__(self, root, fail_at=None, mode="raise", flush_before_death=False):
        self.root = os.path.abspath(root)
        self.ops = []
        self.fail_at = fail_at
        self.mode = mode
        self.flush_before_death = flush_before_death
        self.fired = False
        self._files = []

    # -- helpers
    def _inside(self, p):
        try:
            return os.path.abspath(p).startswith(self.root)
        except Exception:
            return False

    def _op(self, *op):
        idx = len(self.ops)
        self.ops.append(op)
        if self.fail_at is not None and idx == self.fail_at and not self.fired:
            self.fired = True
            if self.mode == "raise":
                raise OSError(errno.ENOSPC, "No space left on device (injected at op %d)" % idx)
            if self.flush_before_death:
                for f in self._files:
                    try:
                        f._real.flush()
                    except Exception:
                        pass
            os._exit(17)

    # -- patched entry points
    def __enter__(self):
        self._open = builtins.open
        self._makedirs = os.makedirs
        self._replace = os.replace
        self._rename = os.rename
        self._remove = os.remove
        self._unlink = os.unlink
        self._copymode = shutil.copymode
        tr = self

        class WFile:
            def __init__(self, real, path):
                self._real = real
                self._path = path
                self._closed = False

            def write(self, data):
                tr._op("write", self._path, data)
                return self._real.write(data)

            def close(self):
                if not self._closed:
                    self._closed = True
                    try:
                        tr._op("close", self._path)
                    finally:
                        self._real.close()

            def __enter__(self):
                return self

            def __exit__(self, *a):
                self.close()
                return False

            def __getattr__(self, n):
                return getattr(self._real, n)

        def open_(file, mode="r", *a, **kw):
            if isinstance(file, (str, bytes, os.PathLike)) and any(c in mode for c in "wax+") and tr._inside(file):
                tr._op("open", os.fspath(file), mode)
                f = WFile(tr._open(file, mode, *a, **kw), os.fspath(file))
                tr._files.append(f)
                # a second fault point once the file is open: with 'w' an existing file is empty from here on
                # (bulk copies - shutil.copyfile's sendfile - write no data through Python at all)
                tr._op("opened", os.fspath(file))
                return f
            return tr._open(file, mode, *a, **kw)

        def makedirs(name, *a, **kw):
            if tr._inside(name):
                tr._op("mkdirs", os.fspath(name))
            return tr._makedirs(name, *a, **kw)

        def replace(src, dst, *a, **kw):
            if tr._inside(dst):
                tr._op("replace", os.fspath(src), os.fspath(dst))
            return tr._replace(src, dst, *a, **kw)

        def rename(src, dst, *a, **kw):
            if tr._inside(dst):
                tr._op("rename", os.fspath(src), os.fspath(dst))
            return tr._rename(src, dst, *a, **kw)

        def remove(p, *a, **kw):
            if tr._inside(p):
                tr.ops.append(("remove", os.fspath(p)))   # clean-up path: recorded, never a fault point
            return tr._remove(p, *a, **kw)

        def copymode(src, dst, *a, **kw):
            if tr._inside(dst):
                tr._op("copymode", os.fspath(src), os.fspath(dst))
            return tr._copymode(src, dst, *a, **kw)

        builtins.open = open_
        os.makedirs = makedirs
        os.replace = replace
        os.rename = rename
        os.remove = remove
        os.unlink = remove
        shutil.copymode = copymode
        return self

    def __exit__(self, *a):
        builtins.open = self._open
        os.makedirs = self._makedirs
        os.replace = self._replace
        os.rename = self._rename
        os.remove = self._remove
        os.unlink = self._unlink
        shutil.copymode = self._copymode
        return False
