"""Probe generator for the protocol back end (C12/C13): from an interface description builds a
C++ main that prints sizeof/offsetof/factory bytes and runs loop-back round trips through the
*generated* transmitter/receiver and the real IConnection.cpp."""
import os
import struct

import cppprobe

SIZES = {"uint8": 1, "uint16": 2, "uint32": 4, "uint64": 8, "int8": 1, "int16": 2, "int32": 4, "int64": 8, "float": 4, "double": 8, "bool": 1}
FMT = {"uint8": "<B", "uint16": "<H", "uint32": "<I", "uint64": "<Q", "int8": "<b", "int16": "<h", "int32": "<i", "int64": "<q", "float": "<f", "double": "<d", "bool": "<?"}


def pack(t, text):
    """byte image of a default / literal given as the text the interface declares"""
    if t == "bool":
        v = text in ("true", "True", "1")
    elif t in ("float", "double"):
        v = float(text)
    else:
        v = int(text)
    return list(struct.pack(FMT[t], v))


def literal(t, text):
    if t == "float":
        return "%sf" % float(text)
    if t == "double":
        return "%s" % float(text)
    if t == "bool":
        return "true" if text in ("true", "True", "1") else "false"
    return "(%s)%s" % (t, text) + ("ULL" if t == "uint64" else "LL" if t == "int64" else "")


def struct_map(model):
    return {n: mem for n, mem in model["structs"]}


def fld_json(model, members):
    """members [(name, type, default)] -> the Lean driver's Fld JSON list"""
    sm = struct_map(model)
    out = []
    for n, t, d in members:
        if t.startswith("struct:"):
            out.append({"nested": fld_json(model, sm[t[7:]])})
        else:
            out.append({"prim": [SIZES[t], bytes(pack(t, d)).hex() if d else None]})
    return out


def arg_values(r, model, members):
    """random explicit arguments: (C++ expression list, byte images list)"""
    sm = struct_map(model)
    exprs, imgs = [], []
    for n, t, d in members:
        if t.startswith("struct:"):
            e, i = arg_values(r, model, sm[t[7:]])
            exprs.append("%s::Create%s(%s)" % (model["ns"], t[7:], ", ".join(e)))
            imgs.append([b for im in i for b in im])
        else:
            if t == "bool":
                txt = r.choice(["true", "false"])
            elif t in ("float", "double"):
                txt = str(r.choice([0.5, -2.25, 1024.0, 3.0]))
            else:
                bits = SIZES[t] * 8
                lo, hi = (-(1 << (bits - 1)), (1 << (bits - 1)) - 1) if t.startswith("int") else (0, (1 << bits) - 1)
                txt = str(r.choice([lo + 1 if lo else 0, hi, r.randint(lo + 1 if lo else 0, hi), 1]))
            exprs.append(literal(t, txt))
            imgs.append(pack(t, txt))
    return exprs, imgs


def offset_lines(model):
    out = []
    for sname, mem in model["structs"]:
        out.append('    printf("sizeof %s %%zu\\n", sizeof(%s::%s));' % (sname, model["ns"], sname))
        for n, t, d in mem:
            out.append('    printf("offsetof %s %s %%zu\\n", offsetof(%s::%s, %s));' % (sname, n, model["ns"], sname, n))
    for mname, mid, mem in model["msgs"]:
        out.append('    printf("sizeof %s %%zu\\n", sizeof(%s::%s));' % (mname, model["ns"], mname))
        out.append('    printf("offsetof %s Header %%zu\\n", offsetof(%s::%s, Header));' % (mname, model["ns"], mname))
        for n, t, d in mem:
            out.append('    printf("offsetof %s %s %%zu\\n", offsetof(%s::%s, %s));' % (mname, n, model["ns"], mname, n))
    return out


def main_cpp(model, arg_cases):
    """arg_cases: [(msg index, [C++ arg expressions])] for the factory-with-arguments dumps"""
    ns, name = model["ns"], model["name"]
    L = []
    L.append('#include "%s.h"\n#include "%sReceiver.h"\n#include "%sTransmitter.h"' % (name, name, name))
    L.append("#include <cstddef>\n#include <cstdio>\n#include <cstring>\n#include <iostream>\n#include <sstream>\n#include <string>\n#include <vector>")
    L.append("using namespace XKoJen;")
    L.append("""static std::string hexs(const void* p, size_t n){ static const char* H="0123456789abcdef"; std::string s; const unsigned char* d=(const unsigned char*)p; for(size_t i=0;i<n;++i){ s+=H[d[i]>>4]; s+=H[d[i]&15]; } return s; }
static std::vector<uint8> unhex(const std::string& s){ std::vector<uint8> v; if(s=="-") return v; for(size_t i=0;i+1<s.size();i+=2) v.push_back((uint8)std::stoi(s.substr(i,2),nullptr,16)); return v; }
static std::string LOG;""")
    L.append("struct Rx : public %s::%sReceiver, public %s::%sNotHandledReceiver {" % (ns, name, ns, name))
    L.append("    uint16 Preamble() const override { return %d; }" % model["preamble"])
    for i, (mname, mid, mem) in enumerate(model["msgs"]):
        L.append('    void On%sReceived(const %s::%s* d) override { LOG += " h%d:" + hexs(d, sizeof(%s::%s)); }' % (mname, ns, mname, i, ns, mname))
    L.append('    void OnNotHandledMessageReceived(const uint8* d, const uint32& n) override { LOG += " u:" + hexs(d, n); }')
    L.append("};")
    L.append("""struct Loop : public IConnection {
    int reject = 0; int calls = 0; std::vector<uint8> wire;
    bool SendData(const uint8* d, const uint16& n) override { ++calls; if (reject > 0) { --reject; return false; } wire.insert(wire.end(), d, d + n); return true; }
    void deliver(const uint8* d, uint32 n) { OnDataReceived(d, n); }
};""")
    L.append("int main() {")
    L.append('    printf("sizeof sMsgHeader %zu\\n", sizeof(sMsgHeader));')
    L += offset_lines(model)
    for i, (mname, mid, mem) in enumerate(model["msgs"]):
        L.append('    { auto m = %s::Create%s(); printf("factory %d %%s\\n", hexs(&m, sizeof m).c_str()); }' % (ns, mname, i))
    for k, (i, exprs) in enumerate(arg_cases):
        mname = model["msgs"][i][0]
        L.append('    { auto m = %s::Create%s(%s); printf("factoryargs %d %%s\\n", hexs(&m, sizeof m).c_str()); }' % (ns, mname, ", ".join(exprs), k))
    L.append('    printf("END-STATIC\\n"); fflush(stdout);')
    L.append("    Rx rx; rx.SetUnhandledReceiver(rx); Loop conn; conn.SetMsgReceiver(rx); %s::%sTransmitter tx(conn);" % (ns, name))
    L.append("    std::string line;")
    L.append("    while (std::getline(std::cin, line)) { std::istringstream is(line); std::string cmd; is >> cmd;")
    L.append('        if (cmd == "T") { int idx, rej, retries; std::string pay; is >> idx >> rej >> retries >> pay; conn.reject = rej; conn.calls = 0; bool ok = false; std::vector<uint8> pv = unhex(pay);')
    L.append("            switch (idx) {")
    for i, (mname, mid, mem) in enumerate(model["msgs"]):
        L.append("            case %d: { auto m = %s::Create%s(); if (!pv.empty() && sizeof(m) > sizeof(sMsgHeader)) memcpy(((uint8*)&m) + sizeof(sMsgHeader), pv.data(), std::min(pv.size(), sizeof(m) - sizeof(sMsgHeader))); ok = tx.Transmit%s(m, (int8)retries); break; }" % (i, ns, mname, mname))
    L.append("            default: break; }")
    L.append('            printf("t ok=%d calls=%d\\n", ok ? 1 : 0, conn.calls); }')
    L.append('        else if (cmd == "W") { std::string h; is >> h; auto v = unhex(h); conn.wire.insert(conn.wire.end(), v.begin(), v.end()); printf("w\\n"); }')
    L.append('        else if (cmd == "F") { LOG.clear(); size_t pos = 0; size_t n; while (is >> n) { if (pos + n > conn.wire.size()) n = conn.wire.size() - pos; if (n) conn.deliver(conn.wire.data() + pos, (uint32)n); pos += n; }')
    L.append('            if (pos < conn.wire.size()) conn.deliver(conn.wire.data() + pos, (uint32)(conn.wire.size() - pos)); conn.wire.clear(); printf("f%s\\n", LOG.c_str()); }')
    L.append("        fflush(stdout); }")
    L.append("    return 0; }")
    return "\n".join(L) + "\n"


def build(model, outdir, workdir, arg_cases, flags=("-O1",), compiler="g++"):
    """outdir: where Generate.Protocol wrote the sources; returns (ok, log, exe)"""
    inc = os.path.join(workdir, "inc")
    os.makedirs(inc, exist_ok=True)
    link = os.path.join(inc, "allplatforms")
    if not os.path.exists(link):
        os.symlink(cppprobe.CPP, link)
    main = os.path.join(workdir, "probe_main.cpp")
    with open(main, "w") as f:
        f.write(main_cpp(model, arg_cases))
    name = model["name"]
    srcs = [main] + [os.path.join(outdir, "%s%s.cpp" % (name, suf)) for suf in ("", "Receiver", "Transmitter")] + [os.path.join(cppprobe.CPP, "IConnection.cpp")]
    exe = os.path.join(workdir, "probe_" + compiler.replace("+", "p"))
    ok, log = cppprobe.build(exe, srcs, list(flags) + ["-Wall", "-Werror=narrowing"], includes=[inc, outdir], compiler=compiler)
    return ok, log, exe


# ---- independent packing of an interface (the property's own oracle)

def spec_size(model, members):
    sm = struct_map(model)
    return sum(spec_size(model, sm[t[7:]]) if t.startswith("struct:") else SIZES[t] for _, t, _ in members)


def spec_offsets(model, members, base=0):
    sm = struct_map(model)
    out, off = [], base
    for n, t, d in members:
        out.append((n, off))
        off += spec_size(model, sm[t[7:]]) if t.startswith("struct:") else SIZES[t]
    return out


def spec_defaults(model, members):
    sm = struct_map(model)
    out = []
    for n, t, d in members:
        if t.startswith("struct:"):
            out += spec_defaults(model, sm[t[7:]])
        else:
            out += pack(t, d) if d else [0] * SIZES[t]
    return out


def spec_header(model, mid, members):
    size = 8 + spec_size(model, members)
    return list(struct.pack("<HHI", model["preamble"], mid, size - 8))


def rand_grown_iface(r, big=False):
    """an interface with a struct that is contained in another one and whose last member - one with a default value that is
    not zero - was added after the interface had been generated once"""
    for _ in range(200):
        m = rand_iface(r, big)
        used = {t[7:] for _, mem in m["structs"] for _, t, _ in mem if t.startswith("struct:")} | {t[7:] for _, _, mem in m["msgs"] for _, t, _ in mem if t.startswith("struct:")}
        ok = [sn for sn, mem in m["structs"] if sn in used and len(mem) >= 2 and not mem[-1][1].startswith("struct:") and mem[-1][2] not in (None, "0", "false")]
        if ok:
            m["grown_struct"] = r.choice(ok)
            return m
    return m


def rand_iface(r, big=False):
    """interface for C12/C13: structs nested up to depth 4, all primitive types, defaults at any level"""
    import genlib
    prim = list(SIZES)
    structs = []
    depth_of = {}
    for i in range(r.randint(0, 5 if big else 3)):
        sn = "S%d%s" % (i, genlib.camel(r, 1))
        mem = []
        d = 0
        for j in range(r.randint(0 if r.random() < 0.1 else 1, 5)):
            cands = [s for s in structs if depth_of[s[0]] < 3]
            if cands and r.random() < 0.4:
                s = r.choice(cands)
                mem.append(("s%d" % j, "struct:" + s[0], None))
                d = max(d, depth_of[s[0]] + 1)
            else:
                t = r.choice(prim)
                mem.append(("m%d" % j, t, rand_default(r, t) if r.random() < 0.6 else None))
        if not mem:
            mem.append(("m0", r.choice(prim), None))      # empty structs are outside the domain (sizeof 1 in C++)
        structs.append((sn, mem))
        depth_of[sn] = d
    msgs = []
    ids = r.sample(range(0, 65536), r.randint(1, 6 if big else 4))
    for i, mid in enumerate(ids):
        mem = []
        for j in range(r.randint(0, 4)):
            if structs and r.random() < 0.4:
                mem.append(("s%d" % j, "struct:" + r.choice(structs)[0], None))
            else:
                t = r.choice(prim)
                mem.append(("f%d" % j, t, rand_default(r, t) if r.random() < 0.6 else None))
        msgs.append(("Msg%d%s" % (i, genlib.camel(r, 1)), mid, mem))
    extra = {}
    if msgs and r.random() < 0.3:
        # a message the script defined twice, the second time with the id that counts
        mn_ = r.choice(msgs)[0]
        extra["redefined"] = {mn_: r.choice([x for x in (1, 2, 3, 77, 4096, 65000) if x not in ids])}
    used = {t[7:] for _, mem in structs for _, t, _ in mem if t.startswith("struct:")} | {t[7:] for _, _, mem in msgs for _, t, _ in mem if t.startswith("struct:")}
    growable = [sn for sn, mem in structs if sn in used and len(mem) >= 2]
    if growable and r.random() < 0.35:
        # a struct contained in others that got its last member after the interface had been generated once (same objects)
        extra["grown_struct"] = r.choice(growable)
    return dict(kind="proto", backend="proto", structs=structs, msgs=msgs, **extra, preamble=r.choice([0xDEAD, 0xBEEF, 0xAAAA, 0x0100, 0x0000, 0xFFFF, r.randrange(65536)]),
                name=r.choice(["ExampleIF", "Foo", "Proto" + genlib.camel(r, 1)]), ns=r.choice(["ExampleIO", "NS", "a::b"]) if False else r.choice(["ExampleIO", "NS"]),
                enums=[("Kind%d" % k, [("A", 0), ("B", 5)]) for k in range(r.randint(0, 2))], defines=[("MAXLEN", 16)] if r.random() < 0.5 else [])


def rand_default(r, t):
    if t == "bool":
        return r.choice(["true", "false"])
    if t in ("float", "double"):
        return str(r.choice([1, 2, 100, 0.5, 1.25]))
    bits = SIZES[t] * 8
    if t.startswith("int"):
        return str(r.choice([1, -1, 7, (1 << (bits - 1)) - 1, -(1 << (bits - 1)) + 1, r.randint(-100, 100) or 3]))
    return str(r.choice([1, 7, (1 << bits) - 1, r.randint(1, 200)]))
