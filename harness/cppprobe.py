"""Builds C++ probes from /repo's current sources into a scratch directory."""
import os
import subprocess

from common import REPO, Infra

CPP = os.path.join(REPO, "kojen", "allplatforms", "CPP")
PROBES = os.path.join(os.path.dirname(os.path.dirname(os.path.abspath(__file__))), "probes")


def build(out, sources, flags, includes=(), compiler="g++", timeout=600):
    cmd = [compiler, "-std=c++17"] + list(flags) + ["-I" + CPP] + ["-I" + i for i in includes] + list(sources) + ["-o", out, "-pthread"]
    p = subprocess.run(cmd, capture_output=True, text=True, timeout=timeout)
    return p.returncode == 0, (p.stdout + p.stderr)[-3000:]


def run_lines(exe, lines, timeout=600, env=None):
    e = dict(os.environ)
    e.setdefault("ASAN_OPTIONS", "detect_leaks=0:abort_on_error=0")
    e.setdefault("UBSAN_OPTIONS", "halt_on_error=1:print_stacktrace=1")
    if env:
        e.update(env)
    try:
        p = subprocess.run([exe], input="\n".join(lines) + "\n", capture_output=True, text=True, timeout=timeout, env=e)
    except subprocess.TimeoutExpired:
        raise Infra("probe timed out: " + exe)
    return p.returncode, p.stdout.splitlines(), p.stderr[-3000:]
