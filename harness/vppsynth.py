"""Synthesises Visual Paradigm project files (SQLite) with state diagrams, calibrated against the shipped
kojen/test/blob.xml: same three tables and column types, model-element blobs in VP's own notation
(`id:"name":Type { key=value; ... }`), ids over VP's alphabet.

Abstract diagram:
  dict(name, states=[name], initial=index of the state the initial pseudo-state points to | None,
       transitions=[dict(src, dst, event, effect=index into activities | None, guard=text | None)],
       activities=[name], notes=int, drawn_twice=[transition indexes drawn by two diagram elements])
"""
import os
import random
import sqlite3

ID_ALPHABET = "ABCDEFGHIJKLMNOPQRSTUVWXYZabcdefghijklmnopqrstuvwxyz0123456789._"
SCHEMA = [
    "CREATE TABLE MODEL_ELEMENT (ID char(16) NOT NULL, USER_ID varchar(64), USER_ID_PARENT char(16), MODEL_TYPE varchar(64) NOT NULL, PARENT_ID char(16), NAME text, DEFINITION blob NOT NULL, MIRROR_SOURCE text, AUTHOR varchar(256), CREATE_AT integer(10), LAST_MOD_AT integer(10), PRIMARY KEY (ID), FOREIGN KEY(PARENT_ID) REFERENCES MODEL_ELEMENT(ID))",
    "CREATE TABLE DIAGRAM (ID char(16) NOT NULL, DIAGRAM_TYPE varchar(64) NOT NULL, PARENT_MODEL_ID char(16), NAME text NOT NULL, DEFINITION blob NOT NULL, PRIMARY KEY (ID), FOREIGN KEY(PARENT_MODEL_ID) REFERENCES MODEL_ELEMENT(ID))",
    "CREATE TABLE DIAGRAM_ELEMENT (ID char(16) NOT NULL, SHAPE_TYPE varchar(64) NOT NULL, DIAGRAM_ID char(16) NOT NULL, MODEL_ELEMENT_ID char(16), COMPOSITE_MODEL_ELEMENT_ADDRESS text, REF_MODEL_ELEMENT_ADDRESS text, PARENT_ID char(16), DEFINITION blob NOT NULL, PRIMARY KEY (ID), FOREIGN KEY(DIAGRAM_ID) REFERENCES DIAGRAM(ID), FOREIGN KEY(MODEL_ELEMENT_ID) REFERENCES MODEL_ELEMENT(ID), FOREIGN KEY(PARENT_ID) REFERENCES DIAGRAM_ELEMENT(ID))",
]


class Ids:
    def __init__(self, r):
        self.r = r
        self.used = set()

    def new(self):
        while True:
            s = "".join(self.r.choice(ID_ALPHABET) for _ in range(16))
            if s not in self.used:
                self.used.add(s)
                return s


def blob(r, ident, name, typ, entries):
    """VP notation; entry order shuffled as VP does"""
    entries = list(entries)
    r.shuffle(entries)
    # calibration: in every blob of the shipped project the entry that shares the first ';'-piece with the header is
    # _modelEditable / _masterViewId (never a reference such as fromModel / toModel / guard / effect)
    firsts = [e for e in entries if e[0] in ("_modelEditable", "_masterViewId")]
    if firsts:
        f = r.choice(firsts)
        entries.remove(f)
        entries.insert(0, f)
    head = '%s:%s:%s {\r\n' % (ident, "NULL" if name is None else '"%s"' % name, typ)
    return (head + "".join("\t%s=%s;\r\n" % (k, v) for k, v in entries) + "}").encode("utf-8")


def common_entries(r, ids, diagram_id, view=True):
    e = [("pmLastModified", '"%d"' % r.randrange(10 ** 12, 10 ** 13)), ("pmAuthor", '"eugene"'),
         ("pmCreateDateTime", '"%d"' % r.randrange(10 ** 12, 10 ** 13)), ("_modelEditable", "T")]
    if view:
        mv, v = ids.new(), ids.new()
        e.append(("_masterViewId", '"%s"' % v))
        e.append(("_modelViews", '(\r\n\t\t{%s:"View":ModelView {\r\n\t\t\tcontainer=<%s>;\r\n\t\t\tview="%s";\r\n\t\t}}\r\n\t)' % (mv, diagram_id, v)))
    else:
        e.append(("_modelViews", "NULL"))
    return e


def add_state_diagram(r, ids, rows, d, nested_prob=0.2):
    """appends to rows = dict(models=[], diagrams=[], elems=[]); returns the diagram id"""
    did = ids.new()
    rows["diagrams"].append((did, "StateDiagram", None, d["name"], b"x"))
    top, rel = rows.setdefault("containers", (None, None))
    if top is None:
        top, rel = ids.new(), ids.new()
        rows["containers"] = (top, rel)
        rows["models"].append((top, "ModelRelationshipContainer", None, "relationships", blob(r, top, "relationships", "ModelRelationshipContainer", [("_modelEditable", "T")])))
        rows["models"].append((rel, "ModelRelationshipContainer", top, "Transition2", blob(r, rel, "Transition2", "ModelRelationshipContainer", [("_modelEditable", "T")])))
    state_ids = [ids.new() for _ in d["states"]]
    elems = []
    for sid, sname in zip(state_ids, d["states"]):
        rows["models"].append((sid, "State2", None, sname, blob(r, sid, sname, "State2", common_entries(r, ids, did))))
        elems.append((ids.new(), "State2", did, sid))
    ini = None
    if d.get("has_initial", True):
        ini = ids.new()
        rows["models"].append((ini, "InitialPseudoState", None, None, blob(r, ini, "", "InitialPseudoState", common_entries(r, ids, did))))
        elems.append((ids.new(), "InitialPseudoState", did, ini))
        if d.get("initial") is not None:
            tid = ids.new()
            ent = common_entries(r, ids, did) + [("fromModel", "<%s>" % ini), ("toModel", "<%s>" % state_ids[d["initial"]])]
            rows["models"].append((tid, "Transition2", rel, None, blob(r, tid, None, "Transition2", ent)))
            elems.append((ids.new(), "Transition2", did, tid))
    act_ids = [None] * len(d.get("activities", []))
    for ti, t in enumerate(d["transitions"]):
        tid = ids.new()

        def ref(sid):
            # VP writes owner:child paths for nested elements; the last id is the element
            return "<%s>" % (sid if r.random() > nested_prob else "%s:%s" % (ids.new(), sid))
        ent = common_entries(r, ids, did) + [("fromModel", ref(state_ids[t["src"]])), ("toModel", ref(state_ids[t["dst"]]))]
        children = []
        if t.get("effect") is not None:
            ai = t["effect"]
            pool = rows.setdefault("act_pool", {})
            if act_ids[ai] is None and d.get("shared_effects") and d["activities"][ai] in pool:
                # an activity first used on a transition of another diagram of the project: that transition owns it
                act_ids[ai] = pool[d["activities"][ai]]
            if act_ids[ai] is None:
                act_ids[ai] = (ids.new(), tid)
                aid = act_ids[ai][0]
                aname = d["activities"][ai]
                if d.get("shared_effects"):
                    pool[aname] = act_ids[ai]
                rows["models"].append((aid, "Activity", tid, aname, blob(r, aid, aname, "Activity", [("body", '""'), ("bodyFontSize", "0")] + common_entries(r, ids, did, view=False))))
            aid, owner = act_ids[ai]
            path = "%s:%s:%s:%s" % (top, rel, owner, aid)
            ent.append(("effect", "<%s>" % path))
            if owner == tid:
                children.append(path)
        if t.get("guard") is not None:
            gid, vid = ids.new(), ids.new()
            spec = '{%s:"":CompositeValueSpecification {\r\n\t\tpmAuthor="eugene";\r\n\t\t_modelViews=NULL;\r\n\t\tvalue_string="%s";\r\n\t\t_modelEditable=T;\r\n\t}}' % (vid, t["guard"])
            gent = [("constrainedElements", "(\r\n\t\t<%s:%s:%s>\r\n\t)" % (top, rel, tid)), ("specification", spec)] + common_entries(r, ids, did, view=False)
            rows["models"].append((gid, "ConstraintElement", None, "", blob(r, gid, "", "ConstraintElement", gent)))
            ent.append(("guard", "<%s>" % gid))
        if children:
            ent.append(("Child", "(\r\n\t\t" + ", \r\n\t\t".join("<%s>" % c for c in children) + "\r\n\t)"))
        rows["models"].append((tid, "Transition2", rel, t["event"], blob(r, tid, t["event"], "Transition2", ent)))
        elems.append((ids.new(), "Transition2", did, tid))
        if ti in d.get("drawn_twice", []):
            elems.append((ids.new(), "Transition2", did, tid))
    for _ in range(d.get("notes", 0)):
        nid = ids.new()
        typ = r.choice(["NOTE", "Anchor"])
        rows["models"].append((nid, typ, None, "", blob(r, nid, "", typ, common_entries(r, ids, did))))
        elems.append((ids.new(), typ, did, nid))
    r.shuffle(elems)
    rows["elems"].extend(elems)
    return did


def add_class_diagram(r, ids, rows, name):
    did = ids.new()
    rows["diagrams"].append((did, "ClassDiagram", None, name, b"x"))
    for _ in range(r.randint(0, 3)):
        cid = ids.new()
        rows["models"].append((cid, "Class", None, "Cls" + cid[:3].replace(".", "x").replace("_", "y"), blob(r, cid, "C", "Class", [("_modelEditable", "T"), ("guard", "<%s>" % ids.new())])))
        rows["elems"].append((ids.new(), "Class", did, cid))
    return did


def revise(r, diagrams):
    """a later revision of the same drawing: same elements (the project keeps their ids), some of them renamed,
    re-wired or stripped of their guard"""
    import copy
    out = copy.deepcopy(diagrams)
    for d in out:
        taken = set(d["states"]) | set(d.get("activities", [])) | {t["event"] for t in d["transitions"]}
        for k in range(len(d["states"])):
            if r.random() < 0.4:
                d["states"][k] = rand_name(r, "State", taken)
        for k in range(len(d.get("activities", []))):
            if r.random() < 0.3:
                d["activities"][k] = rand_name(r, "On", taken)
        for t in d["transitions"]:
            k = r.randrange(5)
            if k == 0:
                t["event"] = rand_name(r, "Event", taken)
            elif k == 1:
                t["dst"] = r.randrange(len(d["states"]))
            elif k == 2 and t.get("guard"):
                t["guard"] = rand_name(r, "Guard", taken)
    return out


def write_project(r, path, diagrams, class_diagrams=1, shuffle_tables=True, id_seed=None):
    """diagrams: list of abstract state diagrams; returns dict(name -> diagram id).  With `id_seed` the element ids are
    drawn from their own stream, so that a revision of the same drawing keeps them."""
    import random as _random
    ids = Ids(r if id_seed is None else _random.Random(id_seed))
    rows = dict(models=[], diagrams=[], elems=[])
    order = [("sd", d) for d in diagrams] + [("cd", "ClassDiagram%d" % i) for i in range(class_diagrams)]
    r.shuffle(order)
    out = {}
    for kind, d in order:
        if kind == "sd":
            out[d["name"]] = add_state_diagram(r, ids, rows, d)
        else:
            add_class_diagram(r, ids, rows, d)
    if shuffle_tables:
        r.shuffle(rows["models"])
        r.shuffle(rows["elems"])
    if os.path.exists(path):
        os.remove(path)
    con = sqlite3.connect(path)
    with con:
        for s in SCHEMA:
            con.execute(s)
        con.executemany("INSERT INTO MODEL_ELEMENT (ID, MODEL_TYPE, PARENT_ID, NAME, DEFINITION) VALUES (?,?,?,?,?)", rows["models"])
        con.executemany("INSERT INTO DIAGRAM (ID, DIAGRAM_TYPE, PARENT_MODEL_ID, NAME, DEFINITION) VALUES (?,?,?,?,?)", rows["diagrams"])
        con.executemany("INSERT INTO DIAGRAM_ELEMENT (ID, SHAPE_TYPE, DIAGRAM_ID, MODEL_ELEMENT_ID, DEFINITION) VALUES (?,?,?,?,x'00')", rows["elems"])
    con.close()
    return out


def dump_tables(path):
    """the tables as the code reads them (row order of SELECT *), blobs as str(bytes)"""
    con = sqlite3.connect(path)
    cur = con.cursor()
    cur.execute("SELECT ID, DIAGRAM_TYPE, NAME FROM DIAGRAM")
    ds = [list(x) for x in cur.fetchall()]
    cur.execute("SELECT ID, DIAGRAM_ID, MODEL_ELEMENT_ID FROM DIAGRAM_ELEMENT")
    es = [list(x) for x in cur.fetchall()]
    cur.execute("SELECT ID, MODEL_TYPE, NAME, DEFINITION FROM MODEL_ELEMENT")
    ms = [[a, b, "" if c is None else c, str(d)] for a, b, c, d in cur.fetchall()]
    con.close()
    return ds, es, ms


WORDS = ["Stop", "Open", "Play", "Pause", "Idle", "Run", "Load", "Eject", "Seek", "Wait", "Init", "Done", "Red", "Green", "Orange", "Up", "Down", "Ready", "Busy", "Error", "Reset",
         "Start", "End", "Next", "Prev", "Track", "Door", "Timer", "Tick", "Safeguard", "Aftereffect", "Guarded", "Effective"]


def rand_name(r, prefix, taken):
    while True:
        n = prefix + "".join(r.choice(WORDS) for _ in range(r.choice([1, 1, 2])))
        if n not in taken:
            taken.add(n)
            return n


def rand_diagram(r, name):
    taken = set()
    ns = r.randint(1, 6)
    states = [rand_name(r, "State", taken) for _ in range(ns)]
    events = [rand_name(r, "Event", taken) for _ in range(r.randint(1, 4))]
    activities = [rand_name(r, "On", taken) for _ in range(r.randint(0, 3))]
    guards = [rand_name(r, "Guard", taken) for _ in range(r.randint(0, 3))]
    trans = []
    for _ in range(r.randint(0, 9)):
        src = r.randrange(ns)
        dst = src if r.random() < 0.2 else r.randrange(ns)
        trans.append(dict(src=src, dst=dst, event=r.choice(events),
                          effect=r.randrange(len(activities)) if activities and r.random() < 0.6 else None,
                          guard=r.choice(guards) if guards and r.random() < 0.5 else None))
    return dict(name=name, states=states, initial=r.randrange(ns) if r.random() < 0.9 else None, has_initial=True,
                transitions=trans, activities=activities, notes=r.choice([0, 0, 1, 2]),
                drawn_twice=[i for i in range(len(trans)) if r.random() < 0.08])


def share_effects(r, ds):
    """diagrams of one project using the same effect activity (VP keeps one Activity element, owned by the transition it was
    first put on - possibly a transition of another diagram)"""
    src = [d for d in ds if d["activities"]]
    if len(ds) < 2 or not src:
        return False
    done = False
    for d in ds:
        o = r.choice(src)
        if d is o or not d["activities"]:
            continue
        name = r.choice(o["activities"])
        if name in d["activities"]:
            continue
        d["activities"][r.randrange(len(d["activities"]))] = name
        d["shared_effects"] = o["shared_effects"] = True
        done = True
    return done


def expected_rows(d):
    """what the property says: one row per drawn transition, names, 'None' conventions"""
    rows = []
    for t in d["transitions"]:
        f, n = d["states"][t["src"]], d["states"][t["dst"]]
        rows.append([f, t["event"], "None" if t["src"] == t["dst"] else n,
                     "None" if t.get("effect") is None else d["activities"][t["effect"]],
                     "None" if t.get("guard") is None else t["guard"]])
    return rows
