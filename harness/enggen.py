"""Generators for the template-engine correspondence (C16/C17/C07): strings over the engine's own alphabet for
the helper functions, and grammar-directed templates."""
import random

KW = ["STATENAME", "stateName", "STATE_NAME", "EVENTNAME", "eventName", "EVENT_NAME", "ACTIONNAME", "actionName", "ACTION_NAME",
      "GUARDNAME", "guardName", "GUARD_NAME", "NEXTSTATENAME", "nextStateName", "STATENAMEIFNEXTSTATE", "ALPH", "NUM",
      "IF", "ELSEIF", "ELSE", "ENDIF", "FOR_BEGIN", "FOR_END", "EACH", "each", "FIRST", "LAST", "SIGNATURE", "SIGNATUREWITHDEFAULTS",
      "Tag", "TagA", "TagB", "Verbose", "X"]
ATOMS = ["<", "<<", "<<<", "<<<<", ">", ">>", ">>>", ">>>>", "=", " ", "  ", "    ", "\t", ",", "(", ")", "a", "b", "_", "1", "22", ".", "-", "x y"]


def rand_engine_string(r, nl=True):
    """mostly tag-shaped, sometimes broken"""
    parts = []
    for _ in range(r.randint(0, 6)):
        k = r.random()
        if k < 0.45:
            body = r.choice(KW)
            if r.random() < 0.4:
                body += r.choice(["=", " ", "= ", "=="]) + r.choice(["7", "a,b,c", "x y", "", "if True:", "<<<Tag=a,b>>>", "<<<Tag>>>", "3"])
            parts.append("<<<" + body + ">>>")
        elif k < 0.75:
            parts.append(r.choice(ATOMS))
        else:
            parts.append(r.choice(KW))
    s = "".join(parts)
    if nl and r.random() < 0.8:
        s += "\n"
    return s


def rand_name(r):
    return r.choice(["Foo", "fooBar", "FooBarBaz", "foo_bar", "Foo-Bar", "Foo.Bar..Baz", "__a__B", "ABC", "aBC", "A", "", "x1Y2", "Hello World", "a--b", "_", "HTTPServer", "getHTTPResponse"])
