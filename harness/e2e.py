"""End-to-end histories through the public generators, shared by C01–C06: run the real
generator into a scratch directory, edit, regenerate; build the matching request for the
Lean pipeline model (`regen`), and compare."""
import os

from common import read_text, read_tree


def decode_tree(root):
    """{absolute path: text as the generator reads it}"""
    out = {}
    for r, d, fs in os.walk(root):
        for f in fs:
            p = os.path.join(r, f)
            out[os.path.abspath(p)] = read_text(p)
    return out


def regen_request(cwd, outdir_arg, before_files, fresh):
    return dict(cmd="regen", cwd=cwd, outdir=outdir_arg,
                files=[[k, v] for k, v in sorted(before_files.items())],
                fresh=[[k, v] for k, v in fresh])


def model_files(ans):
    return {k: v for k, v in ans["files"]}


def compare_regen(ans, after_files, ret):
    """list of human-readable differences between the model's answer and the implementation"""
    diffs = []
    mf = model_files(ans)
    for p in sorted(set(mf) | set(after_files)):
        if p not in mf:
            diffs.append("file only in implementation: %s" % p)
        elif p not in after_files:
            diffs.append("file only in model: %s" % p)
        elif mf[p] != after_files[p]:
            a, b = mf[p].splitlines(True), after_files[p].splitlines(True)
            i = next((i for i in range(min(len(a), len(b))) if a[i] != b[i]), min(len(a), len(b)))
            diffs.append("content differs: %s at line %d: model %r / impl %r" % (
                p, i + 1, a[i] if i < len(a) else None, b[i] if i < len(b) else None))
    if ret is not None and list(ans["ret"]) != list(ret):
        diffs.append("return value: model %r / impl %r" % (ans["ret"], ret))
    return diffs


def in_cwd(cwd):
    class _C:
        def __enter__(self):
            self.old = os.getcwd()
            os.chdir(cwd)

        def __exit__(self, *a):
            os.chdir(self.old)
    return _C()


def snapshot(root):
    return read_tree(root)


def tree_diff(a, b):
    out = []
    for k in sorted(set(a) | set(b)):
        if k not in a:
            out.append("+" + k)
        elif k not in b:
            out.append("-" + k)
        elif a[k] != b[k]:
            out.append("~" + k)
    return out
