"""Runs one (template, model, user tags) case through the public state-machine entry point and through
Model/Engine (request only; the caller batches the Lean side)."""
import copy
import os
import sys

import common
import engtpl
import genlib


def langs():
    return {"cpp": sys.modules["kojen.LanguageCPP"].LanguageCPP, "cs": sys.modules["kojen.LanguageCsharp"].LanguageCsharp,
            "py": sys.modules["kojen.LanguagePython"].LanguagePython}


def listing_order(base):
    """template file names in the order the generator's `os.walk` meets them (the defaults of FOR tags are
    collected over the files in that order: with competing defaults the output depends on it)"""
    return [f for _, _, fs in os.walk(os.path.join(base, "tpl")) for f in fs]


def in_listing_order(files, base, name=lambda f: f["name"]):
    order = {n: i for i, n in enumerate(listing_order(base))}
    return sorted(files, key=lambda f: order.get(name(f), len(order)))


def real_run(runner, model, files_lines, usertags, base):
    """returns (captured code model as {name: lines} or None on exception, exception text, request for the model)"""
    # what the generator will read back: the text, cut after every newline
    files_lines = [(n, genlib.split_nl("".join(ls))) for n, ls in files_lines]
    tdir = os.path.join(base, "tpl")
    out = os.path.join(base, "out")
    engtpl.write_templates(files_lines, tdir)
    files_lines = in_listing_order(files_lines, base, name=lambda f: f[0])
    m = copy.deepcopy(model)
    m["templatedir"] = tdir
    m["iface"] = dict(m["iface"], usertags=usertags)
    smgen = sys.modules["kojen.smgen"]
    itf = genlib.build_iface(runner.kt, m["iface"])
    insts = sorted({"data", "evt"})
    with common.quiet():
        gen = smgen.CStateMachineGenerator(tdir, os.path.join(base, "envout"), itf, langs()[m["backend"]]())
        env = engtpl.env_tables(gen, itf, None, insts)
    req = engtpl.engine_request(m, files_lines, itf, env, usertags)
    err = None
    cap = None
    try:
        ret, cap = runner.generate(m, out)
    except Exception as e:      # noqa
        err = "%s: %s" % (type(e).__name__, e)
    if cap is not None:
        cap = {k: v for k, v in cap}
    final = {}
    if err is None and os.path.isdir(out):
        for root, _, fs in os.walk(out):
            for f in fs:
                with open(os.path.join(root, f), errors="surrogateescape", newline="") as fh:
                    final[os.path.relpath(os.path.join(root, f), out)] = fh.read()
    return cap, err, req, final
