"""Controlled scheduler for the *generated* threaded Python state machine (C11).

The generated module is imported with stand-ins for the `threading` and `queue` modules (same
API as far as the template uses it).  Every simulated thread is a real thread, but only one
runs at a time: at each synchronisation point (lock acquire, queue put/get, join, thread
start) the running thread announces what it wants to do and under which condition it can
proceed, and hands control to the scheduler, which picks — with a seeded RNG — one of the
threads whose operation is enabled.  If no thread is enabled while some are unfinished, that is
a deadlock and is reported as such instead of hanging.  The sequence of model labels
(Model/PyQueue.Label) corresponding to the executed schedule is recorded, so that the same
schedule can be replayed on the Lean model."""
import sys
import threading as _real
import types


class Deadlock(Exception):
    pass


class Sim:
    def __init__(self, rnd):
        self.rnd = rnd
        self.threads = {}          # tid -> dict(real, go(Event), want(cond fn or None), done, name)
        self.cv = _real.Condition()
        self.running = None
        self.labels = []
        self.begun = []            # order of process() begins: (src, idx)
        self.active = 0
        self.overlap = False
        self.local = _real.local()
        self.worker_tid = None
        self.worker_obj = None
        self.trace = []
        self.pstate = {}           # tid -> idle / dispatching / waiting / sync / stopping / stopjoin / stopped
        self.region_put = set()

    # ---- identity
    def me(self):
        return getattr(self.local, "tid", None)

    # ---- thread management
    def spawn(self, tid, fn, name=None):
        go = _real.Event()
        info = dict(go=go, want=None, done=False, name=name or str(tid), error=None)
        self.threads[tid] = info

        def body():
            self.local.tid = tid
            go.wait()
            go.clear()
            try:
                fn()
            except BaseException as e:      # noqa
                info["error"] = e
            finally:
                with self.cv:
                    info["done"] = True
                    info["want"] = None
                    self.running = None
                    self.cv.notify_all()
        t = _real.Thread(target=body, daemon=True)
        info["real"] = t
        info["want"] = (lambda: True)       # ready to start
        t.start()

    def sync(self, cond):
        """announce an operation enabled iff cond(); returns when the scheduler lets this thread perform it"""
        tid = self.me()
        info = self.threads[tid]
        with self.cv:
            info["want"] = cond
            self.running = None
            self.cv.notify_all()
        info["go"].wait()
        info["go"].clear()

    def run(self, max_steps=100000):
        """scheduler loop (called from the harness' main thread)"""
        steps = 0
        while True:
            with self.cv:
                while self.running is not None:
                    self.cv.wait(timeout=20)
                    if self.running is not None and not self.threads[self.running]["real"].is_alive():
                        break
                todo = [t for t, i in self.threads.items() if not i["done"]]
                if not todo:
                    return "finished"
                enabled = [t for t in todo if self.threads[t]["want"] is not None and self.threads[t]["want"]()]
                if not enabled:
                    blocked = {self.threads[t]["name"]: True for t in todo}
                    return "blocked:" + ",".join(sorted(blocked))
                tid = self.rnd.choice(sorted(enabled, key=str))
                self.running = tid
                self.threads[tid]["want"] = None
            self.trace.append(tid)
            self.threads[tid]["go"].set()
            steps += 1
            if steps > max_steps:
                return "step-limit"


def make_modules(sim):
    """stand-ins for `threading` and `queue` bound to the simulation"""
    th = types.ModuleType("threading")
    qu = types.ModuleType("queue")

    class RLock:
        def __init__(self):
            self.owner = None
            self.depth = 0

        def __enter__(self):
            me = sim.me()
            if self.owner == me:
                self.depth += 1
                return self
            sim.sync(lambda: self.owner is None)
            self.owner = me
            self.depth = 1
            sim.region_put.discard(me)
            st = sim.pstate.get(me)
            if st == "waiting":            # second region of a synchronous dispatch
                sim.labels.append(["syncBegin", me])
                sim.pstate[me] = "sync"
            return self

        def __exit__(self, *a):
            me = sim.me()
            self.depth -= 1
            if self.depth == 0:
                self.owner = None
                st = sim.pstate.get(me)
                if st == "sync":
                    sim.labels.append(["syncEnd", me])
                    sim.pstate[me] = "idle"
                elif st == "dispatching":
                    # first region of dispatch(): one atomic `trig` in the model
                    sim.labels.append(["trig", me])
                    sim.pstate[me] = "idle" if me in sim.region_put else "waiting"
                elif st == "stopping":
                    sim.labels.append(["stopCall"])
                    sim.pstate[me] = "stopjoin"
            return False

    class Thread:
        def __init__(self, *a, **kw):
            self._started = False
            self._tid = None

        def start(self):
            self._started = True
            self._tid = "worker"
            sim.worker_tid = "worker"
            sim.worker_obj = self
            sim.spawn("worker", self.run, "worker")

        def is_alive(self):
            return self._started and not sim.threads["worker"]["done"]

        def join(self, timeout=None):
            if not self._started:
                raise RuntimeError("cannot join thread before it is started")
            me = sim.me()
            sim.sync(lambda: sim.threads["worker"]["done"])
            if sim.pstate.get(me) == "stopjoin":
                sim.labels.append(["stopJoin"])
                sim.pstate[me] = "stopped"

    def current_thread():
        return sim.worker_obj if sim.me() == "worker" else sim.me()

    class Empty(Exception):
        pass

    class Queue:
        def __init__(self, maxsize=0, *a, **kw):
            self.items = []
            self.maxsize = maxsize

        def put(self, item, *a, **kw):
            me = sim.me()
            # a scheduling point of its own: a thread can be preempted between releasing a lock and the put that
            # follows (or between the test that led here and the put); a bounded queue blocks while it is full
            sim.sync((lambda: True) if self.maxsize <= 0 else (lambda: len(self.items) < self.maxsize))
            self.items.append(item)
            if item is not None:
                sim.region_put.add(me)
                if me == "worker":
                    sim.labels.append(["wCb"])

        def get(self, block=True, timeout=None):
            # a time-out may fire at any moment: with a timeout the operation is always enabled
            sim.sync((lambda: True) if timeout is not None else (lambda: len(self.items) > 0))
            if not self.items:
                raise Empty()
            sim.labels.append(["wGet"])
            return self.items.pop(0)

        def empty(self):
            return not self.items

        def task_done(self):
            pass

        def join(self):
            sim.sync(lambda: False)     # the fixed template never calls it; the old one blocks here

    th.Thread = Thread
    th.RLock = RLock
    th.Lock = RLock
    th.current_thread = current_thread
    qu.Queue = Queue
    qu.Empty = Empty
    return th, qu


def load_machine(sim, directory, name):
    """import <name>Controller / <name>StateMachine from `directory` with the stand-ins"""
    th, qu = make_modules(sim)
    saved = {k: sys.modules.get(k) for k in ("threading", "queue", name + "Controller", name + "StateMachine")}
    sys.path.insert(0, directory)
    try:
        for k in (name + "Controller", name + "StateMachine"):
            sys.modules.pop(k, None)
        ctrl = __import__(name + "Controller")
        sys.modules["threading"] = th
        sys.modules["queue"] = qu
        sm = __import__(name + "StateMachine")
    finally:
        sys.path.remove(directory)
        for k, v in saved.items():
            if v is None:
                sys.modules.pop(k, None)
            else:
                sys.modules[k] = v
    return ctrl, sm
