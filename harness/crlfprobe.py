"""Generated files saved with CRLF line endings (a Windows editor, `core.autocrlf`).

What the pinned generator does: it reads with universal newlines and writes '\\n', so the first regeneration
turns every '\\r\\n' of the file into '\\n' - user code stays under its tags, but the file is not byte-identical
(recorded finding `crlf-line-endings-normalised`, C01).  What must hold in any case, and what this probe
decides: modulo the line terminator, regenerating the CRLF copy of a tree gives what regenerating its LF copy
gives - same model (C01) or a changed model (C02).  A generator that kept the CRLF endings would pass as well."""
import os
import shutil

import e2e
import genlib
from common import scratch

CRLF = "crlf-line-endings-normalised"


def norm(tree, root=None):
    """line terminators unified; the LostCode files name their tree by its absolute path: replaced by a placeholder"""
    out = {}
    for k, v in tree.items():
        v = v.replace(b"\r\n", b"\n")
        if root is not None and k.endswith(".LostCode.txt"):
            v = v.replace(os.path.abspath(root).encode() + b"/", b"<tree>/")
        out[k] = v
    return out


def run(runner, r, change_model):
    """returns dict(kind='ok'|'finding'|'violation', ...)"""
    model = genlib.rand_model(r, ("sm", "sm", "proto"))
    with scratch() as base:
        a, b = os.path.join(base, "lf"), os.path.join(base, "crlf")
        runner.generate(model, a)
        edits = {}
        for rel in sorted(e2e.snapshot(a)):
            w = genlib.edit_file(r, os.path.join(a, rel), fraction=0.8)
            if w:
                edits[rel] = w
        shutil.copytree(a, b)
        converted = []
        for rel, data in sorted(e2e.snapshot(b).items()):
            if b"\r" in data or rel.endswith(".LostCode.txt"):
                continue                      # (user text with a CR of its own: outside the property's inputs)
            with open(os.path.join(b, rel), "wb") as f:
                f.write(data.replace(b"\n", b"\r\n"))
            converted.append(rel)
        before_crlf = e2e.snapshot(b)
        model2, what = (genlib.mutate_model(r, model) if change_model else (model, "same-model"))
        runner.generate(model2, a)
        runner.generate(model2, b)
        lf_tree, crlf_tree = e2e.snapshot(a), e2e.snapshot(b)
        info = dict(model=model, model2=model2, change=what, converted=converted, edited=sorted(edits))
        if norm(crlf_tree, b) != norm(lf_tree, a):
            bad = sorted(k for k in set(lf_tree) | set(crlf_tree) if norm(crlf_tree, b).get(k) != norm(lf_tree, a).get(k))
            return dict(kind="violation", what="regenerating the CRLF copy of a tree does not give what regenerating its LF copy gives (modulo line endings): %s" % bad[:4],
                        lf={k: lf_tree.get(k) for k in bad[:2]}, crlf={k: crlf_tree.get(k) for k in bad[:2]}, **info)
        if not change_model:
            changed = [k for k in converted if crlf_tree.get(k) != before_crlf.get(k).replace(b"\t", b"    ")]
            if changed:
                return dict(kind="finding", files=changed[:3], **info)
        return dict(kind="ok", **info)
