"""Witness probes for the genuine defects recorded in known_findings.txt.  A probe replays
the specific failing input on the real code; the check prints KNOWN-FINDING when it still
reproduces and the file lists it, raises a VIOLATION when it reproduces and is not listed,
and only notes it when it no longer reproduces."""
import os
import re

import e2e
import genlib
from common import known_findings, scratch

UML_DUP = "uml-overload-tag-collision"
UML_DUP_RE = re.compile(r"^USER_.+_\d+_PARAMS$")


def listed(prop, fid):
    return any(p == prop and i == fid for p, i, _ in known_findings())


def text_of(prop, fid):
    for p, i, t in known_findings():
        if p == prop and i == fid:
            return t
    return ""


def record(oc, prop, fid, reproduces, detail):
    if reproduces:
        if listed(prop, fid):
            oc.known.append((fid, text_of(prop, fid)))
        else:
            oc.violations.append(dict(finding=fid, what="defect %s reproduces and is not listed in known_findings.txt" % fid, detail=detail))
    else:
        oc.notes.append("finding %s no longer reproduces on this tree (move it to a fixed: line)" % fid)


UML_DUP_WITNESS_TAGS = {"USER_void_AbstractLayer_Recv_1_PARAMS", "USER_void_AbstractLayer_Send_1_PARAMS"}


def uml_dup_known_shape(names, model=None):
    """the recorded finding, identified by its input: the shipped ProtocolStack diagram, class AbstractLayer, the
    overloads Send/1 and Recv/1.  Any other duplicated tag - another class, another diagram, a synthesised model
    (which never contains two operations agreeing in name and parameter count) - is a different violation."""
    if not names or not all(UML_DUP_RE.match(n) for n in names):
        return False
    if model is not None and (model.get("synth") or model.get("diagram") != "ProtocolStack"):
        return False
    return set(names) <= UML_DUP_WITNESS_TAGS


def uml_dup_witness(runner, backend="umlcs"):
    """shipped ProtocolStack diagram: AbstractLayer has Send/1 and Recv/1 twice.
    returns (file rel path, duplicated names) or (None, set())"""
    model = dict(kind="uml", backend=backend, project=genlib.BLOB, diagram="ProtocolStack", ns_folders=False, dclspc="")
    with scratch() as base:
        out = os.path.join(base, "out")
        runner.generate(model, out)
        for rel, data in sorted(e2e.snapshot(out).items()):
            d = genlib.duplicate_tags(data.decode("utf-8", "surrogateescape"))
            if d:
                return model, rel, d
    return model, None, set()


def probe_uml_dup_regen(runner):
    """C01/C04 witness: text under the first copy of a duplicated tag is copied under the
    second one by a regeneration of the unchanged model"""
    model, rel, dups = uml_dup_witness(runner)
    if not rel:
        return False, dict(model=model, note="no duplicated USER tag in the shipped ProtocolStack output")
    name = sorted(dups)[0]
    with scratch() as base:
        out = os.path.join(base, "out")
        runner.generate(model, out)
        p = os.path.join(out, rel)
        text = open(p).read()
        lines, tags = genlib.tag_positions(text)
        o = next(o for (o, c, n) in tags if n == name)
        lines.insert(o + 1, "    // MARK:known-finding-probe\n")
        with open(p, "w") as f:
            f.write("".join(lines))
        before = e2e.snapshot(out)
        runner.generate(model, out)
        after = e2e.snapshot(out)
    return before != after, dict(model=model, file=rel, tag=name, marker_count_before=before[rel].count(b"MARK:known-finding-probe"),
                                 marker_count_after=after.get(rel, b"").count(b"MARK:known-finding-probe"))
