#!/usr/bin/env python3
"""Writes MANIFEST.json from the table below (kept next to the checks so the two stay in step)."""
import json
import os

ROOT = os.path.dirname(os.path.dirname(os.path.abspath(__file__)))
PY = "/venv/bin/python"

CHECKS = {
    "C01": dict(
        text="Lean proof that collect+emplace+TAB filter is a fixed point on every FreshDoc for every user text and any number of regenerations (C01_fixed_point, C01_iterate, C01_each_block_once_in_order; shipped templates re-checked by decide over regenerated data); tied to the code by differential runs of Preservative.CollectFile/Emplace and of all public generators against the model, with the fixed-point oracle evaluated on the real trees.",
        ref="DESIGN.md 6/C01", technique="Lean 4 proof (induction over documents) + model/implementation correspondence",
        note="Assumes: Lean kernel + propext/Classical.choice/Quot.sound; translator; template expansion enters as the captured fresh code model; text decoding and os.path are modelled and validated by correspondence only. Known finding uml-overload-tag-collision (duplicated UML operation tags) is exercised by a witness probe."),
    "C02": dict(
        text="Lean proof of the commuting diagram regen(F1, disk(F0,B)) = fresh(F1) filled with the old bodies of the shared tags, for arbitrary unrelated F0/F1 and any chain of models (C02_commuting_diagram, C02_chain, C02_chain_body, C02_outside_text_independent, C02_no_foreign_attachment); tied to the code by running chains of model mutations through all generators, comparing with (fresh generation of the new model) + (old blocks) and with the Lean pipeline model.",
        ref="DESIGN.md 6/C02", technique="Lean 4 proof (induction over documents and model chains) + model/implementation correspondence",
        note="Same trusted base as C01. 'Expanded purely from the new model' is structural: the pass takes the finished expansion as input, and the captured expansion equals a fresh generation into an empty directory in every run."),
    "C03": dict(
        text="Lean proof that the LostCode entries are exactly the non-empty blocks of vanished tags, complete and in order (C03_lost_complete, C03_no_spurious_entry), that the name opened for them is abspath(outdir/file)+'.LostCode.txt' for every spelling of outdir and cwd (C03_location) and that it is in the returned list (C03_listed_in_result); byte-exact carry-over of undecodable files is decided by correspondence on files written in binary (the codec is trusted).",
        ref="DESIGN.md 6/C03", technique="Lean 4 proof (filter/fold algebra, path lemmas) + model/implementation correspondence",
        note="Same trusted base as C01 plus Python's surrogateescape codec. Bare CR bytes are outside the domain (universal-newline translation)."),
    "C04": dict(
        text="Lean proof that the preservation pass gives every file exactly the single-file regeneration of its own old content and own expansion, independent of all other files and expansions, for all file names (C04_isolation, C04_other_files_irrelevant, C04_other_expansions_irrelevant); tied to the code by marker-multiset histories over machines whose file names contain one another and by synthetic code models through preserve_usercode_in_files/createoutput.",
        ref="DESIGN.md 6/C04", technique="Lean 4 proof (fold invariant over the ordered dictionary) + model/implementation correspondence",
        note="Same trusted base as C01. Hypotheses: code-model keys pairwise distinct, no generated file named like another's LostCode file. Known finding uml-overload-tag-collision (duplicate tag inside one file) via witness probe."),
    "C05": dict(
        text="Lean proof over the output stage's I/O script (one Op per system operation): after process death at ANY operation index with ANY prefix of buffered data, and after a raised error at ANY operation, every path that is not one of the stage's temporary names holds its old content or the complete new content (C05_per_file_atomic, C05_raised_error, C05_nothing_touched_before_first_rename); tied to the code by translation validation of the traced operation sequence of real runs against script(), and by fault enumeration (ENOSPC raised / os._exit in a forked child) at every structural operation and sampled writes.",
        ref="DESIGN.md 6/C05", technique="Lean 4 proof (induction over the I/O script, every crash index) + translation validation of traced I/O + fault enumeration",
        note="Assumes POSIX rename atomicity and that distinct path strings denote distinct files; the tracer patches open/os.makedirs/os.replace/os.remove/shutil.copymode in the harness process. Power-loss durability (fsync) is out of scope."),
    "C18": dict(
        text="Lean proof that replace-mode Emplace over any well-formed destination yields the destination with exactly the shared bodies replaced, frame and B-only pairs identical, idempotent, and that only the destination entry of the file world changes (C18_sync_result, C18_shared_bodies_replaced, C18_rest_of_B_untouched, C18_B_only_pairs_kept, C18_idempotent, C18_only_destination_written, flatten_splitLines); tied to the code by differential runs of Generate.FileSync against Model.fileSync and against a by-name splice oracle, bytes of A, B and the directory listing compared.",
        ref="DESIGN.md 6/C18", technique="Lean 4 proof (induction over documents, replace mode) + model/implementation correspondence",
        note="Same trusted base as C01. 'Comment style' means characters CleanUpLine strips (/ * # ~ ` @ $ % ? + } ] > = and white space); styles such as <!-- --> are outside the tool's notion of a tag line."),
    "C06": dict(
        text="Lean proofs that the result does not depend on the modelled sources of ambient nondeterminism: set iteration order (sorting is permutation-invariant, with the regenerated fact that every loop over a type-name set iterates sorted(...)), directory-listing order of the template folder (permutation of the code model, via C04 isolation), clock/platform (no shipped template mentions the tags; search-and-replace is the identity there), and the absolute LostCode name; interpreter-level configurations (PYTHONHASHSEED, TZ, cwd, 6 spellings of the output directory, fake clock, shuffled os.walk) are exercised by a subprocess matrix comparing trees bytewise.",
        ref="DESIGN.md 6/C06", technique="Lean 4 proof (permutation invariance, regenerated template facts) + subprocess configuration matrix + path-model correspondence",
        note="The path algebra (join/normpath/abspath) is validated against os.path by correspondence, not proved equal under re-spelling; hash randomisation and os.walk themselves are runtime behaviour outside any model."),
    "C14": dict(
        text="Lean proof, for every preamble, every well-formed stream (fillers free of the preamble's first byte, messages with arbitrary payload) and EVERY list of chunks whose concatenation is the stream, that the modelled IConnection delivers exactly the messages, once, in order, byte-exact, and returns to its initial state (C14_reassembly, C14_chunking_independent, C14_prefix, via the single-chunk step theorem proved by strong induction on the chunk length following the code's branches); a state invariant for arbitrary input bounds every buffer index (C14_state_invariant, C14_header_read_in_bounds); tied to the code by running the compiled IConnection.cpp (ASan+UBSan build and _GLIBCXX_ASSERTIONS build) and the model on the same chunk lists, exhaustively over all cut subsets of short streams.",
        ref="DESIGN.md 6/C14, Appendix B", technique="Lean 4 proof (invariant + strong induction over chunk length, all chunkings) + compiled-probe correspondence with sanitizers",
        note="Domain: bytes < 256, message length < 2^32 (uint32 wrap-around excluded), non-ARM build. Memory safety of the C++ itself is supported by sanitizer runs, not proved against the C++ abstract machine."),
    "C12": dict(
        text="Lean proof that the default-argument text rendered by the generator, fed through C++ aggregate initialisation, yields the declared default (zero where none) at ANY nesting depth (init_render, mutual structural induction), that every factory result is header{preamble,id,size-8}+defaults and a well-formed message for the connection layer (C12_factory_defaults_any_depth, C12_factory_header, C12_factory_type_id), that arguments land in the member of the same position/name (C12_factory_args_by_name) and that packed offsets are prefix sums (C12_offsets_declaration_order, C12_size_is_sum); tied to the code by compiling the generated headers of random interfaces with g++ and clang++ and comparing sizeof/offsetof/factory bytes with the model and with an independent Python packing.",
        ref="DESIGN.md 6/C12", technique="Lean 4 proof (mutual structural induction over nested structs, byte arithmetic) + compiled-probe correspondence",
        note="'Compiles for every interface' is decided per sampled interface by the compilers (partial: not a theorem). Compiler ABI (packed, little endian, IEEE) trusted. Domain: no empty structs, ids/preamble < 2^16."),
    "C13": dict(
        text="Lean proof composing three models: the generated switch dispatches a message to exactly the handler of its type id and undefined ids only to the not-handled hook (C13_dispatch_exact, C13_undefined_id_not_handled, C13_factory_dispatch), any back-to-back sequence of well-formed messages re-chunked arbitrarily is delivered once, in order, byte-identical (C13_roundtrip_any_chunking, from C14_reassembly), and the retry loop succeeds iff an attempt within retries+1 is accepted, never sends after an accepted attempt, sends nothing for negative retries (C13_retry_success_iff, C13_retry_calls, C13_retry_negative); tied to the code by a compiled loop-back probe over generated transmitter/receiver and IConnection.cpp.",
        ref="DESIGN.md 6/C13", technique="Lean 4 proof (composition of C12/C14 models, induction over the retry loop) + compiled loop-back probe correspondence",
        note="Same trusted base as C12/C14; int8 retry counter range; the user-supplied Preamble() override of the receiver is part of the probe."),
    "C08": dict(
        text="Lean proof that the generated process region, for EVERY table, refines the table's reference semantics for every state, event and guard valuation (C08_refines_table: same callbacks in the same order, guards in table order, first row with absent or true guard fires, NoTransition otherwise; C08_sequences: any event sequence with a valuation per event; C08_initial) and that the emitted lines always satisfy CPython's indentation rule, i.e. the module imports (C08_imports); tied to the code by parsing the real generated process region back into the emitter's structure (must equal Model.EmitPy.emit) and by importing and driving the real generated modules through a recording controller.",
        ref="DESIGN.md 6/C08", technique="Lean 4 proof (refinement of emitted program to table semantics, indentation invariant) + parse-back and behavioural correspondence",
        note="CPython's execution of if/return/call is assumed to be what the interpreter of Model/EmitPy does; guards pure within one event; names as in the property's domain."),
    "C09": dict(
        text="Lean proof about the rows the generator writes into make_transition_table for EVERY table: the transition rows are exactly the table lines in order with the same source/event/guard/action/target, only the first carries the initial marker, absent guard/action become gnone/none, rows without target stay internal (C09_rows_in_order, C09_initial); every state of the table - targets included - gets exactly one entry and one exit hook (C09_entry_exit_every_state); everything a row references is in the duplicate-free first-appearance lists the declarations are expanded from (C09_declared_once); tied to the code by parse-back of the generated table and declarations, plus g++ -fsyntax-only of the generated units against an interface-only sml stub.",
        ref="DESIGN.md 6/C09", technique="Lean 4 proof (list algebra over the row emitter) + parse-back correspondence + compiler syntax check against a stub",
        note="boost::sml itself is absent from the sandbox and not modelled: the claim is about the encoding; 'type-check together' is per sampled table (partial). Test.<SM>StateMachine.cpp not compiled (minunit absent)."),
    "C10": dict(
        text="Lean proof that for EVERY table the emitted handler of every (state, event) refines the table (guards in table order, first row with absent/true guard performs exit, action, enter, state change and returns; unlisted pairs and all-guards-false are ignored: C10_handler_refines_table, C10_unlisted_pair_ignored), that every callback a handler makes is declared in the context interface and each guard / (action,event) signature / state hook occurs once (C10_context_declares_calls, C10_context_declares_once), and that every state that can be entered - target-only states included - has its class (C10_every_enterable_state_has_class); tied to the code by brace-matched parse-back of <SM>Internals.cs and <SM>Context.cs.",
        ref="DESIGN.md 6/C10", technique="Lean 4 proof (shared refinement theorem with C08) + parse-back correspondence",
        note="No C# compiler in the sandbox: compile-ability is not claimed; C# statement semantics assumed as in the model's interpreter."),
    "C11": dict(
        text="Lean proof over an interleaving model of the generated threaded machine (producers, worker, stopper, events triggered from callbacks), for EVERY reachable state of EVERY label sequence: the processed events of each source are a prefix of its trigger order and, with queue and pending ones, exactly the triggered events - exactly once, per-producer FIFO, nothing lost (C11_exactly_once_fifo, C11_fifo_prefix); never two process bodies active (C11_run_to_completion); stop() returned implies queue drained and worker gone, after which no worker step is enabled (C11_stop_postcondition, C11_nothing_after_stop); while stop() waits some step is always enabled (C11_no_deadlock) and every worker step strictly decreases a variant no other thread can increase (C11_worker_step_decreases, C11_other_step_keeps_measure), so stop() returns under fairness; tied to the code by executing the real generated module under a seeded cooperative scheduler and replaying each executed schedule on the model.",
        ref="DESIGN.md 6/C11", technique="Lean 4 proof (inductive invariants over all interleavings, variant for termination) + controlled-scheduler trace validation",
        note="Atomicity granularity and CPython's Queue/RLock/join semantics are assumptions validated by the scheduler runs; fairness is assumed for termination; the model is of the template after fix 8102b3d."),
    "C15": dict(
        text="Lean proof over an interleaving model of threaded_dispatcher + threadsafe_queue (k producers, m workers, the destroying thread; every label sequence): with one worker, handled ++ discarded-at-shutdown ++ in-hand ++ queued items of each producer are exactly its dispatched items in order - at most once, per-producer FIFO (C15_at_most_once_fifo, C15_handled_is_prefix), two handler calls in progress are the same call (C15_never_two_at_a_time); while alive a queued item's handler call has begun after at most 4k+5 worker steps in EVERY continuation whatever producers do (C15_eventually_handled, bounded response; C15_alive_progress: the worker's step is enabled); destruction: wake releases every waiter, each worker step lowers a rank, join becomes enabled (C15_wake_releases_all_waiters, C15_worker_rank_decreases, C15_destroy_terminates); with the generated destruction order no handler runs once the derived object is gone (C15_no_handoff_to_dead_object, with the reachable counterexample for the old order); lockset theorem over regenerated access facts (C15_lockset_race_free) and regenerated side conditions (C15_model_side_conditions, C15_stop_first); tied to the code by ThreadSanitizer runs of the real headers under seeded jitter whose logs are replayed on the model.",
        ref="DESIGN.md 6/C15", technique="Lean 4 proof (inductive invariant over all interleavings, bounded-response variant, lockset table) + regenerated source facts + ThreadSanitizer stress runs with trace replay on the model",
        category="proof",
        note="Partial with respect to the C++ memory model: race freedom is a lockset discipline theorem over facts extracted from the headers plus ThreadSanitizer on explored schedules, not a proof against the standard's happens-before; OS scheduler fairness assumed; FIFO/never-two are for one worker as the property states; FreeRTOS/ARM variants not modelled."),
    "C16": dict(
        text="Lean proofs about a string-level transliteration of the template engine (Model/Engine): for every pass and every file cut into chunks the pair expander passes everything outside blocks through and replaces each block in place by the expansion of its body (C16_blocks_in_place); the body of a per-state / per-event / per-action / per-guard block is emitted once per element of the model's list, in list order, for no other element, with every name tag replaced by the element's name in the tag's case variant, NUM by the zero-based index and ALPH by the letter of the a..zA..Z cycle, white-space-only lines dropped (C16_once_per_element_in_order with C16_enum, C16_case_variants, C16_counters, C16_letter_cycle); the loader's blank-line filter empties exactly the space-only lines that follow a space-only line (C16_blank_lines); TAB filter idempotent (C16_tab_filter). The string lemmas underneath (what re.findall and str.replace do on tag-structured text) hold for all literals, names and values free of angle brackets. Tied to the code by function-level and template-level differential runs through the public entry points (well-formed and malformed template directories), and every well-formed case is also compared with a token-level reference expander (Model/EngineSpec) - a difference there is a violation.",
        ref="DESIGN.md 6/C16", technique="Lean 4 proof (string lemmas over tag-structured text, induction over lines/chunks/elements) + model/implementation correspondence at function and template level + reference-expander oracle",
        note="Partial: nested per-state/event/guard transition blocks with alternative text, action-signature and struct/message blocks and signature/member/documentation/attribute lines are covered by the correspondence and the reference expander, not yet by theorems; hypotheses of the theorems are decidable conditions evaluated on every generated case (evidence: theorem_domain_*). Back-end answers enter as tables; EXTENDS/EXCLUDE, TTT renderers, PyAttr, DATETIME/PLATFORM outside the model."),
    "C17": dict(
        text="Lean proofs about the transliterated user-tag pass: on every line every tag on its own becomes its assigned value, else its inline default, else stays as written (C17_usertag_value_default_verbatim with C17_assigned/_default/_verbatim); a conditional block emits exactly the branches whose tag is assigned, in order, the ELSE branch exactly when none was, never a delimiter line, and leaves the automaton outside (C17_if_elseif_else, C17_else_iff); the whole pass over any file of plain lines and blocks (C17_user_pass); two assignments of the same tags differing in the value of one tag t give the same number of lines and equal lines wherever the template line does not mention t (C17_noninterference). Tied to the code as C16, plus every template of a set under all 16 subsets of 4 tags and a direct non-interference check of the shipped templates' own tags on the real output.",
        ref="DESIGN.md 6/C17", technique="Lean 4 proof (scanner lemmas, automaton invariant by induction over branches and items) + model/implementation correspondence + reference-expander oracle + marker-value non-interference on shipped templates",
        note="Partial: the FOR clause (lists, counts, user-tag driven, FIRST/LAST/EACH/each/NUM/ALPH) is covered by the correspondence and the reference expander, not yet by theorems. Values rendered with str(); conditional blocks not nested; FOR over a single word / empty value is rejected by the generator and has no meaning by the rules."),
}
PENDING = {}

def main():
    props = [json.loads(l) for l in open(os.path.join(ROOT, "properties.jsonl"))]
    checks = []
    na = []
    for p in props:
        pid = p["id"]
        if pid in CHECKS:
            c = CHECKS[pid]
            checks.append(dict(
                property_id=pid,
                quick_cmd="%s harness/vcheck.py %s --tier quick" % (PY, pid),
                thorough_cmd="%s harness/vcheck.py %s --tier thorough" % (PY, pid),
                evidence_file="evidence/%s.json" % pid,
                replay_cmd_template="%s harness/vcheck.py %s --replay {path}" % (PY, pid),
                engine="lean4-kojenverif",
                level_claimed=dict(category=c.get("category", "proof"), text=c["text"], design_ref=c["ref"]),
                level_note=c["note"],
                technique=c["technique"],
            ))
        else:
            na.append(dict(property_id=pid, reason=PENDING.get(pid, "check not built yet in this round (planned: Lean model + correspondence, see DESIGN.md section 6); not claimed until it exists")))
    m = dict(
        version=1,
        setup_cmd="%s harness/translate.py -v && cd lean && lake build KojenVerif" % PY,
        hooks=dict(guard="KOJEN_VERIF", enable="no hooks in /repo: the harness instruments from outside (monkeypatching in its own process, compiled probes)",
                   baseline_off_cmd="cd /repo && /venv/bin/python -m pytest -q -p no:cacheprovider --timeout=900", source_commits=[], add_only=True),
        engines=[dict(name="lean4-kojenverif", path="lean", serves_properties=sorted(CHECKS),
                      kind_free_text="Lean 4.33 library KojenVerif (models, lemmas, property theorems, generated facts) + JSON line driver; python harness/ runs proofs, audit, correspondence, failing-input search")],
        checks=checks,
        notes="Fix commits in /repo are listed in known_findings.txt (fixed: lines); recorded findings print KNOWN-FINDING lines.",
        not_applicable=na,
    )
    with open(os.path.join(ROOT, "MANIFEST.json"), "w") as f:
        json.dump(m, f, indent=1)
    print("MANIFEST.json: %d checks, %d not claimed" % (len(checks), len(na)))

if __name__ == "__main__":
    main()
