#!/usr/bin/env python3
"""Confirm and adopt a seeded change produced in a scratch worktree.
usage: seedadopt.py <worktree> <seed-id> <property> [more properties to run]
Confirms: pytest passes in the worktree with the change; the demo fails there and passes on /repo; the patch applies
to /repo.  Copies patch/demo/meta to seeded/<seed-id>/, runs the quick checks against the patched /repo (mutrun),
records the outcome in meta.json."""
import json
import os
import shutil
import subprocess
import sys

ROOT = os.path.dirname(os.path.dirname(os.path.abspath(__file__)))


def sh(cmd, **kw):
    return subprocess.run(cmd, shell=True, text=True, capture_output=True, **kw)


def demo_cmd(seed_dir, tree):
    if os.path.exists(os.path.join(seed_dir, "demo.py")):
        return "cd %s && PYTHONPATH=%s /venv/bin/python demo.py %s" % (seed_dir, tree, tree)
    return "cd %s && sh demo.sh %s" % (seed_dir, tree)


def main():
    wt, sid, props = sys.argv[1], sys.argv[2], sys.argv[3:]
    sd = os.path.join(wt, "_seed")
    t = sh("cd %s && PYTHONPATH=%s /venv/bin/python -m pytest -q -p no:cacheprovider --timeout=900 2>&1 | tail -1" % (wt, wt))
    print("pytest in worktree:", t.stdout.strip())
    a = sh(demo_cmd(sd, wt), timeout=900)
    b = sh(demo_cmd(sd, "/repo"), timeout=900)
    print("demo with change: exit", a.returncode, "| on /repo: exit", b.returncode)
    c = sh("git -C /repo apply --check %s" % os.path.join(sd, "patch.diff"))
    print("patch applies to /repo:", c.returncode == 0, c.stderr.strip()[:200])
    if "57 passed" not in t.stdout or a.returncode == 0 or b.returncode != 0 or c.returncode != 0:
        print("NOT CONFIRMED")
        return 1
    dst = os.path.join(ROOT, "seeded", sid)
    os.makedirs(dst, exist_ok=True)
    for f in os.listdir(sd):
        if f in ("patch.diff", "demo.py", "demo.sh", "demo.cpp", "meta.json"):
            shutil.copy(os.path.join(sd, f), os.path.join(dst, f))
    m = sh("/venv/bin/python %s/harness/mutrun.py %s %s" % (ROOT, os.path.join(dst, "patch.diff"), " ".join(props)), timeout=3600)
    print(m.stdout)
    meta = json.load(open(os.path.join(dst, "meta.json")))
    meta["confirmed"] = "pytest 57 passed with the patch; demo exits %d with the patch and 0 on /repo (re-run by the framework author)" % a.returncode
    meta["checks_run"] = [l for l in m.stdout.splitlines() if l.startswith("C")]
    json.dump(meta, open(os.path.join(dst, "meta.json"), "w"), indent=1)
    return 0


if __name__ == "__main__":
    sys.exit(main())
