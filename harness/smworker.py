#!/usr/bin/env python3
"""Worker for C08: imports a *generated* Python state machine from a directory (fresh
interpreter), drives event sequences through a recording controller and prints, as JSON,
the callback trace and the state after every event.  stdin: {"dir", "name", "states",
"guards", "actions", "events": {name: nparams}, "runs": [[(event, [true guards]), ...], ...]}"""
import contextlib
import io
import json
import sys


def main():
    cfg = json.load(sys.stdin)
    sys.path.insert(0, cfg["dir"])
    name = cfg["name"]
    out = dict(import_ok=False, runs=[])
    try:
        with contextlib.redirect_stdout(io.StringIO()):
            ctrl_mod = __import__(name + "Controller")
            sm_mod = __import__(name + "StateMachine")
        out["import_ok"] = True
    except BaseException as e:
        out["error"] = "%s: %s" % (type(e).__name__, e)
        print(json.dumps(out))
        return
    Base = getattr(ctrl_mod, name + "Controller")

    class Rec(Base):
        def __init__(self):
            with contextlib.redirect_stdout(io.StringIO()):
                Base.__init__(self)
            self.trace = []
            self.true_guards = set()

    def mk_guard(g):
        def f(self, event):
            self.trace.append(["guard", g])
            return g in self.true_guards
        return f

    def mk_action(a):
        def f(self, event):
            self.trace.append(["action", a, type(event).__name__])
        return f

    def mk_state(kind, s):
        def f(self, event):
            self.trace.append([kind, s])
        return f

    for g in cfg["guards"]:
        setattr(Rec, g, mk_guard(g))
    for a in cfg["actions"]:
        setattr(Rec, a, mk_action(a))
    for s in cfg["states"]:
        setattr(Rec, "On%sEntry" % s, mk_state("entry", s))
        setattr(Rec, "On%sExit" % s, mk_state("exit", s))
    setattr(Rec, "NoTransition", lambda self, event: self.trace.append(["notransition"]))

    SM = getattr(sm_mod, name + "StateMachine")
    for run in cfg["runs"]:
        res = dict(steps=[])
        try:
            with contextlib.redirect_stdout(io.StringIO()):
                ctrl = Rec()
                sm = SM(ctrl)
            res["construct"] = ctrl.trace
            res["initial"] = [s for s in cfg["states"] if getattr(sm, "Is" + s)()]
            for ev, tg in run:
                ctrl.trace = []
                ctrl.true_guards = set(tg)
                with contextlib.redirect_stdout(io.StringIO()):
                    getattr(sm, "Trigger" + ev)(*([0] * cfg["events"][ev]))
                res["steps"].append(dict(trace=ctrl.trace, state=[s for s in cfg["states"] if getattr(sm, "Is" + s)()]))
            with contextlib.redirect_stdout(io.StringIO()):
                sm.stop()
        except BaseException as e:
            res["error"] = "%s: %s" % (type(e).__name__, e)
        out["runs"].append(res)
    print(json.dumps(out))


if __name__ == "__main__":
    main()
