"""Synthesised class diagrams: random UML models built directly from kojen's own ClassDiagram / Class /
ClassOperation / ClassAttribute objects and fed to the public UML entry points in place of the diagram the
SQLite extraction would deliver (the extraction itself is the subject of C19 / C20).

The shipped Visual Paradigm project has two diagrams only; this generator reaches the shapes they lack:
read-only attributes (the generator then writes an initialising constructor of its own), modelled
constructors with any number of parameters, static / const / virtual operations, interfaces, structs,
enumerations, several classes per namespace, nested namespaces.

Within one class the operations are kept distinct in (name, number of parameters): two operations agreeing in
cleaned return type, name and parameter count share a USER tag - that is the recorded finding
`uml-overload-tag-collision`, exercised by its own witness probe.  Every class is in a package (a class in no
package is the recorded finding `uml-element-outside-package`)."""
import contextlib
import copy
import sys

PRIM = ["int", "double", "bool", "float", "char", "unsigned int"]
WORDS = ["Track", "Disc", "Player", "Door", "Timer", "Layer", "Packet", "Buffer", "Item", "Node", "Frame", "Port"]
VERBS = ["Play", "Stop", "Open", "Close", "Send", "Recv", "Reset", "Get", "Set", "Find", "Add", "Remove"]
NSS = ["App", "App::Core", "Proto", "X::Y::Z"]


def _ident(r, pool, taken, prefix=""):
    for _ in range(50):
        w = prefix + r.choice(pool) + (r.choice(pool) if r.random() < 0.4 else "")
        if w not in taken:
            taken.add(w)
            return w
    w = prefix + r.choice(pool) + str(len(taken))
    taken.add(w)
    return w


def rand_spec(r):
    taken = set()
    classes = []
    for _ in range(r.randint(1, 4)):
        kind = r.choice(["class", "class", "class", "interface", "struct", "enum"])
        name = _ident(r, WORDS, taken, r.choice(["C", "", "I"]) if kind != "enum" else "E")
        c = dict(name=name, ns=r.choice(NSS), kind=kind, doc=r.choice(["", "A %s." % name]), attrs=[], ops=[], literals=[])
        if kind == "enum":
            c["literals"] = ["%s_%d" % (name.upper(), i) for i in range(r.randint(1, 4))]
        else:
            ataken = set()
            for _ in range(r.randint(0, 4)):
                c["attrs"].append(dict(name="m_" + _ident(r, [w.lower() for w in WORDS], ataken), type=r.choice(PRIM),
                                       const=kind == "class" and r.random() < 0.4, static=r.random() < 0.15,
                                       vis=r.choice(["private", "private", "protected", "public"]),
                                       getter=r.random() < 0.4, setter=r.random() < 0.3, doc=r.choice(["", "doc"])))
            sigs = set()
            nops = r.randint(0, 5) if kind != "struct" else r.randint(0, 1)
            nconst = sum(1 for a in c["attrs"] if a["const"] and not a["static"])
            for _ in range(nops):
                ctor = kind == "class" and r.random() < 0.35
                oname = name if ctor else r.choice(VERBS) + r.choice(["", "", "All", "Now"])
                # a modelled constructor often takes one value per read-only attribute - as many parameters as the
                # initialising constructor the generator writes on its own
                n = nconst if ctor and r.random() < 0.5 else r.randint(0, 3)
                if (oname, n) in sigs:
                    continue
                sigs.add((oname, n))
                c["ops"].append(dict(name=oname, ret="void" if ctor else r.choice(PRIM + ["void", "void"]),
                                     params=[dict(name="p%d" % i, type=r.choice(PRIM), direction=r.choice(["in", "inout", "out"])) for i in range(n)],
                                     virtual=kind == "interface" or (not ctor and r.random() < 0.2),
                                     static=not ctor and kind == "class" and r.random() < 0.15,
                                     const=not ctor and r.random() < 0.2,
                                     vis=r.choice(["public", "public", "protected", "private"]), doc=r.choice(["", "does it"])))
        classes.append(c)
    return dict(diagram="Synth" + r.choice(["", "A", "B"]), classes=classes)


def mutate_spec(r, spec):
    """a model change: rename a class, add / remove an operation or attribute, toggle read-only"""
    s = copy.deepcopy(spec)
    cs = [c for c in s["classes"] if c["kind"] != "enum"]
    if not cs:
        return s, "none"
    c = r.choice(cs)
    k = r.randrange(5)
    if k == 0:
        old = c["name"]
        c["name"] = old + "X"
        for o in c["ops"]:
            if o["name"] == old:
                o["name"] = c["name"]
        return s, "rename-class"
    if k == 1 and c["ops"]:
        del c["ops"][r.randrange(len(c["ops"]))]
        return s, "remove-operation"
    if k == 2:
        n = r.randint(0, 3)
        nm = r.choice(VERBS) + "New"
        if all((o["name"], len(o["params"])) != (nm, n) for o in c["ops"]):
            c["ops"].append(dict(name=nm, ret="void", params=[dict(name="q%d" % i, type="int", direction="in") for i in range(n)],
                                 virtual=c["kind"] == "interface", static=False, const=False, vis="public", doc=""))
        return s, "add-operation"
    if k == 3 and c["attrs"]:
        a = r.choice(c["attrs"])
        a["const"] = not a["const"] and c["kind"] == "class"
        return s, "toggle-read-only"
    c["attrs"].append(dict(name="m_extra%d" % len(c["attrs"]), type="int", const=False, static=False, vis="private", getter=True, setter=True, doc=""))
    return s, "add-attribute"


def build(spec):
    """the ClassDiagram object umlgen works on"""
    V = sys.modules["kojen.vppclassdiagram"]
    diagram = V.ClassDiagram(spec["diagram"], "diagram0", [], None)
    for i, c in enumerate(spec["classes"]):
        k = V.Class.__new__(V.Class)
        k.parent_classDiagram = diagram
        k.ID = "cls%d" % i
        k.MODEL_TYPE = "Class"
        k.PARENT_ID = ""
        k.NAME = c["name"]
        k.BLOB_STRING = ""
        k.dict_from_BLOB_STRING = {}
        k.PURE_VIRTUAL_INTERFACE = c["kind"] == "interface"
        k.AUTOGEN = False
        k.USER_COMMENTS = c["doc"]
        k.NAMESPACE = c["ns"]
        k.OPERATIONS = []
        k.ATTRIBUTES = []
        k.IS_ENUM = c["kind"] == "enum"
        k.ENUM_LITERALS = list(c["literals"])
        k.IS_STRUCT = c["kind"] == "struct"
        k.IS_STRUCT_PACKED = False
        for a in c["attrs"]:
            at = V.ClassAttribute(None, None)
            at.From(a["name"], a["type"], "", "", "", a["static"], a["const"], a["vis"], a["getter"], a["setter"], a["doc"])
            k.ATTRIBUTES.append(at)
        for o in c["ops"]:
            op = V.ClassOperation({'name': o["name"], 'child_0': {}}, None)
            op.RETURN_TYPE = o["ret"]
            op.VISIBILITY = o["vis"]
            op.VIRTUAL = o["virtual"]
            op.IS_STATIC = o["static"]
            op.IS_CONST = o["const"]
            op.USER_COMMENTS = o["doc"]
            for p in o["params"]:
                op.PARAMETERS.append({'const': "const" if p["direction"] == "in" else "", 'type': p["type"], 'name': p["name"], 'modifier': "",
                                      'defaultvalue': "", 'multiplicity': "", 'direction': p["direction"]})
            k.OPERATIONS.append(op)
        diagram.classes[k.ID] = k
    return diagram


@contextlib.contextmanager
def installed(spec):
    """while active, the SQLite extraction step of the UML entry points delivers the synthesised diagram"""
    U = sys.modules["kojen.umlgen"]
    orig = U.ExtractClassDiagram
    U.ExtractClassDiagram = lambda name, path: build(spec)
    try:
        yield
    finally:
        U.ExtractClassDiagram = orig
