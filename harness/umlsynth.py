"""Synthesised class diagrams: random UML models built directly from kojen's own ClassDiagram / Class /
ClassOperation / ClassAttribute objects and fed to the public UML entry points in place of the diagram the
SQLite extraction would deliver (the extraction itself is the subject of C19 / C20).

The shipped Visual Paradigm project has two diagrams only; this generator reaches the shapes they lack:
read-only attributes (the generator then writes an initialising constructor of its own), modelled
constructors with any number of parameters, static / const / virtual operations, interfaces, structs,
enumerations, several classes per namespace, nested namespaces.

Within one class the operations are kept distinct in (name, number of parameters): two operations agreeing in
cleaned return type, name and parameter count share a USER tag - that is the recorded finding
`uml-overload-tag-collision`, exercised by its own witness probe; the same holds for the operations a class takes
over from the interfaces it realises.

Relationships (`relations=True`): realisation of interfaces (also interfaces extending interfaces), generalisation
between concrete classes, associations / aggregations / compositions with names, multiplicities, visibilities,
getters and setters - acyclic where C++ needs it.  `wellformed=True` keeps to models a C++ compiler can accept
(no static const operation, no modelled constructor next to read-only attributes, no static read-only attribute,
default-constructible bases and composed parts): the stream C19's compile oracle runs on."""
import contextlib
import copy
import sys

PRIM = ["int", "double", "bool", "float", "char", "unsigned int"]
WORDS = ["Track", "Disc", "Player", "Door", "Timer", "Layer", "Packet", "Buffer", "Item", "Node", "Frame", "Port"]
VERBS = ["Play", "Stop", "Open", "Close", "Send", "Recv", "Reset", "Get", "Set", "Find", "Add", "Remove"]
NSS = ["App", "App::Core", "Proto", "X::Y::Z", "App", "Proto", "", "Platform::Services::Messaging"]


def _ident(r, pool, taken, prefix=""):
    for _ in range(50):
        w = prefix + r.choice(pool) + (r.choice(pool) if r.random() < 0.4 else "")
        if w not in taken:
            taken.add(w)
            return w
    w = prefix + r.choice(pool) + str(len(taken))
    taken.add(w)
    return w


def _with_defaults(r, params):
    """default values for a tail of the parameters (in-parameters of a primitive type)"""
    if params and r.random() < 0.3:
        k = r.randint(1, len(params))
        for p_ in params[-k:]:
            p_["direction"] = "in"
            p_["default"] = {"bool": "true", "double": "1.5", "float": "0.5f", "char": "'c'"}.get(p_["type"], "0")
    return params


def rand_spec(r, wellformed=False, relations=None, focus=None):
    taken = set()
    classes = []
    for _ in range(r.randint(1, 4)):
        kind = r.choice(["class", "class", "class", "interface", "struct", "enum"])
        name = _ident(r, WORDS, taken, r.choice(["C", "", "I"]) if kind != "enum" else "E")
        c = dict(name=name, ns=r.choice(NSS), kind=kind, doc=r.choice(["", "A %s." % name]), attrs=[], ops=[], literals=[])
        if kind == "enum":
            c["literals"] = ["%s_%d" % (name.upper(), i) for i in range(r.randint(1, 4))]
        else:
            ataken = set()
            for _ in range(r.randint(0, 4)):
                static = r.random() < 0.15
                c["attrs"].append(dict(name="m_" + _ident(r, [w.lower() for w in WORDS], ataken), type=r.choice(PRIM),
                                       const=kind == "class" and r.random() < 0.4 and not (wellformed and static), static=static,
                                       vis=r.choice(["private", "private", "protected", "public"]),
                                       getter=r.random() < 0.4, setter=r.random() < 0.3, doc=r.choice(["", "doc"])))
            sigs = set()
            nops = r.randint(0, 5) if kind != "struct" else r.randint(0, 1)
            nconst = sum(1 for a in c["attrs"] if a["const"] and not a["static"])
            force_ctor = kind == "class" and nconst and nops and not wellformed and r.random() < 0.4
            for k_ in range(nops):
                ctor = (kind == "class" and r.random() < 0.35 and not (wellformed and nconst)) or (force_ctor and k_ == 0)
                oname = name if ctor else r.choice(VERBS) + r.choice(["", "", "All", "Now"])
                if not ctor and c["ops"] and r.random() < 0.25:
                    oname = r.choice(c["ops"])["name"]          # an overload: same name, another number of parameters
                    if oname == name:
                        ctor = True
                # a modelled constructor often takes one value per read-only attribute - as many parameters as the
                # initialising constructor the generator writes on its own
                n = nconst if ctor and (r.random() < 0.5 or (force_ctor and k_ == 0)) else r.randint(0, 3)
                if (oname, n) in sigs:
                    continue
                sigs.add((oname, n))
                static = not ctor and kind == "class" and r.random() < 0.15
                c["ops"].append(dict(name=oname, ret="void" if ctor else r.choice(PRIM + ["void", "void"]),
                                     params=_with_defaults(r, [dict(name="p%d" % i, type=r.choice(PRIM), direction=r.choice(["in", "inout", "out"])) for i in range(n)]),
                                     virtual=kind == "interface" or (not ctor and r.random() < 0.2 and not (wellformed and static)),
                                     static=static,
                                     const=not ctor and r.random() < 0.2 and not (wellformed and static),
                                     vis=r.choice(["public", "public", "protected", "private"]), doc=r.choice(["", "does it"])))
        classes.append(c)
    if focus == "packed":
        # a packed struct whose members have long declarations: a long member name, a member typed by an enumeration
        # or a plain struct of a deeply nested package
        ns = r.choice(["Platform::Services::Messaging", "App::Core", "X::Y::Z"])
        en = _ident(r, WORDS, taken, "E")
        classes.append(dict(name=en, ns=ns, kind="enum", doc="", attrs=[], ops=[], literals=[en.upper() + "_A", en.upper() + "_B"]))
        sn = _ident(r, WORDS, taken, "s")
        attrs = []
        for k_ in range(r.randint(1, 4)):
            long_ = r.random() < 0.6
            a = dict(name="m_%s%d" % (r.choice(WORDS).lower(), k_) + ("_" + r.choice(["of_the_previous_frame", "as_received_from_peer", "pending_confirmation"]) if long_ else ""),
                     type=r.choice(PRIM), const=False, static=False, vis="public", getter=False, setter=False, doc=r.choice(["", "doc"]))
            if r.random() < 0.5:
                a["tref"], a["mod"] = len(classes) - 1, ""
            attrs.append(a)
        classes.append(dict(name=sn, ns=r.choice([ns, "App", ""]), kind="struct", doc="", attrs=attrs, ops=[], literals=[], packed=True))
    if focus == "overloads":
        # overloads that differ only by parameters with default values: Set(int) / Set(int, int = 0) / Set(int, int = 0, bool = true)
        cn = _ident(r, WORDS, taken, "C")
        verb = r.choice(VERBS)
        ops = []
        for n_ in r.sample([0, 1, 2, 3], r.randint(2, 3)):
            ps = [dict(name="p%d" % i, type=r.choice(PRIM), direction="in") for i in range(n_)]
            for p_ in ps[1:] if r.random() < 0.8 else []:
                p_["default"] = {"bool": "true", "double": "1.5", "float": "0.5f", "char": "'c'"}.get(p_["type"], "0")
            ops.append(dict(name=verb, ret="void", params=ps, virtual=False, static=False, const=False, vis="public", doc=""))
        classes.append(dict(name=cn, ns=r.choice(NSS), kind="class", doc="", attrs=[], ops=ops, literals=[]))
    constpair = None
    if focus == "constpair":
        # an interface declaring two operations that differ in nothing but constness (Get(int) / Get(int) const - two pure
        # virtual functions in C++), realised by a class, directly or through an interface extending it
        iname = _ident(r, WORDS, taken, "I")
        verb = r.choice(VERBS)
        types = [r.choice(PRIM) for _ in range(r.randint(0, 2))]
        ret = r.choice(["void", "int", "bool"])
        ops = [dict(name=verb, ret=ret, params=[dict(name="p%d" % i, type=t, direction="in") for i, t in enumerate(types)],
                    virtual=True, static=False, const=k, vis="public", doc="") for k in r.choice([(False, True), (True, False)])]
        classes.append(dict(name=iname, ns=r.choice(NSS), kind="interface", doc="", attrs=[], ops=ops, literals=[]))
        chain = [len(classes) - 1]
        if r.random() < 0.4:
            classes.append(dict(name=_ident(r, WORDS, taken, "I"), ns=r.choice(NSS), kind="interface", doc="", attrs=[], literals=[],
                                ops=[dict(name="Poll", ret="int", params=[], virtual=True, static=False, const=False, vis="public", doc="")]))
            chain.append(len(classes) - 1)
        classes.append(dict(name=_ident(r, WORDS, taken, "C"), ns=r.choice(NSS), kind="class", doc="", attrs=[], ops=[], literals=[]))
        chain.append(len(classes) - 1)
        constpair = chain
    twins = None
    if focus == "twins":
        # two elements with the same unqualified name in different packages, one referring to the other (only meaningful with
        # namespace folders: <A>/<Name>.h and <B>/<Name>.h are different files)
        tn = _ident(r, WORDS, taken, "")
        classes.append(dict(name=tn, ns="Proto", kind="interface", doc="", attrs=[], literals=[],
                            ops=[dict(name="Poll", ret="int", params=[], virtual=True, static=False, const=False, vis="public", doc="")]))
        classes.append(dict(name=tn, ns=r.choice(["App", "App::Core"]), kind="class", doc="", attrs=[], ops=[], literals=[]))
        twins = (len(classes) - 2, len(classes) - 1)
    spec = dict(diagram="Synth" + r.choice(["", "A", "B"]), classes=classes, inherits=[], assocs=[])
    if twins:
        spec["inherits"].append(dict(frm=twins[0], to=twins[1], realization=True))
    if constpair:
        for b, d in zip(constpair, constpair[1:]):
            spec["inherits"].append(dict(frm=b, to=d, realization=True))
    if relations if relations is not None else r.random() < 0.5:
        add_relations(r, spec, wellformed)
        add_typed_members(r, spec)
    return spec


def _complete_edges(spec):
    """(a, b): the header of a needs the complete type b (base class, member by value, composed part)"""
    e = {(h["to"], h["frm"]) for h in spec["inherits"]}
    e |= {(a["frm"], a["to"]) for a in spec["assocs"] if a["type"] == "Composition"}
    for i, c in enumerate(spec["classes"]):
        e |= {(i, a["tref"]) for a in c["attrs"] if "tref" in a and a.get("mod") == ""}
    return e


def _reaches(edges, a, b):
    seen, todo = set(), [a]
    while todo:
        x = todo.pop()
        if x == b:
            return True
        if x in seen:
            continue
        seen.add(x)
        todo += [y for (w, y) in edges if w == x]
    return False


def add_typed_members(r, spec):
    """attributes, parameters and return values typed by other elements of the diagram (by value: enumerations and
    default-constructible classes / structs declared earlier; by pointer or reference: any class), packed structs,
    a few long member names"""
    cs = spec["classes"]
    n = len(cs)
    for i, c in enumerate(cs):
        if c["kind"] not in ("class", "struct", "interface"):
            continue
        by_value = [j for j in range(n) if j != i and (cs[j]["kind"] == "enum" or (j < i and _default_constructible(cs[j])))]
        by_ptr = [j for j in range(n) if j != i and cs[j]["kind"] in ("class", "struct", "interface")]
        if c["kind"] == "struct" and "packed" not in c:
            c["packed"] = r.random() < 0.4
        for a in c["attrs"]:
            if a["const"] or a["static"] or r.random() >= 0.35:
                continue
            j = r.choice(by_value) if by_value else None
            if j is not None and r.random() < 0.6 and not _reaches(_complete_edges(spec), j, i):
                a["tref"], a["mod"] = j, ""
            elif by_ptr and not c.get("packed"):
                a["tref"], a["mod"] = r.choice(by_ptr), "*"
            if r.random() < 0.3:
                a["name"] = a["name"] + "_" + r.choice(["of_the_previous_frame", "as_received_from_peer", "pending_confirmation"])
        for o in c["ops"]:
            for p_ in o["params"]:
                if "default" in p_:
                    continue
                if r.random() < 0.2 and (by_ptr or by_value):
                    j = r.choice(by_ptr + [k for k in by_value if cs[k]["kind"] == "enum"])
                    p_["tref"], p_["mod"] = j, ("" if cs[j]["kind"] == "enum" else r.choice(["*", "&"]))
            if o["name"] != c["name"] and by_ptr and r.random() < 0.12:
                o["ret_tref"], o["ret_mod"] = r.choice(by_ptr), "*"


def _sigs(c):
    return {(o["name"], len(o["params"])) for o in c["ops"]}


def inherited_sigs(spec, i):
    """(name, number of parameters) of the operations class i takes over from the interfaces it realises, transitively
    and once per path (an interface reached twice - a redundant realisation - counts twice: the generator overrides its
    operations once per path, and C++ would see an ambiguous base)"""
    out = []
    for h in spec["inherits"]:
        if h["to"] == i and spec["classes"][h["frm"]]["kind"] == "interface":
            out += sorted(_sigs(spec["classes"][h["frm"]])) + inherited_sigs(spec, h["frm"])
    return out


def _default_constructible(c):
    return c["kind"] in ("class", "struct") and not any(a["const"] for a in c["attrs"]) and not any(o["name"] == c["name"] for o in c["ops"])


def add_relations(r, spec, wellformed):
    cs = spec["classes"]
    n = len(cs)

    def try_inherit(b, d, realization):
        spec["inherits"].append(dict(frm=b, to=d, realization=realization))
        # every class below d must still have pairwise distinct operations (own + taken over)
        for k in range(n):
            own = sorted(_sigs(cs[k]))
            allsigs = own + inherited_sigs(spec, k)
            if len(allsigs) != len(set(allsigs)):
                spec["inherits"].pop()
                return False
        return True

    for d in range(n):
        for b in range(n):
            if b == d:
                continue
            kb, kd = cs[b]["kind"], cs[d]["kind"]
            if kb == "interface" and kd == "class" and r.random() < 0.5:
                try_inherit(b, d, True)
            elif kb == "interface" and kd == "interface" and b < d and r.random() < 0.35:
                try_inherit(b, d, r.random() < 0.5)
            elif kb == "class" and kd == "class" and b < d and r.random() < 0.3 and (not wellformed or _default_constructible(cs[b])):
                try_inherit(b, d, False)
    holders = [i for i in range(n) if cs[i]["kind"] == "class"]
    targets = [i for i in range(n) if cs[i]["kind"] in ("class", "interface", "struct")]
    for k in range(r.randint(0, 3) if holders and targets else 0):
        a, b = r.choice(holders), r.choice(targets)
        ty = r.choice(["Association", "Aggregation", "Composition"])
        if ty == "Composition" and (cs[b]["kind"] == "interface" or a == b or (wellformed and not (_default_constructible(cs[b]) and b < a))):
            ty = "Aggregation"
        if any(x["frm"] == a and x["to"] == b or x["frm"] == b and x["to"] == a for x in spec["assocs"]):
            continue        # one relationship per pair: the member names derive from the type
        mult = lambda: r.choice(["0..1", "1", "*", "0..*", "1..*", "0..1", "1"])
        spec["assocs"].append(dict(frm=a, to=b, type=ty, name=r.choice(["", "", "m_link%d" % k]), doc=r.choice(["", "linked"]),
                                   from_mult=("1" if ty == "Composition" else mult()), to_mult=(mult() if ty == "Association" else "0"),
                                   from_vis=r.choice(["private", "private", "protected", "public"]), to_vis=r.choice(["private", "public"]),
                                   from_getter=r.random() < 0.4, from_setter=r.random() < 0.3, to_getter=r.random() < 0.3, to_setter=r.random() < 0.2))


def mutate_spec(r, spec):
    """a model change: rename a class, add / remove an operation or attribute, toggle read-only, add / remove a realisation,
    add / remove an association"""
    s = copy.deepcopy(spec)
    cs = [c for c in s["classes"] if c["kind"] != "enum"]
    if not cs:
        return s, "none"
    c = r.choice(cs)
    k = r.randrange(8)
    if k == 5 and s.get("inherits"):
        del s["inherits"][r.randrange(len(s["inherits"]))]      # the operations taken over from the interface go with it
        return s, "remove-inheritance"
    if k == 6:
        n = len(s["classes"])
        pairs = [(b, d) for b in range(n) for d in range(n) if s["classes"][b]["kind"] == "interface" and s["classes"][d]["kind"] == "class"
                 and not any(h["frm"] == b and h["to"] == d for h in s.get("inherits", []))]
        if pairs:
            b, d = r.choice(pairs)
            s.setdefault("inherits", []).append(dict(frm=b, to=d, realization=True))
            for i in range(n):
                allsigs = sorted(_sigs(s["classes"][i])) + inherited_sigs(s, i)
                if len(allsigs) != len(set(allsigs)):
                    s["inherits"].pop()
                    break
        return s, "add-realization"
    if k == 7:
        if s.get("assocs") and r.random() < 0.5:
            del s["assocs"][r.randrange(len(s["assocs"]))]
            return s, "remove-association"
        n = len(s["classes"])
        holders = [i for i in range(n) if s["classes"][i]["kind"] == "class"]
        targets = [i for i in range(n) if s["classes"][i]["kind"] in ("class", "interface", "struct")]
        if holders and targets:
            a, b = r.choice(holders), r.choice(targets)
            if not any(x["frm"] == a and x["to"] == b or x["frm"] == b and x["to"] == a for x in s.get("assocs", [])):
                s.setdefault("assocs", []).append(dict(frm=a, to=b, type=r.choice(["Association", "Aggregation"]), name="", doc="", from_mult=r.choice(["0..1", "*"]),
                                                       to_mult="0..1", from_vis="private", to_vis="private", from_getter=True, from_setter=False, to_getter=False, to_setter=False))
        return s, "add-association"
    if k == 0:
        old = c["name"]
        c["name"] = old + "X"
        for o in c["ops"]:
            if o["name"] == old:
                o["name"] = c["name"]
        return s, "rename-class"
    if k == 1 and c["ops"]:
        del c["ops"][r.randrange(len(c["ops"]))]
        return s, "remove-operation"
    if k == 2:
        n = r.randint(0, 3)
        nm = r.choice(VERBS) + "New"
        if all((o["name"], len(o["params"])) != (nm, n) for o in c["ops"]):
            c["ops"].append(dict(name=nm, ret="void", params=[dict(name="q%d" % i, type="int", direction="in") for i in range(n)],
                                 virtual=c["kind"] == "interface", static=False, const=False, vis="public", doc=""))
            for k in range(len(s["classes"])):
                allsigs = sorted(_sigs(s["classes"][k])) + inherited_sigs(s, k)
                if len(allsigs) != len(set(allsigs)):
                    c["ops"].pop()      # a realising class already has an operation of that name and arity
                    break
        return s, "add-operation"
    if k == 3 and c["attrs"]:
        a = r.choice(c["attrs"])
        a["const"] = not a["const"] and c["kind"] == "class"
        return s, "toggle-read-only"
    c["attrs"].append(dict(name="m_extra%d" % len(c["attrs"]), type="int", const=False, static=False, vis="private", getter=True, setter=True, doc=""))
    return s, "add-attribute"


def build(spec):
    """the ClassDiagram object umlgen works on"""
    V = sys.modules["kojen.vppclassdiagram"]
    diagram = V.ClassDiagram(spec["diagram"], "diagram0", [], None)
    qual = lambda i: (spec["classes"][i]["ns"] + "::" if spec["classes"][i]["ns"] else "") + spec["classes"][i]["name"]
    for i, c in enumerate(spec["classes"]):
        k = V.Class.__new__(V.Class)
        k.parent_classDiagram = diagram
        k.ID = "cls%03d" % i
        k.MODEL_TYPE = "Class"
        k.PARENT_ID = ""
        k.NAME = c["name"]
        k.BLOB_STRING = ""
        k.dict_from_BLOB_STRING = {}
        k.PURE_VIRTUAL_INTERFACE = c["kind"] == "interface"
        k.AUTOGEN = False
        k.USER_COMMENTS = c["doc"]
        k.NAMESPACE = c["ns"]
        k.OPERATIONS = []
        k.ATTRIBUTES = []
        k.IS_ENUM = c["kind"] == "enum"
        k.ENUM_LITERALS = list(c["literals"])
        k.IS_STRUCT = c["kind"] == "struct"
        k.IS_STRUCT_PACKED = bool(c.get("packed"))
        for a in c["attrs"]:
            at = V.ClassAttribute(None, None)
            if "tref" in a:
                at.From(a["name"], qual(a["tref"]), "cls%03d" % a["tref"], a["mod"], "", a["static"], a["const"], a["vis"], a["getter"], a["setter"], a["doc"])
            else:
                at.From(a["name"], a["type"], "", "", "", a["static"], a["const"], a["vis"], a["getter"], a["setter"], a["doc"])
            k.ATTRIBUTES.append(at)
        for o in c["ops"]:
            op = V.ClassOperation({'name': o["name"], 'child_0': {}}, None)
            op.RETURN_TYPE = o["ret"]
            if "ret_tref" in o:
                op.RETURN_TYPE, op.RETURN_TYPE_MODIFIER = qual(o["ret_tref"]), o["ret_mod"]
            op.VISIBILITY = o["vis"]
            op.VIRTUAL = o["virtual"]
            op.IS_STATIC = o["static"]
            op.IS_CONST = o["const"]
            op.USER_COMMENTS = o["doc"]
            for p in o["params"]:
                op.PARAMETERS.append({'const': "const" if p["direction"] == "in" else "", 'type': qual(p["tref"]) if "tref" in p else p["type"],
                                      'name': p["name"], 'modifier': p.get("mod", ""),
                                      'defaultvalue': p.get("default", ""), 'multiplicity': "", 'direction': p["direction"]})
            k.OPERATIONS.append(op)
        diagram.classes[k.ID] = k
    for j, h in enumerate(spec.get("inherits", [])):
        inh = V.Inheritance.__new__(V.Inheritance)
        inh.ID = "inh%03d" % j
        inh.MODEL_TYPE = "Realization" if h["realization"] else "Generalization"
        inh.PARENT_ID = ""
        inh.NAME = ""
        inh.BLOB_STRING = ""
        inh.table_vppmodelelements = None
        inh.dict_from_BLOB_STRING = {}
        inh.IS_REALIZATION = h["realization"]
        inh.CLASS_FROM, inh.CLASS_FROM_ID = spec["classes"][h["frm"]]["name"], "cls%03d" % h["frm"]
        inh.CLASS_TO, inh.CLASS_TO_ID = spec["classes"][h["to"]]["name"], "cls%03d" % h["to"]
        inh.PostProjectParseFix(diagram)
        diagram.inheritence[inh.ID] = inh
    for j, a in enumerate(spec.get("assocs", [])):
        x = V.Association.__new__(V.Association)
        x.ID = "asc%03d" % j
        x.MODEL_TYPE = "Association"
        x.PARENT_ID = ""
        x.NAME = a["name"]
        x.BLOB_STRING = ""
        x.table_vppmodelelements = None
        x.dict_from_BLOB_STRING = {}
        x.TYPE = a["type"]
        x.USER_COMMENTS = a["doc"]
        x.CLASS_FROM, x.CLASS_FROM_ID = qual(a["frm"]), "cls%03d" % a["frm"]
        x.CLASS_TO, x.CLASS_TO_ID = qual(a["to"]), "cls%03d" % a["to"]
        x.CLASS_FROM_VISIBILITY, x.CLASS_TO_VISIBILITY = a["from_vis"], a["to_vis"]
        x.CLASS_FROM_IS_STATIC = x.CLASS_TO_IS_STATIC = False
        x.CLASS_FROM_IS_CONST = x.CLASS_TO_IS_CONST = False
        x.CLASS_FROM_MULTIPLICITY, x.CLASS_TO_MULTIPLICITY = a["from_mult"], a["to_mult"]
        x.CLASS_FROM_HAS_GETTER, x.CLASS_FROM_HAS_SETTER = a["from_getter"], a["from_setter"]
        x.CLASS_TO_HAS_GETTER, x.CLASS_TO_HAS_SETTER = a["to_getter"], a["to_setter"]
        diagram.associations[x.ID] = x
    return diagram


@contextlib.contextmanager
def installed(spec):
    """while active, the SQLite extraction step of the UML entry points delivers the synthesised diagram"""
    U = sys.modules["kojen.umlgen"]
    orig = U.ExtractClassDiagram
    U.ExtractClassDiagram = lambda name, path: build(spec)
    try:
        yield
    finally:
        U.ExtractClassDiagram = orig
