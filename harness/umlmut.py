"""Derives Visual Paradigm projects from the shipped test project (kojen/test/blob.xml) by SQL-level edits of
its class-diagram elements: renaming classes and packages (NAME column and the `id:"Name":Type` header of the
definition blob; references elsewhere are by id), removing a class from a diagram (its diagram element row)."""
import os
import random
import re
import shutil
import sqlite3

WORDS = ["Alpha", "Beta", "Gamma", "Delta", "Omega", "Node", "Link", "Frame", "Port", "Codec", "Queue", "Timer", "Sensor", "Motor"]


def class_diagram_elements(con, diagram):
    cur = con.cursor()
    cur.execute("SELECT ID FROM DIAGRAM WHERE NAME=? AND DIAGRAM_TYPE='ClassDiagram'", (diagram,))
    did = cur.fetchone()[0]
    cur.execute("SELECT e.ID, e.MODEL_ELEMENT_ID, m.MODEL_TYPE, m.NAME FROM DIAGRAM_ELEMENT e JOIN MODEL_ELEMENT m ON m.ID = e.MODEL_ELEMENT_ID WHERE e.DIAGRAM_ID=?", (did,))
    return did, cur.fetchall()


def rename(con, model_id, old, new):
    cur = con.cursor()
    cur.execute("SELECT DEFINITION FROM MODEL_ELEMENT WHERE ID=?", (model_id,))
    blob = cur.fetchone()[0]
    head = ('%s:"%s":' % (model_id, old)).encode()
    if not blob.startswith(head):
        return False
    blob = ('%s:"%s":' % (model_id, new)).encode() + blob[len(head):]
    cur.execute("UPDATE MODEL_ELEMENT SET NAME=?, DEFINITION=? WHERE ID=?", (new, blob, model_id))
    return True


_LEAVES = {}


def leaf_types(src, diagram):
    """{class id: component} for the types an attribute may be re-typed to - enumerations and concrete classes
    without abstract operations - and the component (undirected closure over inheritance, associations, attribute
    and parameter types) of every class: a holder may only receive a type of another component, so that the edit
    cannot close an include / completeness cycle.  Read with the generator's own parser from the unedited project."""
    key = (src, diagram)
    if key not in _LEAVES:
        import sys
        import common
        V = sys.modules.get("kojen.vppclassdiagram")
        if V is None:
            import importlib
            V = importlib.import_module("kojen.vppclassdiagram")
        with common.quiet():
            cd = V.ExtractClassDiagram(diagram, src)
        byname = {(c.NAMESPACE + "::" + c.NAME if c.NAMESPACE else c.NAME): cid for cid, c in cd.classes.items()}
        comp = {cid: cid for cid in cd.classes}

        def find(x):
            while comp[x] != x:
                comp[x] = comp[comp[x]]
                x = comp[x]
            return x

        def union(x, y):
            if x in comp and y in comp:
                comp[find(x)] = find(y)
        for a in cd.associations.values():
            union(a.CLASS_FROM_ID, a.CLASS_TO_ID)
        for i in cd.inheritence.values():
            union(i.CLASS_FROM_ID, i.CLASS_TO_ID)
        for cid, c in cd.classes.items():
            for at in c.ATTRIBUTES:
                union(cid, byname.get(at.TYPE))
            for o in c.OPERATIONS:
                union(cid, byname.get(o.RETURN_TYPE))
                for pa in o.PARAMETERS:
                    union(cid, byname.get(pa["type"]))
        ok = {cid for cid, c in cd.classes.items()
              if c.IS_ENUM or (not c.PURE_VIRTUAL_INTERFACE and not any(o.VIRTUAL for o in c.OPERATIONS))}
        _LEAVES[key] = ({cid: find(cid) for cid in cd.classes}, ok)
    return _LEAVES[key]


def is_enum(src, diagram, cid):
    import sys
    import common
    V = sys.modules["kojen.vppclassdiagram"]
    key = ("enum", src, diagram)
    if key not in _LEAVES:
        with common.quiet():
            cd = V.ExtractClassDiagram(diagram, src)
        _LEAVES[key] = {k for k, c in cd.classes.items() if c.IS_ENUM}
    return cid in _LEAVES[key]


OP_START = re.compile(r'\{(\w+):"([^"]*)":Operation \{')


def operation_blocks(text):
    out = []
    for m in OP_START.finditer(text):
        nxt = CHILD_START.search(text, m.end())
        out.append((m.start(), nxt.start() if nxt else len(text), m.group(2)))
    return out


ATTR_START = re.compile(r'\{(\w+):"([^"]*)":Attribute \{')
CHILD_START = re.compile(r'\n\t\t\{\w+:"[^"]*":\w+ \{')


def attribute_blocks(text):
    """(start, end, name) of the attribute entries of a class definition"""
    out = []
    for m in ATTR_START.finditer(text):
        nxt = CHILD_START.search(text, m.end())
        out.append((m.start(), nxt.start() if nxt else len(text), m.group(2)))
    return out


def reference_to(con, model_id):
    """the `<owner chain:id>` spelling by which definitions refer to the element"""
    cur = con.cursor()
    chain = [model_id]
    while True:
        cur.execute("SELECT PARENT_ID FROM MODEL_ELEMENT WHERE ID=?", (chain[0],))
        row = cur.fetchone()
        if not row or not row[0]:
            break
        cur.execute("SELECT MODEL_TYPE FROM MODEL_ELEMENT WHERE ID=?", (row[0],))
        t = cur.fetchone()
        if not t or t[0] != "Package":
            break
        chain.insert(0, row[0])
    return "<" + ":".join(chain) + ">"


def mutate(r, src, dst, diagram, nops, only=None):
    """returns the list of applied operations"""
    shutil.copyfile(src, dst)
    con = sqlite3.connect(dst)
    applied = []
    with con:
        for _ in range(nops):
            did, elems = class_diagram_elements(con, diagram)
            classes = [e for e in elems if e[2] == "Class"]
            packages = [e for e in elems if e[2] == "Package"]
            # (removing only the package *shape* is not offered: the classes would still be owned by the package in the
            # model while the diagram no longer says so - types are then qualified by ownership, namespaces by the diagram)
            op = r.choice(["rename-class", "rename-class", "remove-class", "rename-package", "unpackage-class", "unpackage-class",
                           "retype-attribute", "retype-attribute", "retype-return"]) if only is None else only
            if op == "rename-package-after-class" and classes and packages:
                # a package takes the name of one of its classes (+ 's') that a class of another package refers to
                cur = con.cursor()
                owner = {}
                blobs = {}
                for c in classes:
                    cur.execute("SELECT PARENT_ID, DEFINITION FROM MODEL_ELEMENT WHERE ID=?", (c[1],))
                    owner[c[1]], blobs[c[1]] = cur.fetchone()
                cands = [c for c in classes if owner[c[1]] and any(c[1].encode() in blobs[d[1]] for d in classes if owner[d[1]] != owner[c[1]])]
                if cands:
                    c = r.choice(cands)
                    pk = [p_ for p_ in packages if p_[1] == owner[c[1]]]
                    new = c[3] + r.choice(["s", "s", "Types"])
                    if pk and not any(p_[3] == new for p_ in packages) and rename(con, pk[0][1], pk[0][3], new):
                        applied.append(["rename-package", pk[0][3], new])
                continue
            if op == "retype-return" and classes:
                # the return type of an operation becomes a pointer / reference to - or a value of - another type of the diagram
                cur = con.cursor()
                comps, usable = leaf_types(src, diagram)
                present = {e[1] for e in classes}
                holders = []
                for e in classes:
                    cur.execute("SELECT DEFINITION FROM MODEL_ELEMENT WHERE ID=?", (e[1],))
                    text = cur.fetchone()[0].decode("utf-8")
                    for (a0, a1, oname) in operation_blocks(text):
                        blk = text[a0:a1]
                        mt = re.search(r"\n\t\t\treturnType=(<[\w.:]+>);", blk)
                        if mt and oname != e[3]:
                            holders.append((e, text, a0, a1, mt, oname))
                if holders:
                    hid = r.choice(sorted({h[0][1] for h in holders}))
                    e, text, a0, a1, mt, oname = r.choice([h for h in holders if h[0][1] == hid])
                    modifier = r.choice(["*", "*", "&", None])
                    if modifier is None:
                        cands = [x for x in sorted(usable) if x in present and x != e[1] and comps.get(x) != comps.get(e[1])]
                    else:
                        cands = [x for x in sorted(present) if x != e[1]]
                    if cands:
                        target = r.choice(cands)
                        blk = text[a0:a1]
                        blk = blk[:mt.start(1)] + reference_to(con, target) + blk[mt.end(1):]
                        blk = re.sub(r'\n\t\t\ttypeModifier="[^"]*";', "", blk)
                        if modifier:
                            blk = blk.replace("\n\t\t\treturnType=", '\n\t\t\ttypeModifier="%s";\n\t\t\treturnType=' % modifier, 1)
                        text = text[:a0] + blk + text[a1:]
                        cur.execute("UPDATE MODEL_ELEMENT SET DEFINITION=? WHERE ID=?", (text.encode("utf-8"), e[1]))
                        tname = [c[3] for c in classes if c[1] == target][0]
                        applied.append([op, e[3] + "." + oname + "()", tname + (modifier or "")])
                continue
            enum_ref = op == "retype-reference-to-enum"
            if enum_ref:
                op = "retype-attribute"
            if op == "retype-attribute" and classes:
                # an attribute (without initial value) gets another type of the diagram - mostly of another package
                cur = con.cursor()
                comps, usable = leaf_types(src, diagram)
                present = {e[1] for e in classes}
                holders = []
                for e in classes:
                    cur.execute("SELECT DEFINITION FROM MODEL_ELEMENT WHERE ID=?", (e[1],))
                    text = cur.fetchone()[0].decode("utf-8")
                    for (a0, a1, aname) in attribute_blocks(text):
                        blk = text[a0:a1]
                        mt = re.search(r"\btype=(<[\w.:]+>);", blk)
                        # (an initial value belongs to the old type; a read-only static attribute without one relies on
                        #  its type's user-provided default constructor - re-typing either would make the *model* ill-formed)
                        if enum_ref and "typeModifier=" not in blk:
                            continue
                        if mt and "initialValue" not in blk and not ("readOnly=T" in blk and "scope=" in blk):
                            holders.append((e, text, a0 + mt.start(1), mt.group(1), aname))
                if holders:
                    # the holding element first (classes, structs and interfaces take different routes through the generator)
                    hid = r.choice(sorted({h[0][1] for h in holders}))
                    e, text, pos, old, aname = r.choice([h for h in holders if h[0][1] == hid])
                    cur.execute("SELECT PARENT_ID FROM MODEL_ELEMENT WHERE ID=?", (e[1],))
                    own = cur.fetchone()[0]

                    def parent(x):
                        cur.execute("SELECT PARENT_ID FROM MODEL_ELEMENT WHERE ID=?", (x,))
                        return cur.fetchone()[0]
                    cands = [x for x in sorted(usable) if x in present and x != e[1] and comps.get(x) != comps.get(e[1])]
                    if enum_ref:
                        # a pointer / reference attribute re-typed to an enumeration (any component: an enumeration depends on nothing)
                        cur.execute("SELECT ID FROM MODEL_ELEMENT WHERE MODEL_TYPE='Class'")
                        cands = [x for x in sorted(usable) if x in present and x != e[1] and is_enum(src, diagram, x)]
                    away = [x for x in cands if parent(x) != own]
                    if cands:
                        target = r.choice(away if away and r.random() < 0.7 else cands)
                        new = reference_to(con, target)
                        if new != old:
                            text = text[:pos] + new + text[pos + len(old):]
                            cur.execute("UPDATE MODEL_ELEMENT SET DEFINITION=? WHERE ID=?", (text.encode("utf-8"), e[1]))
                            tname = [c[3] for c in classes if c[1] == target][0]
                            applied.append([op, e[3] + "." + aname, tname])
                continue
            if op == "rename-class" and classes:
                e = r.choice(classes)
                prefix = re.match(r"[A-Za-z]?", e[3]).group(0) if e[3][:1] in "CIEs" else "C"
                new = prefix + r.choice(WORDS) + r.choice(WORDS + [""]) + r.choice(["", "2", "X"])
                if any(c[3] == new for c in classes):
                    continue
                if rename(con, e[1], e[3], new):
                    applied.append([op, e[3], new])
            elif op == "remove-class" and len(classes) > 3:
                e = r.choice(classes)
                con.execute("DELETE FROM DIAGRAM_ELEMENT WHERE ID=?", (e[0],))
                # as the tool does: the relationship shapes attached to the removed class leave the diagram with it
                cur = con.cursor()
                for rel in elems:
                    if rel[2] in ("Association", "Generalization", "Realization", "Usage"):
                        cur.execute("SELECT DEFINITION FROM MODEL_ELEMENT WHERE ID=?", (rel[1],))
                        if e[1].encode() in cur.fetchone()[0]:
                            con.execute("DELETE FROM DIAGRAM_ELEMENT WHERE ID=?", (rel[0],))
                applied.append([op, e[3]])
            elif op == "unpackage-class" and classes and packages:
                # move a class out of its package: drop it from the package's Child list and clear its owner
                e = r.choice(classes)
                cur = con.cursor()
                cur.execute("SELECT PARENT_ID FROM MODEL_ELEMENT WHERE ID=?", (e[1],))
                parent = cur.fetchone()[0]
                if parent and any(p_[1] == parent for p_ in packages):
                    cur.execute("SELECT DEFINITION FROM MODEL_ELEMENT WHERE ID=?", (parent,))
                    text = cur.fetchone()[0].decode("utf-8")
                    m = re.search(r"Child=\((.*?)\);", text, re.S)
                    if m:
                        entries = re.findall(r"<[^>]*>", m.group(1))
                        kept = [x for x in entries if not x.rstrip(">").endswith(":" + e[1]) and x != "<%s>" % e[1]]
                        if len(kept) == len(entries) - 1:
                            new_list = "Child=(\r\n" + ", \r\n".join("\t\t" + x for x in kept) + "\r\n\t);" if kept else "Child=NULL;"
                            text = text[:m.start()] + new_list + text[m.end():]
                            cur.execute("UPDATE MODEL_ELEMENT SET DEFINITION=? WHERE ID=?", (text.encode("utf-8"), parent))
                            cur.execute("UPDATE MODEL_ELEMENT SET PARENT_ID=NULL WHERE ID=?", (e[1],))
                            # as the tool does: references spell an element through its owner chain, so every
                            # `<...:package:class>` elsewhere becomes `<class>`
                            cur.execute("SELECT ID, DEFINITION FROM MODEL_ELEMENT")
                            pat = re.compile(rb"<(?:[\w.]+:)+" + re.escape(e[1].encode()) + rb">")
                            for mid, blob_ in cur.fetchall():
                                if blob_ and pat.search(blob_):
                                    con.execute("UPDATE MODEL_ELEMENT SET DEFINITION=? WHERE ID=?", (pat.sub(b"<" + e[1].encode() + b">", blob_), mid))
                            applied.append([op, e[3]])
            elif op == "remove-package" and len(packages) > 1:
                # the package shape leaves the diagram: its classes are drawn outside any package
                e = r.choice(packages)
                con.execute("DELETE FROM DIAGRAM_ELEMENT WHERE ID=?", (e[0],))
                applied.append([op, e[3]])
            elif op == "rename-package" and packages:
                e = r.choice(packages)
                new = "X" + r.choice(WORDS) + r.choice(WORDS + [""])
                others = [p_[3] for p_ in packages if p_[1] != e[1] and len(p_[3]) > 2]
                if others and r.random() < 0.35:
                    # package names that end (or begin) alike: one name is the tail / the head of another
                    o = r.choice(others)
                    new = r.choice([o[1:], o[2:], "X" + o, o + "X", o[:-1]])
                elif classes and r.random() < 0.35:
                    # a package named after one of the diagram's classes (Shapes / Shape, Timers / Timer)
                    cn = r.choice(classes)[3]
                    new = r.choice([cn + "s", cn + "Types", "X" + cn])
                if any(p[3] == new for p in packages):
                    continue
                if rename(con, e[1], e[3], new):
                    applied.append([op, e[3], new])
    con.close()
    return applied


# ---------------------------------------------------------------- parse-back of generated C++

DECL = re.compile(r"^\s*(?:virtual\s+|static\s+)*(?P<ret>[\w:<>\*&,\s\[\]]*?)\s*(?P<name>~?\w+)\s*\((?P<params>.*)\)\s*(?P<const>const)?\s*(?P<ovr>override)?\s*(?P<pure>=\s*0)?\s*;\s*$")
DEFN = re.compile(r"^\s*(?P<ret>[\w:<>\*&,\s\[\]]*?)\s*(?P<cls>\w+)::(?P<name>~?\w+)\s*\((?P<params>.*)\)\s*(?P<const>const)?\s*(?::.*)?\{?\s*$")


def norm_params(p):
    out, depth, cur = [], 0, ""
    for ch in p:
        if ch in "<({[":
            depth += 1
        elif ch in ">)}]":
            depth -= 1
        if ch == "," and depth == 0:
            out.append(cur)
            cur = ""
        else:
            cur += ch
    if cur.strip():
        out.append(cur)
    res = []
    for a in out:
        a = a.split("=")[0].strip()          # default arguments live in the declaration only
        res.append(re.sub(r"\s+", " ", a))
    return tuple(res)


def header_decls(text, cls):
    m = re.search(r"\bclass\s+(?:\w+\s+)?%s\b[^{;]*\{" % re.escape(cls), text)
    if not m:
        return None
    body = text[m.end():]
    end = body.find("\n    };")
    body = body[:end if end >= 0 else len(body)]
    decls = []
    for line in body.split("\n"):
        s = line.strip()
        if not s or s.startswith("//") or s.startswith("/*") or s.startswith("*") or "(" not in s or not s.endswith(";"):
            continue
        d = DECL.match(line)
        if d:
            decls.append(dict(ret=re.sub(r"\s+", " ", d.group("ret").strip()), name=d.group("name"), params=norm_params(d.group("params")),
                              const=bool(d.group("const")), pure=bool(d.group("pure")), override=bool(d.group("ovr")), line=s))
    return decls


def source_defs(text, cls):
    defs = []
    for line in text.split("\n"):
        if "::" not in line or "(" not in line or line.strip().startswith(("//", "/*", "*", "#")) or line.strip().endswith(";"):
            continue
        d = DEFN.match(line)
        if d and d.group("cls") == cls:
            defs.append(dict(ret=re.sub(r"\s+", " ", d.group("ret").strip()), name=d.group("name"), params=norm_params(d.group("params")),
                             const=bool(d.group("const")), line=line.strip()))
    return defs
