"""Derives Visual Paradigm projects from the shipped test project (kojen/test/blob.xml) by SQL-level edits of
its class-diagram elements: renaming classes and packages (NAME column and the `id:"Name":Type` header of the
definition blob; references elsewhere are by id), removing a class from a diagram (its diagram element row)."""
import os
import random
import re
import shutil
import sqlite3

WORDS = ["Alpha", "Beta", "Gamma", "Delta", "Omega", "Node", "Link", "Frame", "Port", "Codec", "Queue", "Timer", "Sensor", "Motor"]


def class_diagram_elements(con, diagram):
    cur = con.cursor()
    cur.execute("SELECT ID FROM DIAGRAM WHERE NAME=? AND DIAGRAM_TYPE='ClassDiagram'", (diagram,))
    did = cur.fetchone()[0]
    cur.execute("SELECT e.ID, e.MODEL_ELEMENT_ID, m.MODEL_TYPE, m.NAME FROM DIAGRAM_ELEMENT e JOIN MODEL_ELEMENT m ON m.ID = e.MODEL_ELEMENT_ID WHERE e.DIAGRAM_ID=?", (did,))
    return did, cur.fetchall()


def rename(con, model_id, old, new):
    cur = con.cursor()
    cur.execute("SELECT DEFINITION FROM MODEL_ELEMENT WHERE ID=?", (model_id,))
    blob = cur.fetchone()[0]
    head = ('%s:"%s":' % (model_id, old)).encode()
    if not blob.startswith(head):
        return False
    blob = ('%s:"%s":' % (model_id, new)).encode() + blob[len(head):]
    cur.execute("UPDATE MODEL_ELEMENT SET NAME=?, DEFINITION=? WHERE ID=?", (new, blob, model_id))
    return True


def mutate(r, src, dst, diagram, nops):
    """returns the list of applied operations"""
    shutil.copyfile(src, dst)
    con = sqlite3.connect(dst)
    applied = []
    with con:
        for _ in range(nops):
            did, elems = class_diagram_elements(con, diagram)
            classes = [e for e in elems if e[2] == "Class"]
            packages = [e for e in elems if e[2] == "Package"]
            # (removing only the package *shape* is not offered: the classes would still be owned by the package in the
            # model while the diagram no longer says so - types are then qualified by ownership, namespaces by the diagram)
            op = r.choice(["rename-class", "rename-class", "remove-class", "rename-package", "unpackage-class", "unpackage-class"])
            if op == "rename-class" and classes:
                e = r.choice(classes)
                prefix = re.match(r"[A-Za-z]?", e[3]).group(0) if e[3][:1] in "CIEs" else "C"
                new = prefix + r.choice(WORDS) + r.choice(WORDS + [""]) + r.choice(["", "2", "X"])
                if any(c[3] == new for c in classes):
                    continue
                if rename(con, e[1], e[3], new):
                    applied.append([op, e[3], new])
            elif op == "remove-class" and len(classes) > 3:
                e = r.choice(classes)
                con.execute("DELETE FROM DIAGRAM_ELEMENT WHERE ID=?", (e[0],))
                # as the tool does: the relationship shapes attached to the removed class leave the diagram with it
                cur = con.cursor()
                for rel in elems:
                    if rel[2] in ("Association", "Generalization", "Realization", "Usage"):
                        cur.execute("SELECT DEFINITION FROM MODEL_ELEMENT WHERE ID=?", (rel[1],))
                        if e[1].encode() in cur.fetchone()[0]:
                            con.execute("DELETE FROM DIAGRAM_ELEMENT WHERE ID=?", (rel[0],))
                applied.append([op, e[3]])
            elif op == "unpackage-class" and classes and packages:
                # move a class out of its package: drop it from the package's Child list and clear its owner
                e = r.choice(classes)
                cur = con.cursor()
                cur.execute("SELECT PARENT_ID FROM MODEL_ELEMENT WHERE ID=?", (e[1],))
                parent = cur.fetchone()[0]
                if parent and any(p_[1] == parent for p_ in packages):
                    cur.execute("SELECT DEFINITION FROM MODEL_ELEMENT WHERE ID=?", (parent,))
                    text = cur.fetchone()[0].decode("utf-8")
                    m = re.search(r"Child=\((.*?)\);", text, re.S)
                    if m:
                        entries = re.findall(r"<[^>]*>", m.group(1))
                        kept = [x for x in entries if not x.rstrip(">").endswith(":" + e[1]) and x != "<%s>" % e[1]]
                        if len(kept) == len(entries) - 1:
                            new_list = "Child=(\r\n" + ", \r\n".join("\t\t" + x for x in kept) + "\r\n\t);" if kept else "Child=NULL;"
                            text = text[:m.start()] + new_list + text[m.end():]
                            cur.execute("UPDATE MODEL_ELEMENT SET DEFINITION=? WHERE ID=?", (text.encode("utf-8"), parent))
                            cur.execute("UPDATE MODEL_ELEMENT SET PARENT_ID=NULL WHERE ID=?", (e[1],))
                            applied.append([op, e[3]])
            elif op == "remove-package" and len(packages) > 1:
                # the package shape leaves the diagram: its classes are drawn outside any package
                e = r.choice(packages)
                con.execute("DELETE FROM DIAGRAM_ELEMENT WHERE ID=?", (e[0],))
                applied.append([op, e[3]])
            elif op == "rename-package" and packages:
                e = r.choice(packages)
                new = "X" + r.choice(WORDS) + r.choice(WORDS + [""])
                if any(p[3] == new for p in packages):
                    continue
                if rename(con, e[1], e[3], new):
                    applied.append([op, e[3], new])
    con.close()
    return applied


# ---------------------------------------------------------------- parse-back of generated C++

DECL = re.compile(r"^\s*(?:virtual\s+|static\s+)*(?P<ret>[\w:<>\*&,\s\[\]]*?)\s*(?P<name>~?\w+)\s*\((?P<params>.*)\)\s*(?P<const>const)?\s*(?P<ovr>override)?\s*(?P<pure>=\s*0)?\s*;\s*$")
DEFN = re.compile(r"^\s*(?P<ret>[\w:<>\*&,\s\[\]]*?)\s*(?P<cls>\w+)::(?P<name>~?\w+)\s*\((?P<params>.*)\)\s*(?P<const>const)?\s*(?::.*)?\{?\s*$")


def norm_params(p):
    out, depth, cur = [], 0, ""
    for ch in p:
        if ch in "<({[":
            depth += 1
        elif ch in ">)}]":
            depth -= 1
        if ch == "," and depth == 0:
            out.append(cur)
            cur = ""
        else:
            cur += ch
    if cur.strip():
        out.append(cur)
    res = []
    for a in out:
        a = a.split("=")[0].strip()          # default arguments live in the declaration only
        res.append(re.sub(r"\s+", " ", a))
    return tuple(res)


def header_decls(text, cls):
    m = re.search(r"\bclass\s+(?:\w+\s+)?%s\b[^{;]*\{" % re.escape(cls), text)
    if not m:
        return None
    body = text[m.end():]
    end = body.find("\n    };")
    body = body[:end if end >= 0 else len(body)]
    decls = []
    for line in body.split("\n"):
        s = line.strip()
        if not s or s.startswith("//") or s.startswith("/*") or s.startswith("*") or "(" not in s or not s.endswith(";"):
            continue
        d = DECL.match(line)
        if d:
            decls.append(dict(ret=re.sub(r"\s+", " ", d.group("ret").strip()), name=d.group("name"), params=norm_params(d.group("params")),
                              const=bool(d.group("const")), pure=bool(d.group("pure")), override=bool(d.group("ovr")), line=s))
    return decls


def source_defs(text, cls):
    defs = []
    for line in text.split("\n"):
        if "::" not in line or "(" not in line or line.strip().startswith(("//", "/*", "*", "#")) or line.strip().endswith(";"):
            continue
        d = DEFN.match(line)
        if d and d.group("cls") == cls:
            defs.append(dict(ret=re.sub(r"\s+", " ", d.group("ret").strip()), name=d.group("name"), params=norm_params(d.group("params")),
                             const=bool(d.group("const")), line=line.strip()))
    return defs
