"""Grammar-directed templates for the template-engine checks (C16, C17, C07).

A template is generated as an AST and rendered to lines; the AST is what the specification (Model/EngineSpec,
evaluated by the Lean driver) expands, the rendered lines are what the real generator and Model/Engine read.

AST (JSON):
  file  = {"name": str, "items": [item]}
  item  = {"k": "line", "segs": [seg]}                          a line outside any per-element block
        | {"k": "blank", "text": str}                            white-space-only line
        | {"k": "block", "kind": K, "ws": str, "body": [bline]}  K in PS PE PA PG PASIG STRUCT PROTOMSG MSG
        | {"k": "pst", "ws": str, "body": [pitem]}               pitem = line | blank | {"k":"pet", body:[eitem]}
                                                                  eitem = line | blank | {"k":"pgt", body:[line|blank]}
        | {"k": "if", "ws": str, "branches": [[tag, [item]]], "else": [item] | None}
        | {"k": "for", "ws": str, "param": str, "body": [line|blank]}
  seg   = ["lit", text] | ["tag", name] | ["tag", name, default]
A line always ends with "\n" unless it is the last line of the file (flag on the file)."""
import os
import json
import re
import sys

NAME_TAGS = ["STATENAME", "stateName", "STATE_NAME", "EVENTNAME", "eventName", "EVENT_NAME",
             "ACTIONNAME", "actionName", "ACTION_NAME", "GUARDNAME", "guardName", "GUARD_NAME"]
PROTO_NAME_TAGS = ["STRUCTNAME", "structName", "MSGNAME", "msgName", "PROTOMSGNAME", "protoMsgName"]
GLOBAL_TAGS = ["STATEMACHINENAME", "stateMachineName", "STATEMACHINENAMEUPPER", "STATE_MACHINE_NAME", "CLASSNAME", "CLASS_NAME",
               "NAMESPACE", "AUTHOR", "GROUP", "BRIEF", "DLL_EXPORT", "PYIFGENNAME", "STATE_0", "state_0", "ENUMS"]
TRANS_TAGS = ["GUARDNAME", "guardName", "GUARD_NAME", "ACTIONNAME", "actionName", "ACTION_NAME",
              "NEXTSTATENAME", "nextStateName", "NEXT_STATE_NAME", "STATENAMEIFNEXTSTATE", "stateNameIfNextState", "STATE_NAME_IF_NEXT_STATE"]
BLOCKS = {"PS": "PER_STATE", "PE": "PER_EVENT", "PA": "PER_ACTION", "PG": "PER_GUARD", "PASIG": "PER_ACTION_SIGNATURE",
          "STRUCT": "PER_STRUCT", "PROTOMSG": "PER_PROTOMSG", "MSG": "PER_MSG"}
USER_TAGS = ["Tag", "TagA", "TagB", "Verbose", "Thr", "Opt"]
LITS = ["int ", "x", " = ", ";", "void ", "()", "(", ")", " // ", "class ", " {", "}", "m_", "return ", ", ", ".", "->", "::", "# ", "def ", ":", "self.",
        "    ", "  ", "\t", "On", "_", "42", "if True:", " and ", "'", "\"", "[", "]"]
WS = ["", "", "    ", "        ", "\t", "  "]


def lit(r):
    return ["lit", "".join(r.choice(LITS) for _ in range(r.randint(1, 3)))]


def render_seg(s):
    if s[0] == "lit":
        return s[1]
    if len(s) == 3:
        return "<<<%s=%s>>>" % (s[1], s[2])
    return "<<<%s>>>" % s[1]


def render_line(l):
    return "".join(render_seg(s) for s in l["segs"]) + "\n"


def rand_line(r, tags, p_tag=0.6, maxtags=2, user=True, ws=None):
    """a line: indentation, then literals and up to `maxtags` tags"""
    segs = [["lit", r.choice(WS) if ws is None else ws]]
    n = r.choice([0, 1, 1, 1, 2][:maxtags + 2]) if r.random() < p_tag else 0
    segs.append(lit(r))
    for _ in range(n):
        t = r.choice(tags)
        segs.append(t if isinstance(t, list) else ["tag", t])
        segs.append(lit(r))
    if user and r.random() < 0.12:
        ut = r.choice(USER_TAGS)
        segs.append(["tag", ut] if r.random() < 0.5 else ["tag", ut, r.choice(["7", "dflt", "x y", "0", "", "", " ", "a=b", "=", "None"])])
        segs.append(lit(r))
    segs = [s for s in segs if not (s[0] == "lit" and s[1] == "")]
    return dict(k="line", segs=segs or [["lit", "x"]])


def rand_blank(r):
    return dict(k="blank", text=r.choice(["", "", "  ", "    ", "\t"]))


def body_tags(r, kind, rich):
    if kind in ("STRUCT", "PROTOMSG", "MSG"):
        tags = PROTO_NAME_TAGS + ["ALPH", "NUM"]
    else:
        tags = NAME_TAGS + ["ALPH", "NUM"]
    if rich and kind != "PASIG":
        tags = tags + ["SIGNATURE", "SIGNATUREWITHDEFAULTS", ["tag", "SIGNATURE", "int extra"], "MEMBERSINSTANTIATE", ["tag", "MEMBERSINSTANTIATE", "evt"],
                       "MEMBERSLITEINSTANTIATE", "MEMBERSDECLARE", "AGGREGATEINITIALIZATION"]
    return tags


def rand_block(r, kind, rich):
    tags = body_tags(r, kind, rich)
    body = []
    for _ in range(r.randint(0, 4)):
        body.append(rand_blank(r) if r.random() < 0.15 else rand_line(r, tags, 0.8, 2 if not rich else 1, user=not rich))
    if rich and kind in ("PE", "STRUCT") and r.random() < 0.3:
        body.append(dict(k="line", segs=[["lit", "    /// "], ["tag", r.choice(["ATTRIBUTETYPE", "ATTRIBUTENAME"])], ["lit", " "], ["tag", "ATTRIBUTENAME"]]))
    return dict(k="block", kind=kind, ws=r.choice(WS), body=body)


def rand_pgt_line(r):
    """grammar: a tag with an alternative text is the only tag of its line"""
    segs = [["lit", r.choice(WS)], lit(r)]
    if r.random() < 0.3:
        segs.append(["tag", r.choice(TRANS_TAGS), r.choice(["pass", "if True:", "return;", "else"])])
        segs.append(lit(r))
        return dict(k="line", segs=segs)
    for _ in range(r.choice([1, 1, 2])):
        segs.append(["tag", r.choice(TRANS_TAGS + ["EVENTNAME", "eventName", "STATENAME"])])
        segs.append(lit(r))
    return dict(k="line", segs=segs)


def rand_pst(r, nested=False):
    def lines(n, f):
        out = [rand_blank(r) if r.random() < 0.1 else f() for _ in range(r.randint(0, n))]
        if nested and r.random() < 0.5:
            # a plain per-element block inside the nested transition block, mentioning the enclosing state / event: the passes
            # run in a fixed order, the enclosing block's names are in place before the inner block is expanded
            kind = r.choice(["PG", "PA", "PG", "PE", "PS"])
            inner = rand_block(r, kind, rich=False)
            # (the per-guard pass is the last one: only there is the enclosing state's name already in place; the other
            #  per-element passes run before the transition pass and put their own element's name into every name tag)
            inner["body"].append(dict(k="line", segs=[["lit", "nested in " if kind == "PG" else "inner of "], ["tag", "STATENAME"], ["lit", " / "],
                                                      ["tag", {"PG": "GUARDNAME", "PA": "ACTIONNAME", "PE": "EVENTNAME", "PS": "STATENAME"}[kind]]]))
            out.insert(r.randrange(len(out) + 1), inner)
        return out
    outer = lambda: rand_line(r, ["STATENAME", "stateName", "STATE_NAME"], 0.8, 1, user=False)
    mid = lambda: rand_line(r, ["STATENAME", "EVENTNAME", "eventName", "EVENT_NAME", "stateName"], 0.8, 2, user=False)
    body = lines(2, outer)
    for _ in range(r.choice([1, 1, 2])):
        pet = lines(2, mid)
        for _ in range(r.choice([1, 1, 2])):
            pgt = [rand_pgt_line(r) if r.random() < 0.8 else rand_line(r, ["STATENAME", "EVENTNAME"], 0.5, 1, user=False) for _ in range(r.randint(1, 4))]
            pet.append(dict(k="pgt", ws=r.choice(WS), body=pgt))
            pet += lines(1, mid)
        body.append(dict(k="pet", ws=r.choice(WS), body=pet))
        body += lines(1, outer)
    return dict(k="pst", ws=r.choice(WS), body=body)


def rand_if(r, depth=0):
    tags = r.sample(USER_TAGS, r.randint(1, 3))
    inner = lambda: [rand_blank(r) if r.random() < 0.1 else rand_line(r, GLOBAL_TAGS, 0.4, 1) for _ in range(r.randint(0, 3))]
    return dict(k="if", ws=r.choice(WS), branches=[[t, inner()] for t in tags], **{"else": inner() if r.random() < 0.6 else None})


def spec_param(param):
    m = re.fullmatch(r"<<<(\w+)(?:=(.*))?>>>", param)
    if m:
        return dict(t="tag", name=m.group(1), dflt=m.group(2))
    return dict(t="count" if param.strip().isdigit() else "list", raw=param)


def rand_for(r):
    param = r.choice(["a,b,c", "fee, fie , foe", "3", "1", "2", "0", "x,y", " 2 ", ",p,q,", "<<<Opt=u,v>>>", "<<<Tag=1,2,3>>>", "<<<TagB>>>", "<<<Thr=2>>>"])
    if r.random() < 0.3:
        # the same user tag with another default, or without one; a default spelled like a collected tag's name
        # (`do_user_tags` shares the defaults of FOR tags over all blocks of all files)
        param = r.choice(["<<<Opt=w,x,y>>>", "<<<Opt>>>", "<<<Tag=2>>>", "<<<Tag>>>", "<<<Thr=1>>>", "<<<Thr>>>", "<<<TagB=q,r>>>",
                          "<<<7=1,2>>>", "<<<Thr=7>>>", "<<<Opt=Tag>>>"])
    tags = ["EACH", "each", "NUM", "ALPH"]
    body = [rand_line(r, tags, 0.9, 2, user=False) for _ in range(r.randint(0, 3))]
    if r.random() < 0.4:
        body.insert(r.randrange(len(body) + 1), dict(k="line", segs=[["lit", "first: "], ["tag", "FIRST"]]))
    if r.random() < 0.4:
        body.insert(r.randrange(len(body) + 1), dict(k="line", segs=[["lit", "last: "], ["tag", "LAST"], ["lit", ";"]]))
    return dict(k="for", ws=r.choice(WS), param=param, sparam=spec_param(param), body=body)


def rand_template(r, profile="c16", nfiles=None, rich_ok=True):
    """profile c16: blocks and name tags; c17: user tags / IF / FOR; mixed: both.
    rich_ok=False keeps to the part of the grammar the specification covers (no signature / member / attribute lines)"""
    files = []
    for fi in range(nfiles or r.choice([1, 1, 2])):
        items = []
        for _ in range(r.randint(2, 9)):
            k = r.random()
            if k < 0.3:
                items.append(rand_line(r, GLOBAL_TAGS, 0.4, 1, user=profile != "c16"))
            elif k < 0.4:
                for _ in range(r.randint(1, 3)):
                    items.append(rand_blank(r))
            elif profile in ("c16", "mixed") and k < 0.75:
                kind = r.choice(["PS", "PE", "PA", "PG", "PASIG", "PS", "PE", "STRUCT", "PROTOMSG", "MSG"])
                items.append(rand_block(r, kind, rich=rich_ok and r.random() < 0.35))
            elif profile in ("c16", "mixed") and k < 0.85:
                items.append(rand_pst(r, nested=rich_ok and r.random() < 0.5))
            elif profile in ("c17", "mixed") and k < 0.93:
                items.append(rand_if(r))
            elif profile in ("c17", "mixed"):
                items.append(rand_for(r))
                f1 = items[-1]
                if f1["sparam"].get("t") == "tag" and r.random() < 0.5:
                    # another loop over the same user tag, with another default or none (the defaults of FOR tags are shared)
                    f2 = rand_for(r)
                    f2["param"] = "<<<%s%s>>>" % (f1["sparam"]["name"], r.choice(["", "=9,8", "=2", "=k,l,m", "=" + f1["sparam"]["name"]]))
                    f2["sparam"] = spec_param(f2["param"])
                    if r.random() < 0.5:
                        items.append(rand_line(r, GLOBAL_TAGS, 0.4, 1))
                    items.append(f2)
                elif r.random() < 0.25:
                    # a second loop right behind, possibly one without usable arguments
                    f2 = rand_for(r)
                    if r.random() < 0.5:
                        f2["param"] = "<<<%s>>>" % r.choice(USER_TAGS)
                        f2["sparam"] = spec_param(f2["param"])
                    items.append(f2)
            else:
                items.append(rand_line(r, GLOBAL_TAGS, 0.4, 1))
        name = r.choice(["TEMPLATE%s.h", "I_template_%s.py", "temPlate%s.cs", "Test.TEMPLATE.%s.cpp", "template%s.txt"]) % r.choice(["A", "B", "Impl", "X1"])
        if any(f["name"] == name for f in files):
            continue
        files.append(dict(name=name, items=items, final_newline=r.random() < 0.85))
    return files


def render_items(items, out):
    for it in items:
        k = it["k"]
        if k == "line":
            out.append(render_line(it))
        elif k == "blank":
            out.append(it["text"] + "\n")
        elif k == "block":
            kw = BLOCKS[it["kind"]]
            out.append(it["ws"] + "<<<%s_BEGIN>>>\n" % kw)
            render_items(it["body"], out)
            out.append(it["ws"] + "<<<%s_END>>>\n" % kw)
        elif k in ("pst", "pet", "pgt"):
            kw = {"pst": "PER_STATETRANSITION", "pet": "PER_EVENTTRANSITION", "pgt": "PER_GUARDTRANSITION"}[k]
            out.append(it["ws"] + "<<<%s_BEGIN>>>\n" % kw)
            render_items(it["body"], out)
            out.append(it["ws"] + "<<<%s_END>>>\n" % kw)
        elif k == "if":
            for i, (tag, body) in enumerate(it["branches"]):
                out.append(it["ws"] + ("<<<IF %s>>>\n" if i == 0 else "<<<ELSEIF %s>>>\n") % tag)
                render_items(body, out)
            if it["else"] is not None:
                out.append(it["ws"] + "<<<ELSE>>>\n")
                render_items(it["else"], out)
            out.append(it["ws"] + "<<<ENDIF>>>\n")
        elif k == "for":
            out.append(it["ws"] + "<<<FOR_BEGIN=%s>>>\n" % it["param"])
            render_items(it["body"], out)
            out.append(it["ws"] + "<<<FOR_END>>>\n")
        else:
            raise ValueError(k)


def render_file(f):
    out = []
    render_items(f["items"], out)
    if out and not f.get("final_newline", True):
        out[-1] = out[-1].rstrip("\n")
        if out[-1] == "":
            out.pop()
    return out


def preexpand_multiline(items, tag, value):
    """The rule for a global tag whose value has several lines, applied to the template itself: the value's lines take the
    tag's place, the text before the tag stays on the first of them, the text behind it follows the last, and every line
    after the first is indented by as many blanks as the tag's line begins with.  Returns the new item list, or None where
    this statement of the rule does not apply (two occurrences on a line, another tag before it, a tag inside a block)."""
    vlines = value.rstrip("\n").split("\n")
    if len(vlines) < 2:
        return None
    out = []
    for it in items:
        if it["k"] == "line":
            idx = [i for i, sg in enumerate(it["segs"]) if sg[0] == "tag" and sg[1] == tag and len(sg) == 2]
            if not idx:
                out.append(it)
                continue
            if len(idx) > 1 or any(sg[0] == "tag" for sg in it["segs"][:idx[0]]):
                return None
            before, after = it["segs"][:idx[0]], it["segs"][idx[0] + 1:]
            prefix = "".join(sg[1] for sg in before)
            lead = " " * (len(prefix) - len(prefix.lstrip(" ")))
            out.append(dict(k="line", segs=before + [["lit", vlines[0]]]))
            for v in vlines[1:-1]:
                out.append(dict(k="line", segs=[["lit", lead + v]]) if (lead + v) != "" else dict(k="blank", text=""))
            out.append(dict(k="line", segs=[["lit", lead + vlines[-1]]] + after))
        elif it["k"] == "if":
            brs = []
            for t, body in it["branches"]:
                b = preexpand_multiline(body, tag, value)
                if b is None:
                    return None
                brs.append([t, b])
            els = it["else"]
            if els is not None:
                els = preexpand_multiline(els, tag, value)
                if els is None:
                    return None
            out.append(dict(it, branches=brs, **{"else": els}))
        else:
            if tag in json.dumps(it):
                return None
            out.append(it)
    return out


def malform(r, lines):
    """the malformed stream: unclosed / stray / nested delimiters, doubled tags"""
    lines = list(lines)
    for _ in range(r.randint(1, 3)):
        op = r.randrange(5)
        delims = [i for i, l in enumerate(lines) if re.search(r"<<<(PER_\w+_(BEGIN|END)|IF |ELSEIF |ELSE>>>|ENDIF|FOR_BEGIN|FOR_END)", l)]
        if op == 0 and delims:
            del lines[r.choice(delims)]
        elif op == 1 and delims:
            i = r.choice(delims)
            lines.insert(r.randrange(len(lines) + 1), lines[i])
        elif op == 2 and lines:
            i = r.randrange(len(lines))
            lines[i] = lines[i].rstrip("\n") + " <<<%s>>>\n" % r.choice(NAME_TAGS + USER_TAGS + ["NUM", "Tag=1"])
        elif op == 3 and len(lines) > 1:
            i = r.randrange(len(lines) - 1)
            lines[i], lines[i + 1] = lines[i + 1], lines[i]
        else:
            lines.insert(r.randrange(len(lines) + 1), r.choice(["<<<PER_STATE_END>>>\n", "<<<ENDIF>>>\n", "<<<ELSE>>>\n", "<<<FOR_END>>>\n", "<<<PER_EVENT_BEGIN>>>\n"]))
    return lines


def write_templates(files_lines, d):
    os.makedirs(d, exist_ok=True)
    for name, lines in files_lines:
        with open(os.path.join(d, name), "w") as f:
            f.write("".join(lines))


# ---------------------------------------------------------------- model-side inputs

# values that compare (and hash) equal but are written differently: 1 / 1.0 / True, 0 / False / 0.0, 2 / 2.0, 7 / 7.0
EQUAL_TWINS = [1.0, True, False, 0.0, 2, 2.0, 7.0]


def rand_usertags(r):
    ut = {}
    for t in r.sample(USER_TAGS, r.randint(0, 4)):
        ut[t] = r.choice(["", None, 0, 1, 7, "abc", "a,b", "x y", "p,q,r", "3"] + EQUAL_TWINS)
    return ut


def py_str(v):
    return "" if v is None else str(v)


def _try(f, *a):
    try:
        return f(*a)
    except Exception:
        return None         # the back end raises: travels as null


def env_tables(gen, itf, names, insts, maxtab=14):
    """what the engine asks `gen` (a CStateMachineGenerator bound to the real language) about the interface's names"""
    have = [s.Name for s in itf.All()]
    env = dict(sig=[], memberInst=[], memberDecl=[], aggInit=[], doc=[], members=[], msgId=[], aggDefault=_try(gen.language.DefaultAggregateInitializer))
    # the value of <<<ENUMS>>>: what the language back end declares for the interface's enumerations
    env["enums"] = "".join(gen.language.DeclareEnum(e, '\t') for e in itf.Enums())
    for n in have:
        for wd in (False, True):
            env["sig"].append([n, wd, _try(gen.get_event_signature, n, wd)])
        for tc in range(maxtab):
            for ptr in (True, False):
                for inst in insts:
                    env["memberInst"].append([n, tc, ptr, inst, _try(gen.instantiate_event_struct_member, n, tc, ptr, inst)])
            for pk in (False, True):
                env["memberDecl"].append([n, tc, pk, _try(gen.declare_event_struct_members, n, tc, pk)])
        env["aggInit"].append([n, _try(gen.instantiate_event_aggregate_initializer, n)])
    for n in itf:
        obj = itf[n]
        if hasattr(obj, "documentation"):
            env["doc"].append([n, obj.documentation])
        try:
            mem = obj.Decompose(False)
            env["members"].append([n, [[m[0], m[1], bool(obj.IsProtocolStruct(m[1]))] for m in mem]])
        except Exception:
            pass
        if hasattr(obj, "MessageTypeID"):
            env["msgId"].append([n, str(obj.MessageTypeID)])
    return env


def norm_cell(c):
    return None if c == "" or c.lower() == "none" else c


def tt_rows(tt):
    """rows for the Lean driver: '' / None / none cells as null; the event cell keeps its spelling, with a flag"""
    return [[row[0], row[1], norm_cell(row[2]), norm_cell(row[3]), norm_cell(row[4]), norm_cell(row[1]) is None] for row in tt]


def with_eventless_rows(r, model):
    """the model with one to three rows whose event cell is '' / None / none (completion transitions: such a row registers
    its states, action and guard with the model, belongs to no event and contributes nothing to the per-event text)"""
    m = dict(model, tt=[list(row) for row in model["tt"]])
    states = [row[0] for row in m["tt"]] + ["State" + "Solo"]
    for _ in range(r.randint(1, 3)):
        row = [r.choice(states), r.choice(["", "None", "none"]), r.choice(states + ["None", ""]),
               r.choice(["None", "", "OnIdle", m["tt"][0][3]]), r.choice(["None", "", "IsIdle", m["tt"][0][4]])]
        m["tt"].insert(r.randrange(len(m["tt"]) + 1), row)
    return m


def engine_request(model, files_lines, itf, env, usertags):
    env = dict(env)
    enums = env.pop("enums", "")
    return dict(cmd="engine", smname=model["name"], ns=model["ns"], author=model.get("author", "auth"), group=model.get("group", "grp"), brief=model.get("brief", "brief"), dclspc=model.get("dclspc", ""),
                pyif="Transition Table", enums=enums,
                tt=tt_rows(model["tt"]),
                structNames=list(itf.StructNames()), protoNames=list(itf.ProtocolStructNames()), msgNames=list(itf.MessageNames()),
                userTags=[[k, py_str(v), isinstance(v, str)] for k, v in usertags.items()],
                files=[[n, ls] for n, ls in files_lines], env=env)


def spec_request(model, tpl, itf, usertags, enums=""):
    return dict(cmd="spec", smname=model["name"], ns=model["ns"], author=model.get("author", "auth"), group=model.get("group", "grp"), brief=model.get("brief", "brief"), dclspc=model.get("dclspc", ""),
                pyif="Transition Table", enums=enums,
                tt=tt_rows(model["tt"]),
                structNames=list(itf.StructNames()), protoNames=list(itf.ProtocolStructNames()), msgNames=list(itf.MessageNames()),
                userTags=[[k, py_str(v)] for k, v in usertags.items()],
                files=[dict(name=f["name"], items=f["items"]) for f in tpl])
