#!/usr/bin/env python3
"""Apply a change to /repo (a patch file, or `-R <commit>` to revert a commit), run the quick
checks of the given properties, print their verdict lines, and restore /repo.
usage: mutrun.py (PATCH | -R COMMIT) C01 C02 ..."""
import os
import subprocess
import sys

ROOT = os.path.dirname(os.path.dirname(os.path.abspath(__file__)))


def sh(cmd, **kw):
    return subprocess.run(cmd, shell=True, text=True, capture_output=True, **kw)


def main():
    args = sys.argv[1:]
    if args[0] == "-R":
        commit = args[1]
        props = args[2:]
        p = sh("git -C /repo show %s | git -C /repo apply -R" % commit)
    else:
        props = args[1:]
        p = sh("git -C /repo apply %s" % os.path.abspath(args[0]))
    if p.returncode != 0:
        print("apply failed:", p.stderr)
        return 2
    try:
        t = sh("cd /repo && /venv/bin/python -m pytest -q -p no:cacheprovider -x 2>&1 | tail -1")
        print("pytest:", t.stdout.strip())
        env = dict(os.environ, KOJEN_VERIF_EVIDENCE_DIR=os.path.join(ROOT, "replay", "mutation-evidence"))
        procs = {pr: subprocess.Popen(["/venv/bin/python", "harness/vcheck.py", pr, "--tier", "quick"], cwd=ROOT, text=True, env=env,
                                      stdout=subprocess.PIPE, stderr=subprocess.STDOUT) for pr in props}
        for pr, q in procs.items():
            out = q.communicate()[0]
            lines = [l for l in out.splitlines() if l.startswith(("VIOLATION", "OK ", "INFRA", "KNOWN"))]
            print(pr, "exit", q.returncode, "|", " || ".join(l[:160] for l in lines))
    finally:
        sh("git -C /repo checkout -- . && git -C /repo clean -fdq -e kojen.egg-info")
    return 0


if __name__ == "__main__":
    sys.exit(main())
