#!/usr/bin/env python3
"""CLI of the kojen verification harness:  vcheck.py Cnn [--tier quick|thorough] [--replay FILE]

exit 0: property held on everything explored (KNOWN-FINDING lines possible)
exit 1: `VIOLATION property=Cnn replay=<path>` printed
exit 2: infrastructure failure (no VIOLATION line)
"""
import importlib
import os
import sys
import traceback

HERE = os.path.dirname(os.path.abspath(__file__))
sys.path.insert(0, HERE)

import common  # noqa: E402


def main(argv):
    if len(argv) < 2:
        print(__doc__)
        return 2
    prop = argv[1]
    tier = os.environ.get("VERIF_TIER", "quick")
    replay = None
    i = 2
    while i < len(argv):
        if argv[i] == "--tier":
            tier = argv[i + 1]
            i += 2
        elif argv[i] == "--replay":
            replay = argv[i + 1]
            i += 2
        else:
            i += 1
    try:
        mod = importlib.import_module("checks." + prop.lower())
    except ImportError:
        print("no check for", prop)
        return 2
    try:
        if replay:
            return mod.replay(replay)
        return mod.run(tier)
    except common.Infra as e:
        print("INFRA-ERROR property=%s %s" % (prop, e), file=sys.__stdout__)
        return 2
    except Exception as e:
        tb = traceback.format_exc()
        in_kojen = any(os.path.join(common.REPO, "kojen") in (fr.filename or "") for fr in traceback.extract_tb(e.__traceback__))
        model = getattr(e, "kojen_model", None)
        if in_kojen and not replay:
            # the code under test raised where the check expects it to work: a violation, with the model as the failing input
            import json
            import time
            os.makedirs(common.REPLAY, exist_ok=True)
            path = os.path.join(common.REPLAY, "%s-seed%s-%d.json" % (prop, common.seed(), int(time.time() * 1000) % 10 ** 9))
            with open(path, "w") as f:
                json.dump(dict(property=prop, kind="failing-input" if model is not None else "no-failing-input-found", tier=tier, seed=common.seed(),
                               violation=dict(what="the code under test raised %s: %s" % (type(e).__name__, e), model=model, traceback=tb[-3000:])), f, indent=1, default=repr)
            try:
                os.makedirs(common.EVID, exist_ok=True)
                with open(os.path.join(common.EVID, prop + ".json"), "w") as f:
                    json.dump(dict(property_id=prop, tier=tier, seed=common.seed(), level="exploration", wall_s=0.0, violations=1,
                                   coverage=dict(evaluations=1, distinct_nontrivial=1, rule="run aborted: the code under test raised on a generated input (see the replay file); nothing else was explored",
                                                 samples=[dict(model=model, raised="%s: %s" % (type(e).__name__, e))])), f, indent=1, default=repr)
            except Exception:       # noqa
                pass
            print("VIOLATION property=%s replay=%s%s" % (prop, path, "" if model is not None else " no-failing-input-found"), file=sys.__stdout__)
            return 1
        traceback.print_exc()
        print("INFRA-ERROR property=%s unexpected exception in the harness" % prop, file=sys.__stdout__)
        return 2


if __name__ == "__main__":
    sys.exit(main(sys.argv))
