#!/usr/bin/env python3
"""CLI of the kojen verification harness:  vcheck.py Cnn [--tier quick|thorough] [--replay FILE]

exit 0: property held on everything explored (KNOWN-FINDING lines possible)
exit 1: `VIOLATION property=Cnn replay=<path>` printed
exit 2: infrastructure failure (no VIOLATION line)
"""
import importlib
import os
import sys
import traceback

HERE = os.path.dirname(os.path.abspath(__file__))
sys.path.insert(0, HERE)

import common  # noqa: E402


def main(argv):
    if len(argv) < 2:
        print(__doc__)
        return 2
    prop = argv[1]
    tier = os.environ.get("VERIF_TIER", "quick")
    replay = None
    i = 2
    while i < len(argv):
        if argv[i] == "--tier":
            tier = argv[i + 1]
            i += 2
        elif argv[i] == "--replay":
            replay = argv[i + 1]
            i += 2
        else:
            i += 1
    try:
        mod = importlib.import_module("checks." + prop.lower())
    except ImportError:
        print("no check for", prop)
        return 2
    try:
        if replay:
            return mod.replay(replay)
        return mod.run(tier)
    except common.Infra as e:
        print("INFRA-ERROR property=%s %s" % (prop, e), file=sys.__stdout__)
        return 2
    except Exception:
        traceback.print_exc()
        print("INFRA-ERROR property=%s unexpected exception in the harness" % prop, file=sys.__stdout__)
        return 2


if __name__ == "__main__":
    sys.exit(main(sys.argv))
