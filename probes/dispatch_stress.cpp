// Probe for C15: stress / schedule exploration of threaded_dispatcher + threadsafe_queue.
// One scenario per input line:
//   D <producers> <items-per-producer> <workers> <yield-seed> <destroy-mode>
//       destroy-mode 0: wait until everything dispatched was handled, then destroy
//                    1: destroy while items may still be queued / a handler is running
//   Q <consumers> <items> <yield-seed>     queue alone: consumers block in wait_and_pop, then wake_up()
//   P <consumers> <seed>                   queue alone: every consumer pops once, the items are pushed in one burst
// Output per line: the linearised event log  (d<p>.<i> dispatch about to be called, h<p>.<i>@<w> handler begins on worker w, e<p>.<i>@<w> handler ends,
// X destruction begins, Y destruction done), plus summary flags.
#ifdef PROBE_WIDEN_CONDWAIT
#ifndef _GNU_SOURCE
#define _GNU_SOURCE
#endif
#include <dlfcn.h>
#include <pthread.h>
#include <unistd.h>
#endif
#include "threaded_dispatcher.h"
#include <atomic>
#include <chrono>
#include <cstdio>
#include <iostream>
#include <mutex>
#include <random>
#include <sstream>
#include <string>
#include <thread>
#include <vector>

using namespace XKoJen;

static std::mutex g_log_mutex;
static std::string g_log;
static void logev(const std::string& s) { std::lock_guard<std::mutex> lk(g_log_mutex); g_log += " " + s; }

struct Item { int p; int i; };

#ifdef PROBE_WIDEN_CONDWAIT
// Schedule perturbation at the one place jitter in user code cannot reach: between the evaluation of a wait
// predicate and the moment the thread really blocks on the condition variable.  The caller still owns the mutex
// here, exactly like a thread preempted at that instruction.  (Build without sanitizers, with -rdynamic.)
static std::atomic<unsigned> g_widen{0};
extern "C" int pthread_cond_wait(pthread_cond_t* c, pthread_mutex_t* m) {
    typedef int (*fn_t)(pthread_cond_t*, pthread_mutex_t*);
    static fn_t real = [] {
        void* p = dlvsym(RTLD_NEXT, "pthread_cond_wait", "GLIBC_2.3.2");
        if (!p) p = dlsym(RTLD_NEXT, "pthread_cond_wait");
        if (!p) { fprintf(stderr, "probe: cannot resolve pthread_cond_wait\n"); _exit(3); }
        return reinterpret_cast<fn_t>(p);
    }();
    unsigned k = g_widen.fetch_add(1);
    if (k % 3 != 2) usleep(300 + (k * 7919u) % 1500);
    return real(c, m);
}
#endif

static std::atomic<int> g_next_worker{0};
static int worker_index() { thread_local int idx = -1; if (idx < 0) idx = g_next_worker.fetch_add(1); return idx; }

static void jitter(std::mt19937& rng) {
    int k = rng() % 4;
    if (k == 0) std::this_thread::yield();
    else if (k == 1) std::this_thread::sleep_for(std::chrono::microseconds(rng() % 200));
}

class Disp : public threaded_dispatcher<Item> {
public:
    Disp(size_t workers, unsigned seed) : threaded_dispatcher<Item>("probe", workers), m_rng(seed), m_alive(true) {}
    ~Disp() override {
#ifdef PROBE_CALLS_STOP
        stop();
#endif
        m_alive = false;
        // a derived destructor that takes a moment (members being destroyed): widens the window in which a
        // worker could still call handle_dispatch() on the dying object
        std::this_thread::sleep_for(std::chrono::microseconds(300));
    }
    std::atomic<int> in_handler{0};
    std::atomic<bool> overlap{false};
    std::atomic<bool> after_death{false};
    std::atomic<int> handled{0};
protected:
    void handle_dispatch(ptr_type item) override {
        if (!m_alive) after_death = true;
        if (in_handler.fetch_add(1) > 0 && m_single) overlap = true;
        const std::string at = "@" + std::to_string(worker_index());
        logev("h" + std::to_string(item->p) + "." + std::to_string(item->i) + at);
        { std::lock_guard<std::mutex> lk(m_rng_mutex); jitter(m_rng); }
        logev("e" + std::to_string(item->p) + "." + std::to_string(item->i) + at);
        in_handler.fetch_sub(1);
        handled.fetch_add(1);
    }
public:
    bool m_single = true;
private:
    std::mt19937 m_rng;
    std::mutex m_rng_mutex;
    std::atomic<bool> m_alive;
};

int main() {
    std::string line;
    while (std::getline(std::cin, line)) {
        std::istringstream is(line);
        std::string cmd; is >> cmd;
        g_log.clear();
        g_next_worker = 0;
        if (cmd == "D") {
            int producers, per, workers, mode; unsigned seed;
            is >> producers >> per >> workers >> seed >> mode;
            bool overlap = false, after_death = false; int handled = 0;
            {
                auto* d = new Disp((size_t)workers, seed);
                d->m_single = (workers == 1);
                std::vector<std::thread> ps;
                for (int p = 0; p < producers; ++p)
                    ps.emplace_back([=] { std::mt19937 r(seed * 31 + p); for (int i = 0; i < per; ++i) { jitter(r); logev("d" + std::to_string(p) + "." + std::to_string(i)); d->dispatch(Item{p, i});
                        // mode 2: an empty pointer handed to dispatch(ptr_type&) in between (a pointer already moved from): it is
                        // no item - the workers skip it and keep serving
                        if (mode == 2 && i == 0) { Disp::ptr_type none; d->dispatch(none); } } });
                if (mode == 0 || mode == 2) {
                    for (auto& t : ps) t.join();
                    auto deadline = std::chrono::steady_clock::now() + std::chrono::seconds(mode == 2 ? 4 : 20);
                    while (d->handled.load() < producers * per && std::chrono::steady_clock::now() < deadline) std::this_thread::sleep_for(std::chrono::microseconds(100));
                } else {
                    std::mt19937 r(seed + 7); jitter(r); jitter(r);
                    for (auto& t : ps) t.join();
                }
                overlap = d->overlap; handled = d->handled;
                logev("X");
                std::atomic<bool>* ad = &d->after_death;
                (void)ad;
                delete d;
                logev("Y");
            }
            std::cout << g_log << " | handled=" << handled << " overlap=" << (overlap ? 1 : 0) << "\n";
        } else if (cmd == "Q") {
            int consumers, items; unsigned seed;
            is >> consumers >> items >> seed;
            threadsafe_queue<int> q;
            std::atomic<int> got{0}, released{0};
            std::vector<std::thread> cs;
            for (int c = 0; c < consumers; ++c)
                cs.emplace_back([&] { for (;;) { auto p = q.wait_and_pop(); if (!p) break; got.fetch_add(1); } released.fetch_add(1); });
            std::mt19937 r(seed);
            for (int i = 0; i < items; ++i) { jitter(r); q.push(i); }
            jitter(r);
            // consumers only leave when woken with an empty queue
            auto deadline = std::chrono::steady_clock::now() + std::chrono::seconds(20);
            while (got.load() < items && std::chrono::steady_clock::now() < deadline) std::this_thread::sleep_for(std::chrono::microseconds(100));
            q.wake_up();
            for (auto& t : cs) t.join();
            std::cout << " | got=" << got.load() << " released=" << released.load() << "\n";
        }
        else if (cmd == "P") {
            // every consumer pops exactly one item; the items arrive in one burst: each waiting consumer must get one
            int consumers; unsigned seed;
            is >> consumers >> seed;
            threadsafe_queue<int> q;
            std::atomic<int> got{0}, entered{0};
            std::vector<std::thread> cs;
            for (int c = 0; c < consumers; ++c)
                cs.emplace_back([&] { entered.fetch_add(1); auto p = q.wait_and_pop(); if (p) got.fetch_add(1); });
            std::mt19937 r(seed);
            while (entered.load() < consumers) std::this_thread::sleep_for(std::chrono::microseconds(50));
            if (seed % 2) std::this_thread::sleep_for(std::chrono::milliseconds(2));   // consumers blocked / about to block
            for (int i = 0; i < consumers; ++i) q.push(i);
            auto deadline = std::chrono::steady_clock::now() + std::chrono::seconds(3);
            while (got.load() < consumers && std::chrono::steady_clock::now() < deadline) std::this_thread::sleep_for(std::chrono::microseconds(100));
            int before = got.load();
            q.wake_up();
            for (auto& t : cs) t.join();
            std::cout << " | got=" << before << " consumers=" << consumers << "\n";
        }
        else if (cmd == "W") {
            // consumers blocked on an empty queue; wake_up() with a push landing right behind it: every consumer is released
            int consumers; unsigned seed;
            is >> consumers >> seed;
            threadsafe_queue<int> q;
            std::atomic<int> got{0}, released{0}, entered{0};
            std::vector<std::thread> cs;
            for (int c = 0; c < consumers; ++c)
                cs.emplace_back([&] { entered.fetch_add(1); for (;;) { auto p = q.wait_and_pop(); if (!p) break; got.fetch_add(1); } released.fetch_add(1); });
            while (entered.load() < consumers) std::this_thread::sleep_for(std::chrono::microseconds(50));
            std::this_thread::sleep_for(std::chrono::milliseconds(seed % 3));   // consumers blocked / about to block
            std::mt19937 r(seed);
            q.wake_up();
            if (seed % 4 == 1) jitter(r);
            for (unsigned i = 0; i < 1 + seed % 2; ++i) q.push((int)i);
            auto deadline = std::chrono::steady_clock::now() + std::chrono::seconds(3);
            while (released.load() < consumers && std::chrono::steady_clock::now() < deadline) std::this_thread::sleep_for(std::chrono::microseconds(100));
            int rel = released.load();
            // let the run end whatever happened: wake again until everybody is out
            while (released.load() < consumers) { q.wake_up(); std::this_thread::sleep_for(std::chrono::milliseconds(1)); }
            for (auto& t : cs) t.join();
            std::cout << " | released=" << rel << " consumers=" << consumers << "\n";
        }
        else if (cmd == "R") {
            // one-shot reply queues: a handler thread pushes a single reply into a queue the requester owns; the requester pops
            // it and destroys the queue at once.  push() must be done with the queue before the popped item can be seen.
            int rounds; unsigned seed;
            is >> rounds >> seed;
            std::mt19937 r(seed);
            int ok = 0;
            for (int k = 0; k < rounds; ++k) {
                auto* q = new threadsafe_queue<int>();
                std::thread replier([q, k] { q->push(k); });
                auto p = q->wait_and_pop();
                if (p && *p == k) ++ok;
                delete q;                       // the requester is done with its queue
                replier.join();
                if (k % 16 == 0) jitter(r);
            }
            std::cout << " | ok=" << ok << " rounds=" << rounds << "\n";
        }
        std::cout.flush();
    }
    return 0;
}
