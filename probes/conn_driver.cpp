// Probe for C13/C14: drives the real IConnection.cpp.  One test per input line:
//   <mode> <preamble-hex4> <chunk-hex> <chunk-hex> ...      mode: M = message receiver, R = raw receiver
// ('-' stands for an empty chunk).  Output per line:  one 'm:<hex>' per OnMessageReceived call or
// 'r:<hex>' per raw OnDataReceived call, then the final fragment state 's:<buffered-hex>:<bytes-required>'.
#include "IConnection.h"
#include <cstdio>
#include <iostream>
#include <sstream>
#include <string>
#include <vector>

using namespace XKoJen;

static std::string hex(const uint8* d, uint32 n) {
    static const char* H = "0123456789abcdef";
    std::string s;
    for (uint32 i = 0; i < n; ++i) { s += H[d[i] >> 4]; s += H[d[i] & 15]; }
    return s;
}

struct Rec : public IMsgReceiver, public IRawDataReceiver {
    uint16 pre;
    std::string out;
    void OnMessageReceived(const uint8* data, const uint32& n) override { out += " m:" + hex(data, n); }
    void OnDataReceived(const uint8* data, const uint32& n) override { out += " r:" + hex(data, n); }
    uint16 Preamble() const override { return pre; }
};

class Conn : public IConnection {
public:
    bool SendData(const uint8*, const uint16&) override { return true; }
    void feed(const std::vector<uint8>& v) { OnDataReceived(v.data(), (uint32)v.size()); }
    std::string state() { return hex(m_fragment_buffer.data(), (uint32)m_fragment_buffer.size()) + ":" + std::to_string(m_fragment_buffer_bytes_required); }
};

static std::vector<uint8> unhex(const std::string& s) {
    std::vector<uint8> v;
    if (s == "-") return v;
    for (size_t i = 0; i + 1 < s.size(); i += 2) v.push_back((uint8)std::stoi(s.substr(i, 2), nullptr, 16));
    return v;
}

int main() {
    std::string line;
    while (std::getline(std::cin, line)) {
        std::istringstream is(line);
        std::string mode, pre, tok;
        is >> mode >> pre;
        Rec rec;
        rec.pre = (uint16)std::stoi(pre, nullptr, 16);
        Conn c;
        if (mode == "R") c.SetRawDataReceiver(rec); else c.SetMsgReceiver(rec);
        while (is >> tok) c.feed(unhex(tok));
        std::cout << rec.out << " s:" << c.state() << "\n";
    }
    return 0;
}
