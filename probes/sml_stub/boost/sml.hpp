// Interface-only stand-in for boost::sml (the real header is a git submodule that is not
// present in this sandbox).  It accepts the transition-table DSL the generator emits
//     *state<S> + event<E> [guard] / action = state<T>
//     , state<S> + boost::sml::on_entry<_> / action
// and, when a row is formed, instantiates the guard / action functors with the row's event
// and a wildcard controller, so that `g++ -fsyntax-only` type-checks every name the table
// references against the generated controller interface (missing overloads, undeclared or
// doubly declared states / guards / actions become compile errors).  It has no run-time
// behaviour: it supports the check, it proves nothing.
#pragma once
#include <type_traits>
#include <utility>

namespace boost { namespace sml {

struct _ {};

namespace stub {
    struct any_ref { template <class T> operator T&() const; };
    struct row {};

    template <class A, class E>
    inline void use_action(A a) {
        if constexpr (std::is_invocable_v<A, const E&, any_ref>) { if (false) a(*static_cast<const E*>(nullptr), any_ref{}); }
        else if constexpr (std::is_invocable_v<A, any_ref>) { if (false) a(any_ref{}); }
        else { static_assert(std::is_invocable_v<A>, "action is not callable with (event, controller), (controller) or ()"); }
    }
    template <class G>
    inline void use_guard(G g) {
        if constexpr (std::is_invocable_r_v<bool, G, any_ref>) { if (false) (void)g(any_ref{}); }
        else { static_assert(std::is_invocable_r_v<bool, G>, "guard is not callable with (controller) or ()"); }
    }

    template <class E> struct ev_act {};
    template <class E> struct ev_guard {
        template <class A> ev_act<E> operator/(A a) const { use_action<A, E>(a); return {}; }
    };
    template <class E> struct ev {
        template <class G> ev_guard<E> operator[](G g) const { use_guard<G>(g); return {}; }
        template <class A> ev_act<E> operator/(A a) const { use_action<A, E>(a); return {}; }
    };
    template <class S> struct st;
    struct trans {
        template <class T> row operator=(const st<T>&) const { return {}; }
        operator row() const { return {}; }
    };
    template <class S> struct st {
        st operator*() const { return {}; }
        template <class E> trans operator+(ev_act<E>) const { return {}; }
        template <class E> trans operator+(ev_guard<E>) const { return {}; }
        template <class E> trans operator+(ev<E>) const { return {}; }
    };
    struct table {};
}

template <class S> inline constexpr stub::st<S> state{};
template <class E> inline constexpr stub::ev<E> event{};
template <class> inline constexpr stub::ev<_> on_entry{};
template <class> inline constexpr stub::ev<_> on_exit{};

template <class... R> stub::table make_transition_table(R...) { return {}; }

template <class T> class sm {
public:
    template <class... A> explicit sm(A&&...) { if (false) (void)T{}(); }
    template <class E> void process_event(const E&) {}
    template <class S> bool is(const S&) const { return false; }
};

}}  // namespace boost::sml
