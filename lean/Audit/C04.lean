import KojenVerif.Props.C04
#print axioms KojenVerif.C04.C04_isolation
#print axioms KojenVerif.C04.C04_ownLines_eq
#print axioms KojenVerif.C04.C04_other_files_irrelevant
#print axioms KojenVerif.C04.C04_other_expansions_irrelevant
#print axioms KojenVerif.C02.C02_chain
#print axioms KojenVerif.C01.C01_each_block_once_in_order
#print axioms KojenVerif.C04.C04_new_file_starts_clean
