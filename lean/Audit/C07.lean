import KojenVerif.Props.C07
#print axioms KojenVerif.C07.C07_no_gentag
#print axioms KojenVerif.C07.C07_accepted_is_represervable
#print axioms KojenVerif.C07.C07_same_template_injective
#print axioms KojenVerif.C07.C07_block_keys_distinct
#print axioms KojenVerif.C07.C07_elements_nodup
#print axioms KojenVerif.C07.C07_action_event_keys
#print axioms KojenVerif.C07.C07_plain_vs_suffixed
#print axioms KojenVerif.C07.C07_file_keys_nodup
#print axioms KojenVerif.C07.C07_key_stable_across_models
#print axioms KojenVerif.C07.C07_shipped_sm_schemes_classified
#print axioms KojenVerif.C07.C07_shipped_other_templates_static
#print axioms KojenVerif.C07.C07_static_vs_dynamic
#print axioms KojenVerif.C07.C07_shipped_static_tags_caps
