import KojenVerif.Props.C16
#print axioms KojenVerif.C16.C16_blocks_in_place
#print axioms KojenVerif.C16.C16_once_per_element_in_order
#print axioms KojenVerif.C16.C16_enum
#print axioms KojenVerif.C16.C16_enum_items
#print axioms KojenVerif.C16.C16_case_variants
#print axioms KojenVerif.C16.C16_counters
#print axioms KojenVerif.C16.C16_letter_cycle
#print axioms KojenVerif.C16.C16_blank_lines
#print axioms KojenVerif.C16.C16_tab_filter
#print axioms KojenVerif.C16.C16_action_signature_block
