import KojenVerif.Props.C13
#print axioms KojenVerif.C13.C13_dispatch_exact
#print axioms KojenVerif.C13.C13_undefined_id_not_handled
#print axioms KojenVerif.C13.C13_factory_dispatch
#print axioms KojenVerif.C13.C13_roundtrip_any_chunking
#print axioms KojenVerif.C13.C13_retry_success_iff
#print axioms KojenVerif.C13.C13_retry_calls
#print axioms KojenVerif.C13.C13_retry_negative
