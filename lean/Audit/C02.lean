import KojenVerif.Props.C02
#print axioms KojenVerif.C02.C02_commuting_diagram
#print axioms KojenVerif.C02.C02_outside_text_independent
#print axioms KojenVerif.C02.C02_no_foreign_attachment
#print axioms KojenVerif.C02.C02_chain
#print axioms KojenVerif.C02.C02_chain_body
#print axioms KojenVerif.C01.normOK_expandTabs
#print axioms KojenVerif.wfFresh_sound
