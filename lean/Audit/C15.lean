import KojenVerif.Props.C15
#print axioms KojenVerif.C15.C15_stop_first
#print axioms KojenVerif.C15.C15_at_most_once_fifo
#print axioms KojenVerif.C15.C15_handled_is_prefix
#print axioms KojenVerif.C15.C15_never_two_at_a_time
#print axioms KojenVerif.C15.C15_alive_progress
#print axioms KojenVerif.C15.C15_wake_releases_all_waiters
#print axioms KojenVerif.C15.C15_worker_rank_decreases
#print axioms KojenVerif.C15.C15_destroy_terminates
#print axioms KojenVerif.C15.C15_no_handoff_to_dead_object
#print axioms KojenVerif.C15.C15_lockset_race_free
#print axioms KojenVerif.Conc.reachable_inv
#print axioms KojenVerif.C15.C15_eventually_handled
#print axioms KojenVerif.C15.C15_need_of_queued
#print axioms KojenVerif.C15.C15_model_side_conditions
