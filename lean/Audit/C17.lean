import KojenVerif.Props.C17
#print axioms KojenVerif.C17.C17_usertag_value_default_verbatim
#print axioms KojenVerif.C17.C17_assigned
#print axioms KojenVerif.C17.C17_default
#print axioms KojenVerif.C17.C17_verbatim
#print axioms KojenVerif.C17.C17_if_elseif_else
#print axioms KojenVerif.C17.C17_else_iff
#print axioms KojenVerif.C17.C17_user_pass
#print axioms KojenVerif.C17.C17_noninterference
#print axioms KojenVerif.C17.C17_for_once_per_item
#print axioms KojenVerif.C17.C17_for_parameter
#print axioms KojenVerif.C17.C17_for_count
#print axioms KojenVerif.C17.C17_for_rejects
#print axioms KojenVerif.C17.C17_for_line
