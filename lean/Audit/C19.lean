import KojenVerif.Props.C19
#print axioms KojenVerif.C19.C19_facts
#print axioms KojenVerif.C19.C19_kind
#print axioms KojenVerif.C19.C19_one_header_plus_source
#print axioms KojenVerif.C19.C19_folder_chain
#print axioms KojenVerif.C19.C19_namespace_wrapper
#print axioms KojenVerif.C19.C19_distinct_names
#print axioms KojenVerif.C19.C19_own_namespace_prefix_only
#print axioms KojenVerif.C19.C19_include_entry
#print axioms KojenVerif.C19.C19_includes_namespace_faithful
#print axioms KojenVerif.C19.C19_declared_before_use
#print axioms KojenVerif.C19.C19_enum_never_forward_declared
