import KojenVerif.Props.C19
#print axioms KojenVerif.C19.C19_facts
#print axioms KojenVerif.C19.C19_kind
#print axioms KojenVerif.C19.C19_one_header_plus_source
#print axioms KojenVerif.C19.C19_folder_chain
#print axioms KojenVerif.C19.C19_namespace_wrapper
#print axioms KojenVerif.C19.C19_distinct_names
