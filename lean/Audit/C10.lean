import KojenVerif.Props.C10
#print axioms KojenVerif.C10.C10_handler_refines_table
#print axioms KojenVerif.C10.C10_unlisted_pair_ignored
#print axioms KojenVerif.C10.C10_context_declares_calls
#print axioms KojenVerif.C10.C10_context_declares_once
#print axioms KojenVerif.C10.C10_every_enterable_state_has_class
