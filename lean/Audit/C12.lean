import KojenVerif.Props.C12
#print axioms KojenVerif.C12.init_render
#print axioms KojenVerif.C12.C12_offsets_declaration_order
#print axioms KojenVerif.C12.C12_size_is_sum
#print axioms KojenVerif.C12.C12_factory_defaults_any_depth
#print axioms KojenVerif.C12.C12_factory_header
#print axioms KojenVerif.C12.C12_factory_type_id
#print axioms KojenVerif.C12.C12_factory_args_by_name
