import KojenVerif.Props.C18
#print axioms KojenVerif.C18.C18_sync_result
#print axioms KojenVerif.C18.C18_shared_bodies_replaced
#print axioms KojenVerif.C18.C18_rest_of_B_untouched
#print axioms KojenVerif.C18.C18_B_only_pairs_kept
#print axioms KojenVerif.C18.C18_idempotent
#print axioms KojenVerif.C18.C18_only_destination_written
#print axioms KojenVerif.C18.C18_no_shared_tags_identity
#print axioms KojenVerif.flatten_splitLines
