import KojenVerif.Props.C01
#print axioms KojenVerif.C01.normOK_expandTabs
#print axioms KojenVerif.C01.C01_tab_normalisation_only
#print axioms KojenVerif.C01.C01_fixed_point
#print axioms KojenVerif.C01.C01_iterate
#print axioms KojenVerif.C01.C01_each_block_once_in_order
#print axioms KojenVerif.C01.C01_fixed_point_str
#print axioms KojenVerif.C01.C01_shipped_templates_wf
#print axioms KojenVerif.wfFresh_sound
