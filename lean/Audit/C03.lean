import KojenVerif.Props.C03
#print axioms KojenVerif.C03.C03_lost_complete
#print axioms KojenVerif.C03.C03_no_spurious_entry
#print axioms KojenVerif.C03.C03_entry_layout
#print axioms KojenVerif.C03.C03_location
#print axioms KojenVerif.C03.C03_listed_in_result
#print axioms KojenVerif.C02.C02_commuting_diagram
