import KojenVerif.Props.C06
#print axioms KojenVerif.C06.C06_sites_sorted
#print axioms KojenVerif.C06.C06_independent_of_set_order
#print axioms KojenVerif.C06.C06_shipped_templates_clock_free
#print axioms KojenVerif.C06.C06_no_clock
#print axioms KojenVerif.C06.C06_independent_of_walk_order
#print axioms KojenVerif.C06.C06_lostcode_path_absolute
#print axioms KojenVerif.Str.sortStr_perm_eq
