import KojenVerif.Props.C20
#print axioms KojenVerif.C20.C20_table
#print axioms KojenVerif.C20.C20_one_row_per_transition
#print axioms KojenVerif.C20.C20_row_fields
#print axioms KojenVerif.C20.C20_initial_arrow
#print axioms KojenVerif.C20.C20_initial_first
#print axioms KojenVerif.C20.C20_other_diagrams
#print axioms KojenVerif.C20.C20_other_entries
