import KojenVerif.Props.C05
#print axioms KojenVerif.C05.C05_per_file_atomic
#print axioms KojenVerif.C05.C05_raised_error
#print axioms KojenVerif.C05.C05_nothing_touched_before_first_rename
#print axioms KojenVerif.script_prefix_safe
#print axioms KojenVerif.C05.C05_whole_run_atomic
#print axioms KojenVerif.C05.C05_whole_run_raised_error
#print axioms KojenVerif.C05.C05_whole_run_contents
#print axioms KojenVerif.C05.C05_run_without_copies
