import KojenVerif.Props.C09
#print axioms KojenVerif.C09.C09_rows_in_order
#print axioms KojenVerif.C09.C09_initial
#print axioms KojenVerif.C09.C09_entry_exit_every_state
#print axioms KojenVerif.C09.C09_declared_once
