import KojenVerif.Props.C08
#print axioms KojenVerif.C08.C08_refines_table
#print axioms KojenVerif.C08.C08_sequences
#print axioms KojenVerif.C08.C08_initial
#print axioms KojenVerif.C08.C08_imports
#print axioms KojenVerif.C08.runBlocks_emit
