import KojenVerif.Props.C11
#print axioms KojenVerif.C11.C11_exactly_once_fifo
#print axioms KojenVerif.C11.C11_fifo_prefix
#print axioms KojenVerif.C11.C11_run_to_completion
#print axioms KojenVerif.C11.C11_stop_postcondition
#print axioms KojenVerif.C11.C11_nothing_after_stop
#print axioms KojenVerif.C11.C11_no_deadlock
#print axioms KojenVerif.C11.C11_worker_step_decreases
#print axioms KojenVerif.C11.C11_other_step_keeps_measure
#print axioms KojenVerif.PyQueue.reachable_inv
