import KojenVerif.Props.C14
#print axioms KojenVerif.C14.C14_reassembly
#print axioms KojenVerif.C14.C14_chunking_independent
#print axioms KojenVerif.C14.C14_prefix
#print axioms KojenVerif.C14.C14_raw_receiver
#print axioms KojenVerif.C14.C14_state_invariant
#print axioms KojenVerif.C14.C14_header_read_in_bounds
#print axioms KojenVerif.Conn.step
