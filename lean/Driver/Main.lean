import Lean.Data.Json
import KojenVerif.Model.Pipeline
import KojenVerif.Model.DocCheck
import KojenVerif.Model.OutStage
import KojenVerif.Lemmas.OutStageRun
import KojenVerif.Model.Conn
import KojenVerif.Model.Wire
import KojenVerif.Model.Dispatch
import KojenVerif.Model.EmitPy
import KojenVerif.Model.EmitCs
import KojenVerif.Model.EmitSml
import KojenVerif.Model.PyQueue
import KojenVerif.Model.Conc
import KojenVerif.Model.Engine
import KojenVerif.Model.EngineSpec
import KojenVerif.Model.Vpp
import KojenVerif.Model.Uml
import KojenVerif.Model.UmlInc
import KojenVerif.Model.UmlTypes
import KojenVerif.Lemmas.EngineWF
import KojenVerif.Lemmas.EngineNestedWF
import KojenVerif.Lemmas.EngineProto
import KojenVerif.Lemmas.EngineSecondWF
import KojenVerif.Lemmas.EngineLoadWF
import KojenVerif.Lemmas.EngineSpecLink
/-
  Line-protocol driver: one JSON object per input line, one JSON object per output line.
  Run with `lake env lean --run Driver/Main.lean`.  The harness pipes the same inputs to the
  real implementation and diffs.

  Strings travel as JSON strings.  Lean's `Char` cannot hold a surrogate code point, and
  Python's `surrogateescape` produces exactly those, so a string containing one travels as
  the object {"$s": [code points]} in both directions.
-/
open Lean KojenVerif

namespace Driver

def toStr (s : String) : Str := s.toList.map (fun c => c.toNat)
def ofStr (s : Str) : String := String.ofList (s.map (fun n => Char.ofNat n))

/-- strings with a surrogate code point cannot be Lean Strings: they travel as {"$s": [code points]} -/
def jStr (s : Str) : Json :=
  if s.any (fun n => 0xD800 ≤ n ∧ n ≤ 0xDFFF) then
    Json.mkObj [("$s", Json.arr (s.map (fun n => Json.num (JsonNumber.fromNat n))).toArray)]
  else Json.str (ofStr s)
def jStrs (l : List Str) : Json := Json.arr (l.map jStr).toArray

def asStr (j : Json) : Except String Str :=
  match j with
  | Json.str s => pure (toStr s)
  | _ => do
    let a ← (← j.getObjVal? "$s").getArr?
    a.toList.mapM (fun x => x.getNat?)

def getStr (j : Json) (k : String) : Except String Str := do
  let v ← j.getObjVal? k
  asStr v

def asStrs (j : Json) : Except String (List Str) := do
  let a ← j.getArr?
  a.toList.mapM asStr

def getStrs (j : Json) (k : String) : Except String (List Str) := do
  let v ← j.getObjVal? k
  asStrs v

def getBool (j : Json) (k : String) : Except String Bool := do
  let v ← j.getObjVal? k
  v.getBool?

/-- `[[key, [line, …]], …]` -/
def asPairs (j : Json) : Except String (List (Str × List Str)) := do
  let a ← j.getArr?
  a.toList.mapM (fun p => do
    let pa ← p.getArr?
    match pa.toList with
    | [k, v] => do pure (← asStr k, ← asStrs v)
    | _ => throw "pair expected")

def jPairs (l : List (Str × List Str)) : Json :=
  Json.arr (l.map (fun kv => Json.arr #[jStr kv.1, jStrs kv.2])).toArray

/-- `[[key, content], …]` -/
def asFiles (j : Json) : Except String (List (Str × Str)) := do
  let a ← j.getArr?
  a.toList.mapM (fun p => do
    let pa ← p.getArr?
    match pa.toList with
    | [k, v] => do pure (← asStr k, ← asStr v)
    | _ => throw "pair expected")

def jFiles (l : List (Str × Str)) : Json :=
  Json.arr (l.map (fun kv => Json.arr #[jStr kv.1, jStr kv.2])).toArray

def jOptStr : Option Str → Json
  | some s => jStr s
  | none => Json.null

def hexVal (c : Char) : Nat :=
  if '0' ≤ c ∧ c ≤ '9' then c.toNat - '0'.toNat
  else if 'a' ≤ c ∧ c ≤ 'f' then c.toNat - 'a'.toNat + 10
  else if 'A' ≤ c ∧ c ≤ 'F' then c.toNat - 'A'.toNat + 10 else 0

def unhexL : List Char → List Nat
  | a :: b :: rest => (hexVal a * 16 + hexVal b) :: unhexL rest
  | _ => []

def unhex (s : String) : List Nat := unhexL s.toList

def hexDigit (n : Nat) : Char := if n < 10 then Char.ofNat (48 + n) else Char.ofNat (87 + n)
def toHex (b : List Nat) : String := String.ofList (b.flatMap (fun x => [hexDigit (x / 16 % 16), hexDigit (x % 16)]))

partial def parseFld (j : Json) : Except String Wire.Fld := do
  match j.getObjVal? "prim" with
  | .ok p => do
    let a ← p.getArr?
    match a.toList with
    | [sz, d] => do
      let n ← sz.getNat?
      match d with
      | Json.null => pure (Wire.Fld.prim n none)
      | _ => do pure (Wire.Fld.prim n (some (unhex (← d.getStr?))))
    | _ => throw "prim: [size, default]"
  | .error _ => do
    let fs ← (← j.getObjVal? "nested").getArr?
    let l ← fs.toList.mapM parseFld
    pure (Wire.Fld.nested l)

def parseFlds (j : Json) : Except String (List Wire.Fld) := do
  let a ← j.getArr?
  a.toList.mapM parseFld

def optStr (j : Json) : Except String (Option Str) :=
  match j with
  | Json.null => pure none
  | _ => do pure (some (toStr (← j.getStr?)))

def parseRows (j : Json) : Except String (List Table.Row) := do
  let a ← j.getArr?
  a.toList.mapM (fun r => do
    let f ← r.getArr?
    match f.toList with
    | [s, e, n, ac, g] => do
      pure { src := toStr (← s.getStr?), ev := toStr (← e.getStr?), next := ← optStr n, action := ← optStr ac, guard := ← optStr g }
    | [s, e, n, ac, g, ne] => do
      -- the event cell is '' / None / none (its spelling stays in `ev`)
      pure { src := toStr (← s.getStr?), ev := toStr (← e.getStr?), next := ← optStr n, action := ← optStr ac, guard := ← optStr g, noEv := ← ne.getBool? }
    | _ => throw "row: [src, ev, next, action, guard(, noEv)]")

def jOpt : Option Str → Json
  | some s => jStr s
  | none => Json.null

def jCb : Table.Cb → Json
  | .guard g => Json.arr #[Json.str "guard", jStr g]
  | .exit s => Json.arr #[Json.str "exit", jStr s]
  | .action a e => Json.arr #[Json.str "action", jStr a, jStr e]
  | .entry s => Json.arr #[Json.str "entry", jStr s]
  | .noTransition => Json.arr #[Json.str "notransition"]


/-- `[[a, b], …]` of strings -/
def asStrPairs (j : Json) : Except String (List (Str × Str)) := do
  let a ← j.getArr?
  a.toList.mapM (fun p => do
    let pa ← p.getArr?
    match pa.toList with
    | [k, v] => do pure (← asStr k, ← asStr v)
    | _ => throw "pair expected")

def missing : Str := toStr "<<MISSING-IN-ENV>>"

/-- the callbacks of the engine as finite tables; a JSON `null` value = the back end raises;
    a name that is not in the interface gets what the generator returns for unknown names -/
def asOptStr (j : Json) : Except String (Option Str) :=
  match j with
  | Json.null => pure none
  | _ => do pure (some (← asStr j))

def parseEnv (j : Json) : Except String Engine.Env := do
  let arr (k : String) : Except String (List Json) := do pure (← (← j.getObjVal? k).getArr?).toList
  let sigT ← (← arr "sig").mapM (fun x => do
    let a ← x.getArr?
    match a.toList with
    | [n, wd, v] => do pure ((← asStr n, ← wd.getBool?), ← asOptStr v)
    | _ => throw "sig")
  let miT ← (← arr "memberInst").mapM (fun x => do
    let a ← x.getArr?
    match a.toList with
    | [n, tc, ip, inst, v] => do pure ((← asStr n, ← tc.getNat?, ← ip.getBool?, ← asStr inst), ← asOptStr v)
    | _ => throw "memberInst")
  let mdT ← (← arr "memberDecl").mapM (fun x => do
    let a ← x.getArr?
    match a.toList with
    | [n, tc, pk, v] => do pure ((← asStr n, ← tc.getNat?, ← pk.getBool?), ← asOptStr v)
    | _ => throw "memberDecl")
  let agT ← (← arr "aggInit").mapM (fun x => do
    let a ← x.getArr?
    match a.toList with
    | [n, v] => do pure (← asStr n, ← asOptStr v)
    | _ => throw "aggInit")
  let docT ← asStrPairs (← j.getObjVal? "doc")
  let idT ← asStrPairs (← j.getObjVal? "msgId")
  let memT ← (← arr "members").mapM (fun x => do
    let a ← x.getArr?
    match a.toList with
    | [n, ms] => do
      let l ← (← ms.getArr?).toList.mapM (fun m => do
        let ma ← m.getArr?
        match ma.toList with
        | [t, mn, ip] => do pure (← asStr t, ← asStr mn, ← ip.getBool?)
        | _ => throw "member")
      pure (← asStr n, l)
    | _ => throw "members")
  let aggDefault ← asOptStr (← j.getObjVal? "aggDefault")
  let known (n : Str) : Bool := sigT.any (fun e => e.1.1 == n)
  pure {
    sig := fun n wd => match sigT.find? (fun e => e.1 == (n, wd)) with | some e => e.2 | none => some []
    memberInst := fun n tc ip inst => match miT.find? (fun e => e.1 == (n, tc, ip, inst)) with
      | some e => e.2 | none => if known n then some missing else some []
    memberDecl := fun n tc pk => match mdT.find? (fun e => e.1 == (n, tc, pk)) with
      | some e => e.2 | none => if known n then some missing else some []
    aggInit := fun n => match agT.find? (fun e => e.1 == n) with | some e => e.2 | none => aggDefault
    doc := fun n => (docT.find? (fun e => e.1 == n)).map (·.2)
    members := fun n => (memT.find? (fun e => e.1 == n)).map (·.2)
    msgId := fun n => (idT.find? (fun e => e.1 == n)).map (·.2) }

def emptyEnv : Engine.Env :=
  { sig := fun _ _ => some [], memberInst := fun _ _ _ _ => some [], memberDecl := fun _ _ _ => some [], aggInit := fun _ => some [],
    doc := fun _ => none, members := fun _ => none, msgId := fun _ => none }

def jOptLines : Option (List Str) → Json
  | some ls => jStrs ls
  | none => Json.null


def parseSeg (j : Json) : Except String Spec.Seg := do
  let a ← j.getArr?
  match a.toList with
  | [k, t] => do
    match (← k.getStr?) with
    | "lit" => pure (.lit (← asStr t))
    | "tag" => pure (.tag (← asStr t) none)
    | o => throw s!"seg {o}"
  | [_, n, d] => do pure (.tag (← asStr n) (some (← asStr d)))
  | _ => throw "seg"

def parseBItem (j : Json) : Except String Spec.BItem := do
  match (← (← j.getObjVal? "k").getStr?) with
  | "line" => do
    let segs ← (← (← j.getObjVal? "segs").getArr?).toList.mapM parseSeg
    pure (.line segs)
  | "blank" => do pure (.blank (← getStr j "text"))
  | o => throw s!"body item {o}"

def parseBody (j : Json) : Except String (List Spec.BItem) := do
  (← j.getArr?).toList.mapM parseBItem

def parseKind (s : String) : Except String Spec.Kind :=
  match s with
  | "PS" => pure .ps | "PE" => pure .pe | "PA" => pure .pa | "PG" => pure .pg | "PASIG" => pure .pasig
  | "STRUCT" => pure .struct | "PROTOMSG" => pure .protomsg | "MSG" => pure .msg
  | o => throw s!"kind {o}"

def parsePetItem (j : Json) : Except String Spec.PetItem := do
  match (← (← j.getObjVal? "k").getStr?) with
  | "pgt" => do pure (.pgt (← getStr j "ws") (← parseBody (← j.getObjVal? "body")))
  | _ => do pure (.b (← parseBItem j))

def parsePstItem (j : Json) : Except String Spec.PstItem := do
  match (← (← j.getObjVal? "k").getStr?) with
  | "pet" => do pure (.pet (← getStr j "ws") (← (← (← j.getObjVal? "body").getArr?).toList.mapM parsePetItem))
  | _ => do pure (.b (← parseBItem j))

def parseItem (j : Json) : Except String Spec.Item := do
  match (← (← j.getObjVal? "k").getStr?) with
  | "block" => do pure (.block (← parseKind (← (← j.getObjVal? "kind").getStr?)) (← getStr j "ws") (← parseBody (← j.getObjVal? "body")))
  | "pst" => do pure (.pst (← getStr j "ws") (← (← (← j.getObjVal? "body").getArr?).toList.mapM parsePstItem))
  | "if" => do
    let brs ← (← (← j.getObjVal? "branches").getArr?).toList.mapM (fun b => do
      let a ← b.getArr?
      match a.toList with
      | [t, body] => do pure (← asStr t, ← parseBody body)
      | _ => throw "branch")
    let els ← match j.getObjVal? "else" with
      | .ok Json.null => pure none
      | .ok e => do pure (some (← parseBody e))
      | .error _ => pure none
    pure (.cond (← getStr j "ws") brs els)
  | "for" => do
    let pj ← j.getObjVal? "sparam"
    let p ← match (← (← pj.getObjVal? "t").getStr?) with
      | "list" => do pure (Spec.ForParam.list (← getStr pj "raw"))
      | "count" => do pure (Spec.ForParam.count (← getStr pj "raw"))
      | "tag" => do
        let d ← match pj.getObjVal? "dflt" with
          | .ok Json.null => pure none
          | .ok e => do pure (some (← asStr e))
          | .error _ => pure none
        pure (Spec.ForParam.userTag (← getStr pj "name") d)
      | o => throw s!"for param {o}"
    pure (.loop (← getStr j "ws") p (← parseBody (← j.getObjVal? "body")))
  | _ => do pure (.b (← parseBItem j))

def handle (j : Json) : Except String Json := do
  let cmd ← (← j.getObjVal? "cmd").getStr?
  match cmd with
  | "clean" => do
    let s ← getStr j "s"
    pure (Json.mkObj [("r", jStr (cleanUp s)), ("tag", Json.bool (isUserTag s))])
  | "collect" => do
    let ls ← getStrs j "lines"
    pure (Json.mkObj [("tags", jPairs (collect strCfg ls))])
  | "emplace" => do
    let ls ← getStrs j "lines"
    let tags ← asPairs (← j.getObjVal? "tags")
    let r ← getBool j "replace"
    let out := emplaceAux strCfg tags r ls none
    let u := used strCfg tags ls
    pure (Json.mkObj [("lines", jStrs out), ("used", jStrs u),
                      ("lost", jPairs (lostEntries tags u))])
  | "path" => do
    let a ← getStr j "a"
    let b ← getStr j "b"
    pure (Json.mkObj [("join", jStr (Path.join a b)), ("normpath", jStr (Path.normpath a)),
                      ("abspath", jStr (Path.abspath b a)), ("dirname", jStr (Path.dirname a)),
                      ("basename", jStr (Path.basename a)), ("isabs", Json.bool (Path.isAbs a))])
  | "regen" => do
    let cwd ← getStr j "cwd"
    let outdir ← getStr j "outdir"
    let files ← asFiles (← j.getObjVal? "files")
    let fresh ← asPairs (← j.getObjVal? "fresh")
    let w : World := { cwd := cwd, files := files }
    let cm := preservePass w outdir fresh
    let (w', ret) := createOutput w outdir cm
    pure (Json.mkObj [("files", jFiles w'.files), ("ret", jStrs ret), ("cm", jPairs cm)])
  | "filesync" => do
    let cwd ← getStr j "cwd"
    let files ← asFiles (← j.getObjVal? "files")
    let a ← getStr j "from"
    let b ← getStr j "to"
    let w : World := { cwd := cwd, files := files }
    pure (Json.mkObj [("files", jFiles (fileSyncWorld w a b).files)])
  | "wf" => do
    let ls ← getStrs j "lines"
    let (parses, items, nodup) :=
      match parseDoc ls with
      | some F => (true, F.all Item.freshOKB, decide (blockKeys strCfg F).Nodup)
      | none => (false, false, false)
    pure (Json.mkObj [("fresh", Json.bool (wfFresh ls)), ("disk", Json.bool (wfDisk ls)),
                      ("parses", Json.bool parses), ("items", Json.bool items), ("nodup", Json.bool nodup),
                      ("gentag", Json.bool (ls.any hasGenTagFrom)),
                      ("nogentag", Json.bool (ls.all (fun l => !Engine.hasTag l))),
                      ("tags", jStrs ((ls.map Engine.tagBodies).flatten))])
  | "script" => do
    let outdir ← getStr j "outdir"
    let cm ← asPairs (← j.getObjVal? "cm")
    -- the copy of the support sources after the output stage: [{dirTo, files: [[name, source path, content]]}]
    let calls ← (match j.getObjVal? "copies" with
      | .ok v => do
        (← v.getArr?).toList.mapM (fun c => do
          let files ← (← (← c.getObjVal? "files").getArr?).toList.mapM (fun f => do
            match (← f.getArr?).toList with
            | [n, src, content] => pure (← asStr n, ← asStr src, ← asStr content)
            | _ => throw "copy file: [name, source, content]")
          pure ({ dirTo := ← getStr c "dirTo", files := files } : CopyCall))
      | .error _ => pure [])
    let ops := if calls.isEmpty then script outdir cm else prog (runBlocks outdir cm calls)
    let enc : Op → Json
      | .mkdirs d => Json.arr #[Json.str "mkdirs", jStr d]
      | .openTmp t => Json.arr #[Json.str "open", jStr t]
      | .write t s => Json.arr #[Json.str "write", jStr t, jStr s]
      | .close t => Json.arr #[Json.str "close", jStr t]
      | .copymode p t => Json.arr #[Json.str "copymode", jStr p, jStr t]
      | .replace t p => Json.arr #[Json.str "replace", jStr t, jStr p]
    pure (Json.mkObj [("ops", Json.arr (ops.map enc).toArray)])
  | "conn" => do
    let p0 ← (← j.getObjVal? "p0").getNat?
    let p1 ← (← j.getObjVal? "p1").getNat?
    let raw ← getBool j "raw"
    let chunks ← (← j.getObjVal? "chunks").getArr?
    let cs ← chunks.toList.mapM (fun x => do pure (unhex (← x.getStr?)))
    if raw then
      pure (Json.mkObj [("raw", Json.arr ((Conn.feedRaw cs).map (fun b => Json.str (toHex b))).toArray)])
    else
      let r := Conn.feedAll ⟨p0, p1⟩ Conn.St.init cs
      pure (Json.mkObj [("msgs", Json.arr (r.2.map (fun b => Json.str (toHex b))).toArray),
                        ("buf", Json.str (toHex r.1.buf)), ("req", Json.num r.1.req)])
  | "layout" => do
    let fs ← parseFlds (← j.getObjVal? "fields")
    let base ← (← j.getObjVal? "base").getNat?
    pure (Json.mkObj [("size", Json.num (base + Wire.sizeList fs)),
                      ("offsets", Json.arr ((Wire.offsets fs base).map (fun (n : Nat) => Json.num (JsonNumber.fromNat n))).toArray)])
  | "factory" => do
    let fs ← parseFlds (← j.getObjVal? "fields")
    let pre ← (← j.getObjVal? "preamble").getNat?
    let tid ← (← j.getObjVal? "typeId").getNat?
    let args ← (← j.getObjVal? "args").getArr?
    let al ← args.toList.mapM (fun x => do pure (unhex (← x.getStr?)))
    let m : Wire.Msg := ⟨pre, tid, fs⟩
    pure (Json.mkObj [("default", Json.str (toHex m.factoryDefault)), ("with", Json.str (toHex (m.factoryWith al))),
                      ("size", Json.num m.size)])
  | "transmit" => do
    let acc ← (← j.getObjVal? "accepts").getArr?
    let al ← acc.toList.mapM (fun x => x.getBool?)
    let retries ← (← j.getObjVal? "retries").getInt?
    let r := Dispatch.transmit (fun k => al.getD k true) retries
    pure (Json.mkObj [("ok", Json.bool r.1), ("calls", Json.num r.2)])
  | "dispatch" => do
    let ids ← (← j.getObjVal? "ids").getArr?
    let il ← ids.toList.mapM (fun x => x.getNat?)
    let msgs ← (← j.getObjVal? "msgs").getArr?
    let ml ← msgs.toList.mapM (fun x => do pure (unhex (← x.getStr?)))
    let enc : Dispatch.Target → Json
      | .handler i => Json.num (JsonNumber.fromNat i)
      | .notHandled => Json.num (JsonNumber.fromInt (-1))
    pure (Json.mkObj [("targets", Json.arr (ml.map (fun m => enc (Dispatch.dispatch il m))).toArray)])
  | "emitpy" => do
    let t ← parseRows (← j.getObjVal? "tt")
    let p := EmitPy.emit t
    let jStmt : EmitPy.Stmt → Json
      | .call cb => jCb cb
      | .assign s => Json.arr #[Json.str "assign", jStr s]
      | .ret => Json.arr #[Json.str "return"]
    let jBlock (b : EmitPy.Block) : Json := Json.mkObj [("guard", jOpt b.guard), ("body", Json.arr (b.body.map jStmt).toArray)]
    let jEv (e : EmitPy.EvBlock) : Json := Json.mkObj [("ev", jStr e.ev), ("blocks", Json.arr (e.blocks.map jBlock).toArray)]
    let jFn (f : EmitPy.StateFn) : Json := Json.mkObj [("state", jStr f.state), ("evs", Json.arr (f.evs.map jEv).toArray)]
    let lines := (p.fns.map EmitPy.fnLines).flatten
    pure (Json.mkObj [("fns", Json.arr (p.fns.map jFn).toArray), ("init", jOpt p.init),
                      ("indent_ok", Json.bool (p.fns.all (fun f => EmitPy.indentOK [4, 0] false (EmitPy.fnLines f)))),
                      ("nlines", Json.num (JsonNumber.fromNat lines.length)),
                      ("context", Json.arr ((EmitCs.context t).map (fun d => match d with
                          | .guard g => Json.arr #[Json.str "guard", jStr g]
                          | .action a e => Json.arr #[Json.str "action", jStr a, jStr e]
                          | .entry st => Json.arr #[Json.str "entry", jStr st]
                          | .exit st => Json.arr #[Json.str "exit", jStr st])).toArray),
                      ("classes", jStrs (EmitCs.classes t)),
                      ("states", jStrs (Table.states t)), ("events", jStrs (Table.events t)),
                      ("actions", jStrs (Table.actions t)), ("guards", jStrs (Table.guards t)),
                      ("sigs", Json.arr ((Table.actionSigs t).map (fun p => Json.arr #[jStr p.1, jStr p.2])).toArray)])
  | "emitsml" => do
    let t ← parseRows (← j.getObjVal? "tt")
    let enc : EmitSml.SmlRow → Json
      | .trans i s e g a n => Json.arr #[Json.str "trans", Json.bool i, jStr s, jStr e, jStr g, jStr a, jOpt n]
      | .entry s => Json.arr #[Json.str "entry", jStr s]
      | .exit s => Json.arr #[Json.str "exit", jStr s]
    pure (Json.mkObj [("rows", Json.arr ((EmitSml.rows t).map enc).toArray),
                      ("states", jStrs (Table.states t)), ("events", jStrs (Table.events t)),
                      ("actions", jStrs (Table.actions t)), ("guards", jStrs (Table.guards t)),
                      ("sigs", Json.arr ((Table.actionSigs t).map (fun p => Json.arr #[jStr p.1, jStr p.2])).toArray)])
  | "pyqueue" => do
    let totals ← (← j.getObjVal? "totals").getArr?
    let tl ← totals.toList.mapM (fun x => x.getNat?)
    let cbTotal ← (← j.getObjVal? "cbTotal").getNat?
    let labs ← (← j.getObjVal? "labels").getArr?
    let parseLabel (x : Json) : Except String PyQueue.Label := do
      let a ← x.getArr?
      match a.toList with
      | [k] => do
        match (← k.getStr?) with
        | "wGet" => pure .wGet
        | "wCb" => pure .wCb
        | "wEnd" => pure .wEnd
        | "stopCall" => pure .stopCall
        | "stopJoin" => pure .stopJoin
        | o => throw s!"label {o}"
      | [k, p] => do
        let n ← p.getNat?
        match (← k.getStr?) with
        | "trig" => pure (.trig n)
        | "syncBegin" => pure (.syncBegin n)
        | "syncEnd" => pure (.syncEnd n)
        | o => throw s!"label {o}"
      | _ => throw "label"
    let ls ← labs.toList.mapM parseLabel
    let rec go (s : PyQueue.St) (ls : List PyQueue.Label) (i : Nat) : PyQueue.St × Option Nat :=
      match ls with
      | [] => (s, none)
      | l :: rest => match PyQueue.step s l with
        | some s' => go s' rest (i + 1)
        | none => (s, some i)
    let r := go (PyQueue.init (fun p => tl.getD p 0) cbTotal) ls 0
    let jSrc : PyQueue.Src → Json
      | some p => Json.num (JsonNumber.fromNat p)
      | none => Json.str "cb"
    pure (Json.mkObj [("failed_at", match r.2 with | some i => Json.num (JsonNumber.fromNat i) | none => Json.null),
                      ("begun", Json.arr (r.1.begun.map (fun e => Json.arr #[jSrc e.1, Json.num (JsonNumber.fromNat e.2)])).toArray),
                      ("alive", Json.bool r.1.alive), ("queue_len", Json.num (JsonNumber.fromNat r.1.queue.length)),
                      ("stopper", Json.str (match r.1.stopper with | .notCalled => "notCalled" | .joining => "joining" | .returned => "returned"))])
  | "conc" => do
    let totals ← (← j.getObjVal? "totals").getArr?
    let tl ← totals.toList.mapM (fun x => x.getNat?)
    let nw ← (← j.getObjVal? "nworkers").getNat?
    let labs ← (← j.getObjVal? "labels").getArr?
    -- a label is one model step; "wRun w" = worker w takes its enabled steps until none is left
    let parseLabel (x : Json) : Except String (Sum Conc.Label Nat) := do
      let a ← x.getArr?
      match a.toList with
      | [k] => do
        match (← k.getStr?) with
        | "dSet" => pure (.inl .dSet)
        | "dWake" => pure (.inl .dWake)
        | "dJoin" => pure (.inl .dJoin)
        | "dDestroyDerived" => pure (.inl .dDestroyDerived)
        | o => throw s!"label {o}"
      | [k, p] => do
        let n ← p.getNat?
        match (← k.getStr?) with
        | "push" => pure (.inl (.push n))
        | "wCheck" => pure (.inl (.wCheck n))
        | "wPop" => pure (.inl (.wPop n))
        | "wTest" => pure (.inl (.wTest n))
        | "wEnd" => pure (.inl (.wEnd n))
        | "wRun" => pure (.inr n)
        | o => throw s!"label {o}"
      | _ => throw "label"
    let ls ← labs.toList.mapM parseLabel
    let sf := Generated.dispatcherStopFirst
    let wAny (s : Conc.St) (w : Nat) : Option Conc.St :=
      (Conc.step sf s (.wCheck w)).orElse fun _ => (Conc.step sf s (.wPop w)).orElse fun _ =>
      (Conc.step sf s (.wTest w)).orElse fun _ => Conc.step sf s (.wEnd w)
    let rec wRun (s : Conc.St) (w : Nat) (fuel : Nat) : Conc.St :=
      match fuel with
      | 0 => s
      | fuel + 1 => match wAny s w with
        | some s' => wRun s' w fuel
        | none => s
    let rec goC (s : Conc.St) (ls : List (Sum Conc.Label Nat)) (i : Nat) : Conc.St × Option Nat :=
      match ls with
      | [] => (s, none)
      | .inl l :: rest => match Conc.step sf s l with
        | some s' => goC s' rest (i + 1)
        | none => (s, some i)
      | .inr w :: rest => goC (wRun s w (4 * s.queue.length + 8)) rest (i + 1)
    let r := goC (Conc.init (fun p => tl.getD p 0) nw) ls 0
    let jItem (e : Conc.Item) : Json := Json.arr #[Json.num (JsonNumber.fromNat e.1), Json.num (JsonNumber.fromNat e.2)]
    let allExited := (List.range nw).all (fun w => r.1.workers w == .exited)
    pure (Json.mkObj [("failed_at", match r.2 with | some i => Json.num (JsonNumber.fromNat i) | none => Json.null),
                      ("begun", Json.arr (r.1.begun.map jItem).toArray),
                      ("dropped", Json.arr (r.1.dropped.map jItem).toArray),
                      ("queue", Json.arr (r.1.queue.map jItem).toArray),
                      ("all_exited", Json.bool allExited), ("derived_alive", Json.bool r.1.derivedAlive),
                      ("stop_first", Json.bool sf),
                      ("destroyer", Json.str (match r.1.destroyer with | .alive => "alive" | .flagSet => "flagSet" | .woken => "woken" | .joined => "joined" | .destroyed => "destroyed"))])
  | "engine" => do
    let env ← parseEnv (← j.getObjVal? "env")
    let smname ← getStr j "smname"
    let dict := Engine.smDict smname (← getStr j "ns") (← getStr j "author") (← getStr j "group") (← getStr j "brief")
                  (← getStr j "dclspc") (← getStr j "pyif") (← getStr j "enums")
    let fnDict := Engine.fnDictOf smname
    let t ← parseRows (← j.getObjVal? "tt")
    let ut ← (← (← j.getObjVal? "userTags").getArr?).toList.mapM (fun x => do
      let a ← x.getArr?
      match a.toList with
      | [k, v, isS] => do pure (← asStr k, ← asStr v, ← isS.getBool?)
      | _ => throw "userTags")
    let files ← asPairs (← j.getObjVal? "files")
    let inp : Engine.GenInput :=
      { dict := dict, fnDict := fnDict,
        sm := { table := t, structNames := ← getStrs j "structNames", protoNames := ← getStrs j "protoNames", msgNames := ← getStrs j "msgNames" },
        userTags := ut.map (fun e => (e.1, e.2.1)),
        userTagIsStr := fun k => ((ut.find? (fun e => e.1 == k)).map (·.2.2)).getD false }
    match Engine.generate env inp files with
    | some cm => pure (Json.mkObj [("ok", Json.bool true), ("files", jPairs cm)])
    | none => pure (Json.mkObj [("ok", Json.bool false)])
  | "engfn" => do
    -- function-level correspondence of the engine's helpers
    let fn ← (← j.getObjVal? "fn").getStr?
    match fn with
    | "tagBodies" => pure (Json.mkObj [("r", jStrs (Engine.tagBodies (← getStr j "a")))])
    | "hasSpecificTag" => pure (Json.mkObj [("r", Json.bool (Engine.hasSpecificTag (← getStr j "a") (← getStr j "tag")))])
    | "hasDefault" => pure (Json.mkObj [("r", Json.bool (Engine.hasDefault (← getStr j "a") (← getStr j "delim")))])
    | "extractDefaultAndTag" =>
      let r := Engine.extractDefaultAndTag (← getStr j "a") (← getStr j "delim")
      pure (Json.mkObj [("r", jStrs [r.1, r.2])])
    | "removeDefault" => pure (Json.mkObj [("r", jStr (Engine.removeDefault (← getStr j "a") (← getStr j "delim")))])
    | "replaceUserTags" =>
      pure (Json.mkObj [("r", jStr (Engine.replaceUserTags (← asStrPairs (← j.getObjVal? "dict")) (← getStr j "a")))])
    | "replaceDefault" => pure (Json.mkObj [("r", jStr (Engine.replaceDefault (← getStr j "a") (← getStr j "b")))])
    | "snake" => pure (Json.mkObj [("r", jStr (Str.snakeCase (← getStr j "a")))])
    | "camelSmall" => pure (Json.mkObj [("r", jStr (Str.camelSmall (← getStr j "a")))])
    | "filterNewlines" => pure (Json.mkObj [("r", jStrs (Engine.filterNewlines (← getStrs j "lines")))])
    | "doFor" => pure (Json.mkObj [("r", jOptLines (Engine.doFor (← getStrs j "lines")))])
    | "doUserTags" =>
      let ut ← (← (← j.getObjVal? "userTags").getArr?).toList.mapM (fun x => do
        let a ← x.getArr?
        match a.toList with
        | [k, v, isS] => do pure (← asStr k, ← asStr v, ← isS.getBool?)
        | _ => throw "userTags")
      let lines ← getStrs j "lines"
      let fd := lines.foldl Engine.forDefaultsStep []
      pure (Json.mkObj [("r", jOptLines (Engine.doUserTags (ut.map (fun e => (e.1, e.2.1)))
              (fun k => ((ut.find? (fun e => e.1 == k)).map (·.2.2)).getD false) fd lines))])
    | o => throw s!"engfn {o}"
  | "spec" => do
    -- the reference expander on parsed templates: per file the text as written, and the rendered template
    let smname ← getStr j "smname"
    let globals := Engine.smDict smname (← getStr j "ns") (← getStr j "author") (← getStr j "group") (← getStr j "brief")
                  (← getStr j "dclspc") (← getStr j "pyif") (← getStr j "enums")
    let t ← parseRows (← j.getObjVal? "tt")
    let ut ← asStrPairs (← j.getObjVal? "userTags")
    let m : Spec.Model := { table := t, structNames := ← getStrs j "structNames", protoNames := ← getStrs j "protoNames", msgNames := ← getStrs j "msgNames" }
    let files ← (← (← j.getObjVal? "files").getArr?).toList.mapM (fun f => do
      let items ← (← (← f.getObjVal? "items").getArr?).toList.mapM parseItem
      pure (← getStr f "name", items))
    let fd := Spec.forDefaults (files.map (·.2))
    let out := files.map (fun f =>
      Json.mkObj [("name", jStr (Engine.fileName (Engine.fnDictOf smname) f.1)),
                  ("rendered", jStrs (Spec.renderFile f.2)),
                  ("text", match Spec.expandFile globals m fd ut f.2 with
                    | some ls => jStr (Spec.fileText ls)
                    | none => Json.null)])
    pure (Json.mkObj [("files", Json.arr out.toArray)])
  | "engwf" => do
    -- evaluates the hypotheses of the C16 / C17 theorems on a parsed template + model (after the load phase)
    let smname ← getStr j "smname"
    let globals := Engine.smDict smname (← getStr j "ns") (← getStr j "author") (← getStr j "group") (← getStr j "brief")
                  (← getStr j "dclspc") (← getStr j "pyif") (← getStr j "enums")
    let t ← parseRows (← j.getObjVal? "tt")
    let m : Spec.Model := { table := t, structNames := ← getStrs j "structNames", protoNames := ← getStrs j "protoNames", msgNames := ← getStrs j "msgNames" }
    let files ← (← (← j.getObjVal? "files").getArr?).toList.mapM (fun f => do
      let items ← (← (← f.getObjVal? "items").getArr?).toList.mapM parseItem
      pure items)
    let first := (t.head?.map (·.src)).getD (Engine.T "NO TT PRESENT!")
    let st0 := [(Engine.T "<<<STATE_0>>>", first), (Engine.T "<<<state_0>>>", Str.camelSmall first)]
    let nameKinds : List Spec.Kind := [.ps, .pe, .pa, .pg]
    let chunksFor (k : Spec.Kind) (items : List Spec.Item) : List Engine.Chunk :=
      items.foldr (fun it acc =>
        match it with
        | .block k' ws body =>
          if k' == k then
            Engine.Chunk.block (Spec.delim ws (Spec.kw k ++ Engine.T "_BEGIN")) (body.map Spec.BItem.render) (Spec.delim ws (Spec.kw k ++ Engine.T "_END")) :: acc
          else (match acc with
            | Engine.Chunk.plain ls :: rest => Engine.Chunk.plain (it.render ++ ls) :: rest
            | _ => Engine.Chunk.plain it.render :: acc)
        | _ => (match acc with
            | Engine.Chunk.plain ls :: rest => Engine.Chunk.plain (it.render ++ ls) :: rest
            | _ => Engine.Chunk.plain it.render :: acc)) []
    let mut uItems := 0
    let mut uOk := 0
    let mut blocks := 0
    let mut blocksOk := 0
    let mut chunks := 0
    let mut chunksOk := 0
    let mut pgtLines := 0
    let mut pgtOk := 0
    let mut pgtAlt := 0
    let mut pstBlocks := 0
    let mut pstOk := 0
    let mut pblocks := 0
    let mut pblocksOk := 0
    let mut filesN := 0
    let mut filesOk := 0
    -- the whole front half of the generator (C17_generate): is this input inside its grammar?
    let ut ← (match j.getObjVal? "userTags" with | .ok v => asStrPairs v | .error _ => pure [])
    let chain := Spec.stripBrackets globals
    let tfiles := files.map (fun its => ({ name := [], items := its } : Engine.TFile))
    let genOk := (Engine.toPat chain == globals) && Engine.genOKB m chain ut tfiles
    -- ... and inside the grammar of C17_generate_is_spec (generator output = reference expansion)?
    let specOk := genOk && chain.all (fun kv => decide (Engine.Clean kv.1 ∧ Engine.NoEq kv.1) && decide (Engine.Clean kv.2)) &&
      decide (Engine.UtFree ut) && tfiles.all (fun f => decide (Engine.LinkFileOK m chain f.items))
    for items0 in files do
      filesN := filesN + 1
      -- the file as the second filtering receives it (STATE_0 still to be replaced)
      if Engine.secondOKB m (Spec.load globals items0) then filesOk := filesOk + 1
      let items := Spec.load (globals ++ st0) items0
      for it in items do
        match it with
        | .b _ | .cond _ _ _ =>
          uItems := uItems + 1
          if Engine.uItemOKB it then uOk := uOk + 1
        | .block k _ body =>
          if nameKinds.contains k then
            blocks := blocks + 1
            if Engine.blockOKB (Spec.elements m k) body then blocksOk := blocksOk + 1
          else if k == .struct || k == .protomsg || k == .msg then
            pblocks := pblocks + 1
            if Engine.blockOKPB (Spec.elements m k) body then pblocksOk := pblocksOk + 1
        | .pst _ body =>
          pstBlocks := pstBlocks + 1
          if Engine.pstOKB t body then pstOk := pstOk + 1
          -- the per-guard-transition lines as they reach the innermost level (state and event names in place)
          for s in Table.perStateKeys t do
            let ds := Spec.caseTags "STATENAME" "stateName" "STATE_NAME" s
            for pi in body do
              match pi with
              | .pet _ pb =>
                for e in Table.eventsOf t s do
                  let de := Spec.caseTags "EVENTNAME" "eventName" "EVENT_NAME" e
                  for qi in pb.map (Spec.PetItem.subst (Spec.byDict ds)) do
                    match qi with
                    | .pgt _ gb =>
                      for r in Table.rowsFor t s e do
                        for i in gb.map (Spec.BItem.subst (Spec.byDict de)) do
                          pgtLines := pgtLines + 1
                          if Engine.rowOKB r && Engine.pgtItemOKB (Spec.transTags r) i then pgtOk := pgtOk + 1
                          match i with
                          | .line l => if Engine.singleB l then pgtAlt := pgtAlt + 1
                          | _ => pure ()
                    | _ => pure ()
              | _ => pure ()
        | _ => pure ()
      for k in nameKinds do
        for c in chunksFor k items do
          chunks := chunks + 1
          if Engine.chunkOKB (Spec.kw k ++ Engine.T "_BEGIN") (Spec.kw k ++ Engine.T "_END") c then chunksOk := chunksOk + 1
    let n (x : Nat) := Json.num (JsonNumber.fromNat x)
    pure (Json.mkObj [("user_items", n uItems), ("user_items_ok", n uOk), ("blocks", n blocks), ("blocks_ok", n blocksOk),
                      ("chunks", n chunks), ("chunks_ok", n chunksOk),
                      ("pgt_lines", n pgtLines), ("pgt_lines_ok", n pgtOk), ("pgt_lines_with_alternative", n pgtAlt),
                      ("pst_blocks", n pstBlocks), ("pst_blocks_ok", n pstOk),
                      ("struct_blocks", n pblocks), ("struct_blocks_ok", n pblocksOk),
                      ("files", n filesN), ("files_second_filtering_ok", n filesOk),
                      ("generator_inputs", n 1), ("generator_inputs_ok", n (if genOk then 1 else 0)),
                      ("generator_inputs_spec_ok", n (if specOk then 1 else 0))])
  | "vpp" => do
    let rows3 (k : String) : Except String (List (List Str)) := do
      (← (← j.getObjVal? k).getArr?).toList.mapM asStrs
    let ds ← rows3 "diagrams"
    let es ← rows3 "elems"
    let ms ← rows3 "models"
    let p : Vpp.Project :=
      { diagrams := ds.filterMap (fun r => match r with | [a, b, c] => some ⟨a, b, c⟩ | _ => none),
        elems := es.filterMap (fun r => match r with | [a, b, c] => some ⟨a, b, c⟩ | _ => none),
        models := ms.filterMap (fun r => match r with | [a, b, c, d] => some ⟨a, b, c, d⟩ | _ => none) }
    match Vpp.extract p (← getStr j "name") with
    | some rows => pure (Json.mkObj [("ok", Json.bool true), ("rows", Json.arr (rows.map jStrs).toArray)])
    | none => pure (Json.mkObj [("ok", Json.bool false)])
  | "vppfn" => do
    match (← (← j.getObjVal? "fn").getStr?) with
    | "parseTransition" =>
      let r := Vpp.parseTransition (← getStr j "blob")
      pure (Json.mkObj [("r", Json.arr #[jOpt r.to_, jOpt r.from_, jOpt r.guard, jOpt r.effect])])
    | "parseGuardName" => pure (Json.mkObj [("r", jOpt (Vpp.parseGuardName (← getStr j "blob")))])
    | o => throw s!"vppfn {o}"
  | "umltypes" => do
    -- which types a header includes / forward declares; prim / ptr / enum answers are passed in as lists
    let prims ← getStrs j "prims"
    let ptrs ← getStrs j "ptrs"
    let enums ← getStrs j "enums"
    let use (x : Json) : Except String UmlTypes.Use := do
      match (← x.getArr?).toList with
      | [t, m] => pure { type := ← asStr t, modifier := ← asStr m }
      | _ => throw "use"
    let attrs ← (← (← j.getObjVal? "attrs").getArr?).toList.mapM use
    let ops ← (← (← j.getObjVal? "ops").getArr?).toList.mapM (fun o => do
      let ps ← (← (← o.getObjVal? "params").getArr?).toList.mapM use
      let rt ← use (← o.getObjVal? "ret")
      pure (ps, rt))
    let c : UmlTypes.Cls := { bases := ← getStrs j "bases", attrs := attrs, ops := ops,
                              compositions := ← getStrs j "compositions", pointers := ← getStrs j "pointers" }
    let prim := fun t => prims.contains t
    let ptr := fun t => ptrs.contains t
    let en := fun t => enums.contains t
    pure (Json.mkObj [("notfwd", jStrs (UmlTypes.notFwd prim ptr en c)), ("fwd", jStrs (UmlTypes.fwd prim ptr en c))])
  | "umlinc" => do
    -- the include block of one header: holder namespace, the sorted set of types it needs complete, the diagram's class names
    pure (Json.mkObj [("text", jStr (Uml.includes (← getBool j "folders") (← getStr j "ns") (← getStrs j "types") (← getStrs j "names")))])
  | "uml" => do
    let templates ← getStrs j "templates"
    let folders ← getBool j "folders"
    let diagram ← getStr j "diagram"
    let namespaces ← getStrs j "namespaces"
    let elems ← (← (← j.getObjVal? "elems").getArr?).toList.mapM (fun x => do
      let a ← x.getArr?
      match a.toList with
      | [n, ns, e, s, ag, pv] => do
        pure ({ name := ← asStr n, ns := ← asStr ns, isEnum := ← e.getBool?, isStruct := ← s.getBool?, autogen := ← ag.getBool?, pvi := ← pv.getBool? } : Uml.Elem)
      | _ => throw "elem")
    pure (Json.mkObj [("files", jStrs (Uml.fileList templates folders diagram elems namespaces)),
                      ("per_elem", Json.arr (elems.map (fun e => Json.mkObj [("name", jStr e.name), ("files", jStrs (Uml.filesOf templates folders e)),
                          ("begin", jStr (Uml.nsBegin e.ns)), ("end", jStr (Uml.nsEnd e.ns))])).toArray)])
  | "runref" => do
    let t ← parseRows (← j.getObjVal? "tt")
    let silent ← getBool j "silent"
    let evs ← (← j.getObjVal? "events").getArr?
    let start ← getStr j "start"
    let mut cur := start
    let mut out : Array Json := #[]
    for ev in evs.toList do
      let pr ← ev.getArr?
      match pr.toList with
      | [e, trueGuards] => do
        let tg ← asStrs trueGuards
        let es ← asStr e
        let r := if silent then Table.stepRefSilent t cur es (fun g => tg.contains g)
                 else Table.stepRef t cur es (fun g => tg.contains g)
        let rp := EmitPy.process (EmitPy.emit t) cur es (fun g => tg.contains g)
        out := out.push (Json.mkObj [("state", jStr r.1), ("trace", Json.arr (r.2.map jCb).toArray),
                                     ("emit_agrees", Json.bool (silent || (rp.1 == r.1 && rp.2 == r.2)))])
        cur := r.1
      | _ => throw "event: [name, [true guards]]"
    pure (Json.mkObj [("steps", Json.arr out)])
  | "split" => do
    let s ← getStr j "s"
    pure (Json.mkObj [("lines", jStrs (splitLines s))])
  | _ => throw s!"unknown cmd {cmd}"

partial def loop (h : IO.FS.Stream) (out : IO.FS.Stream) : IO Unit := do
  let line ← h.getLine
  if line.isEmpty then return ()
  let res : Json :=
    match Json.parse line with
    | .error e => Json.mkObj [("error", Json.str s!"parse: {e}")]
    | .ok j =>
      match handle j with
      | .error e => Json.mkObj [("error", Json.str e)]
      | .ok r => r
  out.putStrLn res.compress
  loop h out

end Driver

def main : IO Unit := do
  let out ← IO.getStdout
  Driver.loop (← IO.getStdin) out
  out.flush
