import Lean.Data.Json
import KojenVerif.Model.Pipeline
import KojenVerif.Model.DocCheck
import KojenVerif.Model.OutStage
import KojenVerif.Model.Conn
import KojenVerif.Model.Wire
import KojenVerif.Model.Dispatch
import KojenVerif.Model.EmitPy
import KojenVerif.Model.EmitCs
import KojenVerif.Model.EmitSml
import KojenVerif.Model.PyQueue
import KojenVerif.Model.Conc
/-
  Line-protocol driver: one JSON object per input line, one JSON object per output line.
  Run with `lake env lean --run Driver/Main.lean`.  The harness pipes the same inputs to the
  real implementation and diffs.

  Strings travel as JSON strings.  Lean's `Char` cannot hold a surrogate code point, and
  Python's `surrogateescape` produces exactly those, so a string containing one travels as
  the object {"$s": [code points]} in both directions.
-/
open Lean KojenVerif

namespace Driver

def toStr (s : String) : Str := s.toList.map (fun c => c.toNat)
def ofStr (s : Str) : String := String.ofList (s.map (fun n => Char.ofNat n))

/-- strings with a surrogate code point cannot be Lean Strings: they travel as {"$s": [code points]} -/
def jStr (s : Str) : Json :=
  if s.any (fun n => 0xD800 ≤ n ∧ n ≤ 0xDFFF) then
    Json.mkObj [("$s", Json.arr (s.map (fun n => Json.num (JsonNumber.fromNat n))).toArray)]
  else Json.str (ofStr s)
def jStrs (l : List Str) : Json := Json.arr (l.map jStr).toArray

def asStr (j : Json) : Except String Str :=
  match j with
  | Json.str s => pure (toStr s)
  | _ => do
    let a ← (← j.getObjVal? "$s").getArr?
    a.toList.mapM (fun x => x.getNat?)

def getStr (j : Json) (k : String) : Except String Str := do
  let v ← j.getObjVal? k
  asStr v

def asStrs (j : Json) : Except String (List Str) := do
  let a ← j.getArr?
  a.toList.mapM asStr

def getStrs (j : Json) (k : String) : Except String (List Str) := do
  let v ← j.getObjVal? k
  asStrs v

def getBool (j : Json) (k : String) : Except String Bool := do
  let v ← j.getObjVal? k
  v.getBool?

/-- `[[key, [line, …]], …]` -/
def asPairs (j : Json) : Except String (List (Str × List Str)) := do
  let a ← j.getArr?
  a.toList.mapM (fun p => do
    let pa ← p.getArr?
    match pa.toList with
    | [k, v] => do pure (← asStr k, ← asStrs v)
    | _ => throw "pair expected")

def jPairs (l : List (Str × List Str)) : Json :=
  Json.arr (l.map (fun kv => Json.arr #[jStr kv.1, jStrs kv.2])).toArray

/-- `[[key, content], …]` -/
def asFiles (j : Json) : Except String (List (Str × Str)) := do
  let a ← j.getArr?
  a.toList.mapM (fun p => do
    let pa ← p.getArr?
    match pa.toList with
    | [k, v] => do pure (← asStr k, ← asStr v)
    | _ => throw "pair expected")

def jFiles (l : List (Str × Str)) : Json :=
  Json.arr (l.map (fun kv => Json.arr #[jStr kv.1, jStr kv.2])).toArray

def jOptStr : Option Str → Json
  | some s => jStr s
  | none => Json.null

def hexVal (c : Char) : Nat :=
  if '0' ≤ c ∧ c ≤ '9' then c.toNat - '0'.toNat
  else if 'a' ≤ c ∧ c ≤ 'f' then c.toNat - 'a'.toNat + 10
  else if 'A' ≤ c ∧ c ≤ 'F' then c.toNat - 'A'.toNat + 10 else 0

def unhexL : List Char → List Nat
  | a :: b :: rest => (hexVal a * 16 + hexVal b) :: unhexL rest
  | _ => []

def unhex (s : String) : List Nat := unhexL s.toList

def hexDigit (n : Nat) : Char := if n < 10 then Char.ofNat (48 + n) else Char.ofNat (87 + n)
def toHex (b : List Nat) : String := String.ofList (b.flatMap (fun x => [hexDigit (x / 16 % 16), hexDigit (x % 16)]))

partial def parseFld (j : Json) : Except String Wire.Fld := do
  match j.getObjVal? "prim" with
  | .ok p => do
    let a ← p.getArr?
    match a.toList with
    | [sz, d] => do
      let n ← sz.getNat?
      match d with
      | Json.null => pure (Wire.Fld.prim n none)
      | _ => do pure (Wire.Fld.prim n (some (unhex (← d.getStr?))))
    | _ => throw "prim: [size, default]"
  | .error _ => do
    let fs ← (← j.getObjVal? "nested").getArr?
    let l ← fs.toList.mapM parseFld
    pure (Wire.Fld.nested l)

def parseFlds (j : Json) : Except String (List Wire.Fld) := do
  let a ← j.getArr?
  a.toList.mapM parseFld

def optStr (j : Json) : Except String (Option Str) :=
  match j with
  | Json.null => pure none
  | _ => do pure (some (toStr (← j.getStr?)))

def parseRows (j : Json) : Except String (List Table.Row) := do
  let a ← j.getArr?
  a.toList.mapM (fun r => do
    let f ← r.getArr?
    match f.toList with
    | [s, e, n, ac, g] => do
      pure { src := toStr (← s.getStr?), ev := toStr (← e.getStr?), next := ← optStr n, action := ← optStr ac, guard := ← optStr g }
    | _ => throw "row: [src, ev, next, action, guard]")

def jOpt : Option Str → Json
  | some s => jStr s
  | none => Json.null

def jCb : Table.Cb → Json
  | .guard g => Json.arr #[Json.str "guard", jStr g]
  | .exit s => Json.arr #[Json.str "exit", jStr s]
  | .action a e => Json.arr #[Json.str "action", jStr a, jStr e]
  | .entry s => Json.arr #[Json.str "entry", jStr s]
  | .noTransition => Json.arr #[Json.str "notransition"]

def handle (j : Json) : Except String Json := do
  let cmd ← (← j.getObjVal? "cmd").getStr?
  match cmd with
  | "clean" => do
    let s ← getStr j "s"
    pure (Json.mkObj [("r", jStr (cleanUp s)), ("tag", Json.bool (isUserTag s))])
  | "collect" => do
    let ls ← getStrs j "lines"
    pure (Json.mkObj [("tags", jPairs (collect strCfg ls))])
  | "emplace" => do
    let ls ← getStrs j "lines"
    let tags ← asPairs (← j.getObjVal? "tags")
    let r ← getBool j "replace"
    let out := emplaceAux strCfg tags r ls none
    let u := used strCfg tags ls
    pure (Json.mkObj [("lines", jStrs out), ("used", jStrs u),
                      ("lost", jPairs (lostEntries tags u))])
  | "path" => do
    let a ← getStr j "a"
    let b ← getStr j "b"
    pure (Json.mkObj [("join", jStr (Path.join a b)), ("normpath", jStr (Path.normpath a)),
                      ("abspath", jStr (Path.abspath b a)), ("dirname", jStr (Path.dirname a)),
                      ("basename", jStr (Path.basename a)), ("isabs", Json.bool (Path.isAbs a))])
  | "regen" => do
    let cwd ← getStr j "cwd"
    let outdir ← getStr j "outdir"
    let files ← asFiles (← j.getObjVal? "files")
    let fresh ← asPairs (← j.getObjVal? "fresh")
    let w : World := { cwd := cwd, files := files }
    let cm := preservePass w outdir fresh
    let (w', ret) := createOutput w outdir cm
    pure (Json.mkObj [("files", jFiles w'.files), ("ret", jStrs ret), ("cm", jPairs cm)])
  | "filesync" => do
    let cwd ← getStr j "cwd"
    let files ← asFiles (← j.getObjVal? "files")
    let a ← getStr j "from"
    let b ← getStr j "to"
    let w : World := { cwd := cwd, files := files }
    pure (Json.mkObj [("files", jFiles (fileSyncWorld w a b).files)])
  | "wf" => do
    let ls ← getStrs j "lines"
    let (parses, items, nodup) :=
      match parseDoc ls with
      | some F => (true, F.all Item.freshOKB, decide (blockKeys strCfg F).Nodup)
      | none => (false, false, false)
    pure (Json.mkObj [("fresh", Json.bool (wfFresh ls)), ("disk", Json.bool (wfDisk ls)),
                      ("parses", Json.bool parses), ("items", Json.bool items), ("nodup", Json.bool nodup),
                      ("gentag", Json.bool (ls.any hasGenTagFrom))])
  | "script" => do
    let outdir ← getStr j "outdir"
    let cm ← asPairs (← j.getObjVal? "cm")
    let ops := script outdir cm
    let enc : Op → Json
      | .mkdirs d => Json.arr #[Json.str "mkdirs", jStr d]
      | .openTmp t => Json.arr #[Json.str "open", jStr t]
      | .write t s => Json.arr #[Json.str "write", jStr t, jStr s]
      | .close t => Json.arr #[Json.str "close", jStr t]
      | .copymode p t => Json.arr #[Json.str "copymode", jStr p, jStr t]
      | .replace t p => Json.arr #[Json.str "replace", jStr t, jStr p]
    pure (Json.mkObj [("ops", Json.arr (ops.map enc).toArray)])
  | "conn" => do
    let p0 ← (← j.getObjVal? "p0").getNat?
    let p1 ← (← j.getObjVal? "p1").getNat?
    let raw ← getBool j "raw"
    let chunks ← (← j.getObjVal? "chunks").getArr?
    let cs ← chunks.toList.mapM (fun x => do pure (unhex (← x.getStr?)))
    if raw then
      pure (Json.mkObj [("raw", Json.arr ((Conn.feedRaw cs).map (fun b => Json.str (toHex b))).toArray)])
    else
      let r := Conn.feedAll ⟨p0, p1⟩ Conn.St.init cs
      pure (Json.mkObj [("msgs", Json.arr (r.2.map (fun b => Json.str (toHex b))).toArray),
                        ("buf", Json.str (toHex r.1.buf)), ("req", Json.num r.1.req)])
  | "layout" => do
    let fs ← parseFlds (← j.getObjVal? "fields")
    let base ← (← j.getObjVal? "base").getNat?
    pure (Json.mkObj [("size", Json.num (base + Wire.sizeList fs)),
                      ("offsets", Json.arr ((Wire.offsets fs base).map (fun (n : Nat) => Json.num (JsonNumber.fromNat n))).toArray)])
  | "factory" => do
    let fs ← parseFlds (← j.getObjVal? "fields")
    let pre ← (← j.getObjVal? "preamble").getNat?
    let tid ← (← j.getObjVal? "typeId").getNat?
    let args ← (← j.getObjVal? "args").getArr?
    let al ← args.toList.mapM (fun x => do pure (unhex (← x.getStr?)))
    let m : Wire.Msg := ⟨pre, tid, fs⟩
    pure (Json.mkObj [("default", Json.str (toHex m.factoryDefault)), ("with", Json.str (toHex (m.factoryWith al))),
                      ("size", Json.num m.size)])
  | "transmit" => do
    let acc ← (← j.getObjVal? "accepts").getArr?
    let al ← acc.toList.mapM (fun x => x.getBool?)
    let retries ← (← j.getObjVal? "retries").getInt?
    let r := Dispatch.transmit (fun k => al.getD k true) retries
    pure (Json.mkObj [("ok", Json.bool r.1), ("calls", Json.num r.2)])
  | "dispatch" => do
    let ids ← (← j.getObjVal? "ids").getArr?
    let il ← ids.toList.mapM (fun x => x.getNat?)
    let msgs ← (← j.getObjVal? "msgs").getArr?
    let ml ← msgs.toList.mapM (fun x => do pure (unhex (← x.getStr?)))
    let enc : Dispatch.Target → Json
      | .handler i => Json.num (JsonNumber.fromNat i)
      | .notHandled => Json.num (JsonNumber.fromInt (-1))
    pure (Json.mkObj [("targets", Json.arr (ml.map (fun m => enc (Dispatch.dispatch il m))).toArray)])
  | "emitpy" => do
    let t ← parseRows (← j.getObjVal? "tt")
    let p := EmitPy.emit t
    let jStmt : EmitPy.Stmt → Json
      | .call cb => jCb cb
      | .assign s => Json.arr #[Json.str "assign", jStr s]
      | .ret => Json.arr #[Json.str "return"]
    let jBlock (b : EmitPy.Block) : Json := Json.mkObj [("guard", jOpt b.guard), ("body", Json.arr (b.body.map jStmt).toArray)]
    let jEv (e : EmitPy.EvBlock) : Json := Json.mkObj [("ev", jStr e.ev), ("blocks", Json.arr (e.blocks.map jBlock).toArray)]
    let jFn (f : EmitPy.StateFn) : Json := Json.mkObj [("state", jStr f.state), ("evs", Json.arr (f.evs.map jEv).toArray)]
    let lines := (p.fns.map EmitPy.fnLines).flatten
    pure (Json.mkObj [("fns", Json.arr (p.fns.map jFn).toArray), ("init", jOpt p.init),
                      ("indent_ok", Json.bool (p.fns.all (fun f => EmitPy.indentOK [4, 0] false (EmitPy.fnLines f)))),
                      ("nlines", Json.num (JsonNumber.fromNat lines.length)),
                      ("context", Json.arr ((EmitCs.context t).map (fun d => match d with
                          | .guard g => Json.arr #[Json.str "guard", jStr g]
                          | .action a e => Json.arr #[Json.str "action", jStr a, jStr e]
                          | .entry st => Json.arr #[Json.str "entry", jStr st]
                          | .exit st => Json.arr #[Json.str "exit", jStr st])).toArray),
                      ("classes", jStrs (EmitCs.classes t)),
                      ("states", jStrs (Table.states t)), ("events", jStrs (Table.events t)),
                      ("actions", jStrs (Table.actions t)), ("guards", jStrs (Table.guards t)),
                      ("sigs", Json.arr ((Table.actionSigs t).map (fun p => Json.arr #[jStr p.1, jStr p.2])).toArray)])
  | "emitsml" => do
    let t ← parseRows (← j.getObjVal? "tt")
    let enc : EmitSml.SmlRow → Json
      | .trans i s e g a n => Json.arr #[Json.str "trans", Json.bool i, jStr s, jStr e, jStr g, jStr a, jOpt n]
      | .entry s => Json.arr #[Json.str "entry", jStr s]
      | .exit s => Json.arr #[Json.str "exit", jStr s]
    pure (Json.mkObj [("rows", Json.arr ((EmitSml.rows t).map enc).toArray),
                      ("states", jStrs (Table.states t)), ("events", jStrs (Table.events t)),
                      ("actions", jStrs (Table.actions t)), ("guards", jStrs (Table.guards t)),
                      ("sigs", Json.arr ((Table.actionSigs t).map (fun p => Json.arr #[jStr p.1, jStr p.2])).toArray)])
  | "pyqueue" => do
    let totals ← (← j.getObjVal? "totals").getArr?
    let tl ← totals.toList.mapM (fun x => x.getNat?)
    let cbTotal ← (← j.getObjVal? "cbTotal").getNat?
    let labs ← (← j.getObjVal? "labels").getArr?
    let parseLabel (x : Json) : Except String PyQueue.Label := do
      let a ← x.getArr?
      match a.toList with
      | [k] => do
        match (← k.getStr?) with
        | "wGet" => pure .wGet
        | "wCb" => pure .wCb
        | "wEnd" => pure .wEnd
        | "stopCall" => pure .stopCall
        | "stopJoin" => pure .stopJoin
        | o => throw s!"label {o}"
      | [k, p] => do
        let n ← p.getNat?
        match (← k.getStr?) with
        | "trig" => pure (.trig n)
        | "syncBegin" => pure (.syncBegin n)
        | "syncEnd" => pure (.syncEnd n)
        | o => throw s!"label {o}"
      | _ => throw "label"
    let ls ← labs.toList.mapM parseLabel
    let rec go (s : PyQueue.St) (ls : List PyQueue.Label) (i : Nat) : PyQueue.St × Option Nat :=
      match ls with
      | [] => (s, none)
      | l :: rest => match PyQueue.step s l with
        | some s' => go s' rest (i + 1)
        | none => (s, some i)
    let r := go (PyQueue.init (fun p => tl.getD p 0) cbTotal) ls 0
    let jSrc : PyQueue.Src → Json
      | some p => Json.num (JsonNumber.fromNat p)
      | none => Json.str "cb"
    pure (Json.mkObj [("failed_at", match r.2 with | some i => Json.num (JsonNumber.fromNat i) | none => Json.null),
                      ("begun", Json.arr (r.1.begun.map (fun e => Json.arr #[jSrc e.1, Json.num (JsonNumber.fromNat e.2)])).toArray),
                      ("alive", Json.bool r.1.alive), ("queue_len", Json.num (JsonNumber.fromNat r.1.queue.length)),
                      ("stopper", Json.str (match r.1.stopper with | .notCalled => "notCalled" | .joining => "joining" | .returned => "returned"))])
  | "conc" => do
    let totals ← (← j.getObjVal? "totals").getArr?
    let tl ← totals.toList.mapM (fun x => x.getNat?)
    let nw ← (← j.getObjVal? "nworkers").getNat?
    let labs ← (← j.getObjVal? "labels").getArr?
    -- a label is one model step; "wRun w" = worker w takes its enabled steps until none is left
    let parseLabel (x : Json) : Except String (Sum Conc.Label Nat) := do
      let a ← x.getArr?
      match a.toList with
      | [k] => do
        match (← k.getStr?) with
        | "dSet" => pure (.inl .dSet)
        | "dWake" => pure (.inl .dWake)
        | "dJoin" => pure (.inl .dJoin)
        | "dDestroyDerived" => pure (.inl .dDestroyDerived)
        | o => throw s!"label {o}"
      | [k, p] => do
        let n ← p.getNat?
        match (← k.getStr?) with
        | "push" => pure (.inl (.push n))
        | "wCheck" => pure (.inl (.wCheck n))
        | "wPop" => pure (.inl (.wPop n))
        | "wTest" => pure (.inl (.wTest n))
        | "wEnd" => pure (.inl (.wEnd n))
        | "wRun" => pure (.inr n)
        | o => throw s!"label {o}"
      | _ => throw "label"
    let ls ← labs.toList.mapM parseLabel
    let sf := Generated.dispatcherStopFirst
    let wAny (s : Conc.St) (w : Nat) : Option Conc.St :=
      (Conc.step sf s (.wCheck w)).orElse fun _ => (Conc.step sf s (.wPop w)).orElse fun _ =>
      (Conc.step sf s (.wTest w)).orElse fun _ => Conc.step sf s (.wEnd w)
    let rec wRun (s : Conc.St) (w : Nat) (fuel : Nat) : Conc.St :=
      match fuel with
      | 0 => s
      | fuel + 1 => match wAny s w with
        | some s' => wRun s' w fuel
        | none => s
    let rec goC (s : Conc.St) (ls : List (Sum Conc.Label Nat)) (i : Nat) : Conc.St × Option Nat :=
      match ls with
      | [] => (s, none)
      | .inl l :: rest => match Conc.step sf s l with
        | some s' => goC s' rest (i + 1)
        | none => (s, some i)
      | .inr w :: rest => goC (wRun s w (4 * s.queue.length + 8)) rest (i + 1)
    let r := goC (Conc.init (fun p => tl.getD p 0) nw) ls 0
    let jItem (e : Conc.Item) : Json := Json.arr #[Json.num (JsonNumber.fromNat e.1), Json.num (JsonNumber.fromNat e.2)]
    let allExited := (List.range nw).all (fun w => r.1.workers w == .exited)
    pure (Json.mkObj [("failed_at", match r.2 with | some i => Json.num (JsonNumber.fromNat i) | none => Json.null),
                      ("begun", Json.arr (r.1.begun.map jItem).toArray),
                      ("dropped", Json.arr (r.1.dropped.map jItem).toArray),
                      ("queue", Json.arr (r.1.queue.map jItem).toArray),
                      ("all_exited", Json.bool allExited), ("derived_alive", Json.bool r.1.derivedAlive),
                      ("stop_first", Json.bool sf),
                      ("destroyer", Json.str (match r.1.destroyer with | .alive => "alive" | .flagSet => "flagSet" | .woken => "woken" | .joined => "joined" | .destroyed => "destroyed"))])
  | "runref" => do
    let t ← parseRows (← j.getObjVal? "tt")
    let silent ← getBool j "silent"
    let evs ← (← j.getObjVal? "events").getArr?
    let start ← getStr j "start"
    let mut cur := start
    let mut out : Array Json := #[]
    for ev in evs.toList do
      let pr ← ev.getArr?
      match pr.toList with
      | [e, trueGuards] => do
        let tg ← asStrs trueGuards
        let es ← asStr e
        let r := if silent then Table.stepRefSilent t cur es (fun g => tg.contains g)
                 else Table.stepRef t cur es (fun g => tg.contains g)
        let rp := EmitPy.process (EmitPy.emit t) cur es (fun g => tg.contains g)
        out := out.push (Json.mkObj [("state", jStr r.1), ("trace", Json.arr (r.2.map jCb).toArray),
                                     ("emit_agrees", Json.bool (silent || (rp.1 == r.1 && rp.2 == r.2)))])
        cur := r.1
      | _ => throw "event: [name, [true guards]]"
    pure (Json.mkObj [("steps", Json.arr out)])
  | "split" => do
    let s ← getStr j "s"
    pure (Json.mkObj [("lines", jStrs (splitLines s))])
  | _ => throw s!"unknown cmd {cmd}"

partial def loop (h : IO.FS.Stream) (out : IO.FS.Stream) : IO Unit := do
  let line ← h.getLine
  if line.isEmpty then return ()
  let res : Json :=
    match Json.parse line with
    | .error e => Json.mkObj [("error", Json.str s!"parse: {e}")]
    | .ok j =>
      match handle j with
      | .error e => Json.mkObj [("error", Json.str e)]
      | .ok r => r
  out.putStrLn res.compress
  loop h out

end Driver

def main : IO Unit := do
  let out ← IO.getStdout
  Driver.loop (← IO.getStdin) out
  out.flush
