import KojenVerif.Basic.Str
/-
  POSIX `os.path` functions used by the generators (`posixpath.py`), over `Str`.
-/
namespace KojenVerif
namespace Path
open Str

def SEP : Nat := 47

def isAbs : Str → Bool
  | c :: _ => c == SEP
  | [] => false

def endsWithSep (a : Str) : Bool :=
  match a.getLast? with
  | some c => c == SEP
  | none => false

/-- `posixpath.join(a, b)` -/
def join (a b : Str) : Str :=
  if isAbs b then b
  else if a.isEmpty || endsWithSep a then a ++ b
  else a ++ SEP :: b

/-- index one past the last `/`, i.e. `p.rfind('/') + 1` -/
def lastSepEnd : Str → Nat → Nat → Nat
  | [], _, best => best
  | c :: cs, i, best => lastSepEnd cs (i + 1) (if c == SEP then i + 1 else best)

/-- strip trailing slashes unless the string consists of slashes only (`posixpath.dirname`) -/
def rstripSep (h : Str) : Str :=
  if h.all (· == SEP) then h else (h.reverse.dropWhile (· == SEP)).reverse

def dirname (p : Str) : Str :=
  let i := lastSepEnd p 0 0
  rstripSep (p.take i)

def basename (p : Str) : Str :=
  p.drop (lastSepEnd p 0 0)

def splitOn (sep : Nat) : Str → List Str
  | [] => [[]]
  | c :: cs =>
    match splitOn sep cs with
    | [] => [[]]  -- unreachable
    | w :: ws => if c == sep then [] :: w :: ws else (c :: w) :: ws

def intercalate (sep : Nat) : List Str → Str
  | [] => []
  | [w] => w
  | w :: ws => w ++ sep :: intercalate sep ws

/-- fold of `posixpath.normpath` over the components -/
def normComps (abs : Bool) : List Str → List Str → List Str
  | [], acc => acc.reverse
  | w :: ws, acc =>
    if w.isEmpty || w == [46] then normComps abs ws acc
    else if w == [46, 46] then
      match acc with
      | [] => if abs then normComps abs ws acc else normComps abs ws (w :: acc)
      | a :: acc' => if a == [46, 46] then normComps abs ws (w :: acc) else normComps abs ws acc'
    else normComps abs ws (w :: acc)

/-- number of leading slashes `normpath` keeps: POSIX allows exactly two to be special -/
def initialSlashes (p : Str) : Nat :=
  if !isAbs p then 0
  else if isPrefixB [SEP, SEP] p && !isPrefixB [SEP, SEP, SEP] p then 2 else 1

/-- `posixpath.normpath` -/
def normpath (p : Str) : Str :=
  if p.isEmpty then [46] else
  let n := initialSlashes p
  let comps := normComps (n > 0) (splitOn SEP p) []
  let body := intercalate SEP comps
  let res := List.replicate n SEP ++ body
  if res.isEmpty then [46] else res

/-- `posixpath.abspath` with the working directory as a parameter -/
def abspath (cwd p : Str) : Str :=
  normpath (if isAbs p then p else join cwd p)

end Path
end KojenVerif
