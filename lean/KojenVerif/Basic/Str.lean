/-
  Strings as lists of Unicode code points (`Nat`), with the Python `str` operations the
  kojen sources use, written as structural recursions so that both the kernel
  (`decide +kernel`) and induction can work with them.  No Mathlib, no `String`/`Char`.
-/
namespace KojenVerif

abbrev Str := List Nat

namespace Str

/-- `isPrefixB p s` : `s.startswith(p)` -/
def isPrefixB : Str → Str → Bool
  | [], _ => true
  | _ :: _, [] => false
  | a :: as, b :: bs => a == b && isPrefixB as bs

/-- Python `pat in s` (including `"" in s == True`). -/
def contains (pat : Str) : Str → Bool
  | [] => pat.isEmpty
  | c :: cs => isPrefixB pat (c :: cs) || contains pat cs

/-- Python `s.find(pat)`; `none` for -1. -/
def find (pat : Str) : Str → Option Nat
  | [] => if pat.isEmpty then some 0 else none
  | c :: cs =>
    if isPrefixB pat (c :: cs) then some 0
    else match find pat cs with
      | some i => some (i + 1)
      | none => none

/-- Python `s.replace(pat, rep)` for non-empty `pat` (left-most, non-overlapping).
    `skip` counts characters of a just-matched occurrence still to be dropped. -/
def replaceAux (pat rep : Str) : Nat → Str → Str
  | _, [] => []
  | k + 1, _ :: cs => replaceAux pat rep k cs
  | 0, c :: cs =>
    if isPrefixB pat (c :: cs) then rep ++ replaceAux pat rep (pat.length - 1) cs
    else c :: replaceAux pat rep 0 cs

/-- Python `s.replace(pat, rep)`; for the empty pattern Python inserts `rep` around every
    character — the sources never do that, the model returns `s` unchanged there and the
    correspondence never feeds an empty pattern. -/
def replaceAll (pat rep s : Str) : Str :=
  if pat.isEmpty then s else replaceAux pat rep 0 s

def TAB : Nat := 9
def NL : Nat := 10
def SP : Nat := 32

/-- the last filter of `createoutput`: `line.replace('\t', "    ")` -/
def expandTabs : Str → Str
  | [] => []
  | c :: cs => if c == TAB then SP :: SP :: SP :: SP :: expandTabs cs else c :: expandTabs cs

/-- Apply a chain of `.replace(a, b)` calls in source order. -/
def applyChain (chain : List (Str × Str)) (s : Str) : Str :=
  chain.foldl (fun acc pr => replaceAll pr.1 pr.2 acc) s

def ofString (s : String) : Str := s.toList.map Char.toNat
def toString (s : Str) : String := String.ofList (s.map Char.ofNat)

/-- ASCII lower-casing of one code point -/
def lowerC (c : Nat) : Nat := if 65 ≤ c ∧ c ≤ 90 then c + 32 else c
def upperC (c : Nat) : Nat := if 97 ≤ c ∧ c ≤ 122 then c - 32 else c
def lower (s : Str) : Str := s.map lowerC
def upper (s : Str) : Str := s.map upperC

/-- `cgen.camel_case_small` on ASCII -/
def camelSmall : Str → Str
  | [] => []
  | c :: cs => lowerC c :: cs

/-- Python `str.endswith` -/
def isSuffixB (suf s : Str) : Bool := isPrefixB suf.reverse s.reverse

end Str
end KojenVerif
