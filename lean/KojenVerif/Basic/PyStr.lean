import KojenVerif.Basic.Str
/-
  More of Python's `str` / `re` as used by the template engine (`cgen.py`, `smgen.py`),
  over code-point lists.  Structural recursions or explicit fuel; no `String`.
  Domain notes are at each definition: where Python consults Unicode tables (`isspace`,
  `lower`, `isnumeric`) the ASCII behaviour plus the Unicode white-space set is modelled.
-/
namespace KojenVerif
namespace Str

def LTc : Nat := 60   -- lt
def GTc : Nat := 62   -- gt
def US : Nat := 95   -- '_'
def LLL : Str := [60, 60, 60]
def GGG : Str := [62, 62, 62]

/-- `str.replace(pat, rep)` including Python's behaviour for the empty pattern
    (`rep` before every character and at the end) -/
def pyReplace (pat rep s : Str) : Str :=
  if pat.isEmpty then s.foldr (fun c acc => rep ++ c :: acc) rep else replaceAux pat rep 0 s

/-- `s.find(pat, start)` (absolute index) -/
def findFrom (pat s : Str) (start : Nat) : Option Nat :=
  (find pat (s.drop start)).map (· + start)

/-- `s.rfind(pat)` -/
def rfindAux (pat : Str) : Str → Nat → Option Nat → Option Nat
  | [], i, best => if pat.isEmpty then some i else best
  | c :: cs, i, best => rfindAux pat cs (i + 1) (if isPrefixB pat (c :: cs) then some i else best)

def rfind (pat s : Str) : Option Nat := rfindAux pat s 0 none

/-- Python slice `s[a:b]` for non-negative indices -/
def slice (s : Str) (a b : Nat) : Str := (s.drop a).take (b - a)

/-- `s.split(sep, 1)` for non-empty `sep`: `(before, some after)` or `(s, none)` -/
def splitOnce (sep s : Str) : Str × Option Str :=
  match find sep s with
  | some i => (s.take i, some (s.drop (i + sep.length)))
  | none => (s, none)

/-- `s.split(sep)` for non-empty `sep` -/
def splitAllAux (sep : Str) : Nat → Str → Str → List Str
  | _, [], cur => [cur.reverse]
  | k + 1, _ :: cs, cur => splitAllAux sep k cs cur
  | 0, c :: cs, cur =>
    if isPrefixB sep (c :: cs) then cur.reverse :: splitAllAux sep (sep.length - 1) cs []
    else splitAllAux sep 0 cs (c :: cur)

def splitAll (sep s : Str) : List Str := if sep.isEmpty then [s] else splitAllAux sep 0 s []

/-- `str.isspace` per character (Unicode white space as CPython classifies it) -/
def isWs (c : Nat) : Bool :=
  (9 ≤ c && c ≤ 13) || (28 ≤ c && c ≤ 32) || c == 133 || c == 160 || c == 5760 ||
  (8192 ≤ c && c ≤ 8202) || c == 8232 || c == 8233 || c == 8239 || c == 8287 || c == 12288

def isSpace (s : Str) : Bool := !s.isEmpty && s.all isWs

def lstripBy (p : Nat → Bool) : Str → Str
  | [] => []
  | c :: cs => if p c then lstripBy p cs else c :: cs

def rstripBy (p : Nat → Bool) (s : Str) : Str := (lstripBy p s.reverse).reverse
def stripBy (p : Nat → Bool) (s : Str) : Str := rstripBy p (lstripBy p s)

def lstrip (s : Str) : Str := lstripBy isWs s
def rstrip (s : Str) : Str := rstripBy isWs s
def strip (s : Str) : Str := stripBy isWs s
/-- `s.strip(chars)` / `lstrip(chars)` / `rstrip(chars)` -/
def stripChars (chars s : Str) : Str := stripBy (fun c => List.elem c chars) s
def lstripChars (chars s : Str) : Str := lstripBy (fun c => List.elem c chars) s
def rstripChars (chars s : Str) : Str := rstripBy (fun c => List.elem c chars) s

/-- `s.count(pat)` (non-overlapping) for non-empty `pat` -/
def countAux (pat : Str) : Nat → Str → Nat
  | _, [] => 0
  | k + 1, _ :: cs => countAux pat k cs
  | 0, c :: cs => if isPrefixB pat (c :: cs) then 1 + countAux pat (pat.length - 1) cs else countAux pat 0 cs

def count (pat s : Str) : Nat := if pat.isEmpty then s.length + 1 else countAux pat 0 s

/-- `str(n)` for a natural number -/
def natToStrAux : Nat → Nat → Str → Str
  | 0, _, acc => acc
  | fuel + 1, n, acc =>
    let acc' := (48 + n % 10) :: acc
    if n / 10 = 0 then acc' else natToStrAux fuel (n / 10) acc'

def natToStr (n : Nat) : Str := natToStrAux (n + 1) n []

def isDigit (c : Nat) : Bool := 48 ≤ c && c ≤ 57
/-- `s.isnumeric()` on the ASCII domain -/
def isNumeric (s : Str) : Bool := !s.isEmpty && s.all isDigit
/-- `int(s)` for a string of ASCII digits -/
def toNat (s : Str) : Nat := s.foldl (fun acc c => acc * 10 + (c - 48)) 0

def isLowerC (c : Nat) : Bool := 97 ≤ c && c ≤ 122
def isUpperC (c : Nat) : Bool := 65 ≤ c && c ≤ 90

/-- `re.sub(r'[-.]+', '_', a)`: one `_` per maximal run (emitted at the run's last character) -/
def isDashDot (c : Nat) : Bool := c == 45 || c == 46

def subDashDot : Str → Str
  | [] => []
  | [c] => if isDashDot c then [US] else [c]
  | c :: d :: cs =>
    if isDashDot c then (if isDashDot d then subDashDot (d :: cs) else US :: subDashDot (d :: cs))
    else c :: subDashDot (d :: cs)

/-- `re.sub(r'(?<=[a-z])(?=[A-Z])', '_', s)` -/
def insertCaseBreaks : Str → Str
  | [] => []
  | [c] => [c]
  | c :: d :: cs => if isLowerC c && isUpperC d then c :: US :: insertCaseBreaks (d :: cs) else c :: insertCaseBreaks (d :: cs)

/-- `re.sub(r'__+', '_', s)` -/
def collapseUnderscores : Str → Str
  | [] => []
  | [c] => [c]
  | c :: d :: cs => if c == US && d == US then collapseUnderscores (d :: cs) else c :: collapseUnderscores (d :: cs)

/-- `cgen.snake_case` -/
def snakeCase (a : Str) : Str :=
  let s := subDashDot a
  let s := pyReplace [SP] [US] s
  let s := insertCaseBreaks s
  let s := lower s
  let s := stripChars [US] s
  collapseUnderscores s

/-- the fix-up `re.sub("\([^)]*\)", f, line)` where `f` applies a chain of replacements
    to every parenthesised group (left-most, non-overlapping, `[^)]*` spans newlines) -/
def subParensAux (f : Str → Str) : Nat → Str → Str
  | 0, s => s
  | fuel + 1, s =>
    match find [40] s with
    | none => s
    | some i =>
      let rest := s.drop i
      match find [41] rest with
      | none => s
      | some j => s.take i ++ f (rest.take (j + 1)) ++ subParensAux f fuel (rest.drop (j + 1))

def subParens (f : Str → Str) (s : Str) : Str := subParensAux f (s.length + 1) s

end Str
end KojenVerif
