import KojenVerif.Model.Pipeline
/-
  The output stage as an I/O script (cgen.createoutput + cgen.writeFileAtomically after
  fix e585c69), at the granularity of system-level operations, so that *every* operation
  index can be taken as a crash point.
-/
namespace KojenVerif
open Str

inductive Op where
  | mkdirs (d : Str)
  | openTmp (t : Str)            -- open(t, 'w'): create or truncate
  | write (t : Str) (s : Str)    -- writer.write(line): appended (through a buffer)
  | close (t : Str)
  | copymode (p t : Str)         -- only when p exists; contents unaffected
  | replace (t p : Str)          -- os.replace(t, p): atomic rename
  deriving DecidableEq, Repr

abbrev FS := ODict Str

def FS.erase : FS → Str → FS
  | [], _ => []
  | (k, v) :: t, p => if k = p then FS.erase t p else (k, v) :: FS.erase t p

def Op.exec (fs : FS) : Op → FS
  | .mkdirs _ => fs
  | .openTmp t => ODict.set fs t []
  | .write t s => ODict.set fs t ((ODict.get? fs t).getD [] ++ s)
  | .close _ => fs
  | .copymode _ _ => fs
  | .replace t p =>
    match ODict.get? fs t with
    | some c => FS.erase (ODict.set fs p c) t
    | none => fs

def execOps (ops : List Op) (fs : FS) : FS := ops.foldl Op.exec fs

def tmpSuffix : Str := ofString ".kojen-tmp"

/-- operations for one code-model entry; `p` = target path -/
def entryOps (p : Str) (lines : List Str) : List Op :=
  let t := p ++ tmpSuffix
  [Op.mkdirs (Path.dirname p), Op.openTmp t] ++ (lines.map (fun l => Op.write t (expandTabs l)))
    ++ [Op.close t, Op.copymode p t, Op.replace t p]

/-- the whole output stage for a code model (keys joined onto the output directory) -/
def script (outdir : Str) (cm : CodeModel) : List Op :=
  (cm.map (fun kv => entryOps (Path.join outdir kv.1) kv.2)).flatten

/-- process death at operation index `k`: the first `k` operations happened; of the data
    handed to the still-open temporary file only an arbitrary prefix (`cut` characters) may
    have reached the disk -/
def crashAt (ops : List Op) (k cut : Nat) (fs : FS) : FS :=
  let fs' := execOps (ops.take k) fs
  match (ops.take k).getLast? with
  | some (.write t _) => ODict.set fs' t (((ODict.get? fs' t).getD []).take cut)
  | _ => fs'

/-- a raised error at operation `k` inside `writeFileAtomically`: the handler removes the
    temporary file of the entry being written, then the exception propagates -/
def errorAt (ops : List Op) (k : Nat) (fs : FS) : FS :=
  let fs' := execOps (ops.take k) fs
  match ops[k]? with
  | some (.write t _) => FS.erase fs' t
  | some (.close t) => FS.erase fs' t
  | some (.copymode _ t) => FS.erase fs' t
  | some (.replace t _) => FS.erase fs' t
  | some (.openTmp t) => FS.erase fs' t
  | _ => fs'

end KojenVerif
