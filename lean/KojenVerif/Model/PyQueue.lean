/-
  Interleaving model of the threaded Python state machine
  (`statemachine_templates_py/TEMPLATEStateMachine.py` after fix 8102b3d): producers calling
  `Trigger*` (`dispatch`), the worker thread (`run`), a thread calling `stop()`, and events
  triggered from callbacks on the worker thread.  Granularity: every region under
  `self.__lock`, every queue operation and `join` is one atomic step; blocking operations are
  steps that are enabled only when they can proceed.  A state is reachable iff some finite
  sequence of labels leads to it: "for all interleavings" = "for all label sequences".
-/
namespace KojenVerif
namespace PyQueue

/-- who triggered an event: producer thread `some p`, or a callback on the worker (`none`) -/
abbrev Src := Option Nat
/-- events are identified by their source and their index in that source's trigger order -/
abbrev Ev := Src × Nat

inductive Phase where
  | idle                 -- between two Trigger calls (or finished)
  | waitWorker (i : Nat) -- decided "synchronously" (flag was false): waiting for the stopping worker / the lock
  | syncProc (i : Nat)   -- inside `with self.__lock: self.process(event)`
  deriving DecidableEq, Repr

structure Prod where
  next : Nat             -- index of the next event this thread will trigger
  total : Nat            -- how many it will trigger altogether
  phase : Phase
  deriving DecidableEq, Repr

inductive Stopper where
  | notCalled
  | joining              -- flag cleared, marker queued, blocked in self.join()
  | returned
  deriving DecidableEq, Repr

structure St where
  flag : Bool                    -- __runThreaded
  queue : List (Option Ev)       -- __fifoQueue; `none` is the stop marker
  alive : Bool                   -- worker thread has not left run()
  cur : Option Ev                -- event the worker is processing
  syncOwner : Option Nat         -- producer holding the lock across a synchronous process()
  prods : Nat → Prod
  cbNext : Nat                   -- callbacks on the worker have triggered this many events
  cbTotal : Nat
  stopper : Stopper
  begun : List Ev                -- order in which process(event) calls began (any thread)


inductive Label where
  | trig (p : Nat)       -- producer p: the locked region of dispatch()
  | syncBegin (p : Nat)  -- producer p: worker gone, lock taken, process() begins
  | syncEnd (p : Nat)
  | wGet                 -- worker: queue.get() returns
  | wCb                  -- a callback on the worker triggers an event
  | wEnd                 -- worker: process() returns
  | stopCall             -- the locked region of stop()
  | stopJoin             -- self.join() in stop() returns
  deriving DecidableEq, Repr

def setProd (f : Nat → Prod) (p : Nat) (v : Prod) : Nat → Prod := fun q => if q = p then v else f q

/-- one atomic step; `none` when the label is not enabled in the state -/
def step (s : St) : Label → Option St
  | .trig p =>
    let pr := s.prods p
    if pr.phase = .idle ∧ pr.next < pr.total ∧ s.syncOwner = none then
      if s.flag then
        some { s with queue := s.queue ++ [some (some p, pr.next)],
                      prods := setProd s.prods p { pr with next := pr.next + 1 } }
      else
        some { s with prods := setProd s.prods p { pr with next := pr.next + 1, phase := .waitWorker pr.next } }
    else none
  | .syncBegin p =>
    let pr := s.prods p
    match pr.phase with
    | .waitWorker i =>
      if s.alive = false ∧ s.syncOwner = none then
        some { s with syncOwner := some p, prods := setProd s.prods p { pr with phase := .syncProc i },
                      begun := s.begun ++ [(some p, i)] }
      else none
    | _ => none
  | .syncEnd p =>
    let pr := s.prods p
    match pr.phase with
    | .syncProc _ =>
      if s.syncOwner = some p then
        some { s with syncOwner := none, prods := setProd s.prods p { pr with phase := .idle } }
      else none
    | _ => none
  | .wGet =>
    if s.alive ∧ s.cur = none then
      match s.queue with
      | [] => none                                   -- blocked in get()
      | some e :: rest => some { s with queue := rest, cur := some e, begun := s.begun ++ [e] }
      | none :: [] => some { s with queue := [], alive := false }
      | none :: rest => some { s with queue := rest ++ [none] }
    else none
  | .wCb =>
    if s.alive ∧ s.cur ≠ none ∧ s.cbNext < s.cbTotal ∧ s.syncOwner = none then
      some { s with queue := s.queue ++ [some (none, s.cbNext)], cbNext := s.cbNext + 1 }
    else none
  | .wEnd =>
    if s.alive ∧ s.cur ≠ none then some { s with cur := none } else none
  | .stopCall =>
    if s.stopper = .notCalled ∧ s.syncOwner = none then
      if s.flag then some { s with flag := false, queue := s.queue ++ [none], stopper := .joining }
      else some { s with stopper := .returned }
    else none
  | .stopJoin =>
    if s.stopper = .joining ∧ s.alive = false then some { s with stopper := .returned } else none

/-- initial state of a machine constructed in threaded mode with `n` producer scripts -/
def init (totals : Nat → Nat) (cbTotal : Nat) : St :=
  { flag := true, queue := [], alive := true, cur := none, syncOwner := none,
    prods := fun p => ⟨0, totals p, .idle⟩, cbNext := 0, cbTotal := cbTotal,
    stopper := .notCalled, begun := [] }

/-- run a label sequence; `none` as soon as a label is not enabled -/
def run : St → List Label → Option St
  | s, [] => some s
  | s, l :: ls => match step s l with
    | some s' => run s' ls
    | none => none

def Reachable (totals : Nat → Nat) (cbTotal : Nat) (s : St) : Prop :=
  ∃ ls, run (init totals cbTotal) ls = some s

end PyQueue
end KojenVerif
