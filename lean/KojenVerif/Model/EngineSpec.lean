import KojenVerif.Model.Engine
/-
  What C16 / C17 say the template engine does, as a reference expander over *parsed*
  templates (token level: a line is a list of literal and tag segments; blocks, IF and FOR
  are tree nodes).  This is the specification side: it never scans for `<<<`, never uses
  `str.replace`; it is related to the string-level engine (`Model/Engine`) by theorems and,
  every run, to the real generator's output files.

  Grammar restrictions (the domain on which `Engine` is claimed to equal this; each is a
  decidable predicate in `wf`):
  literals contain no '<' and no '>'; tag names and defaults contain neither; per-element
  blocks are not nested in one another; IF and FOR are not nested and stand outside
  per-element blocks; in a per-guard-transition line at most one tag carries an alternative
  text and it is the last tag of the line; a FOR body has at most one FIRST and one LAST line.
-/
namespace KojenVerif
namespace Spec
open Str

inductive Seg where
  | lit (s : Str)
  | tag (name : Str) (dflt : Option Str)
  deriving DecidableEq, Repr

abbrev SLine := List Seg

def Seg.render : Seg → Str
  | .lit s => s
  | .tag n none => LLL ++ n ++ GGG
  | .tag n (some d) => LLL ++ n ++ [61] ++ d ++ GGG

/-- a template line as the loader reads it -/
def renderLine (l : SLine) : Str := (l.map Seg.render).flatten ++ [NL]

/-- a line of a block / branch / loop body -/
inductive BItem where
  | line (l : SLine)
  | blank (text : Str)         -- white space only
  deriving DecidableEq, Repr

inductive Kind where
  | ps | pe | pa | pg | pasig | struct | protomsg | msg
  deriving DecidableEq, Repr

inductive PetItem where
  | b (i : BItem)
  | pgt (ws : Str) (body : List BItem)
  deriving Repr

inductive PstItem where
  | b (i : BItem)
  | pet (ws : Str) (body : List PetItem)
  deriving Repr

inductive ForParam where
  | list (raw : Str)                      -- "a, b ,c"
  | count (raw : Str)                     -- " 3 "
  | userTag (name : Str) (dflt : Option Str)
  deriving Repr

inductive Item where
  | b (i : BItem)
  | block (kind : Kind) (ws : Str) (body : List BItem)
  | pst (ws : Str) (body : List PstItem)
  | cond (ws : Str) (branches : List (Str × List BItem)) (els : Option (List BItem))
  | loop (ws : Str) (param : ForParam) (body : List BItem)
  deriving Repr

/-! ### rendering (what the template file contains) -/

def BItem.render : BItem → Str
  | .line l => renderLine l
  | .blank t => t ++ [NL]

def kw : Kind → Str
  | .ps => Engine.T "PER_STATE" | .pe => Engine.T "PER_EVENT" | .pa => Engine.T "PER_ACTION" | .pg => Engine.T "PER_GUARD"
  | .pasig => Engine.T "PER_ACTION_SIGNATURE" | .struct => Engine.T "PER_STRUCT"
  | .protomsg => Engine.T "PER_PROTOMSG" | .msg => Engine.T "PER_MSG"

def delim (ws body : Str) : Str := ws ++ LLL ++ body ++ GGG ++ [NL]

def PetItem.render : PetItem → List Str
  | .b i => [i.render]
  | .pgt ws body => [delim ws (Engine.T "PER_GUARDTRANSITION_BEGIN")] ++ body.map BItem.render ++ [delim ws (Engine.T "PER_GUARDTRANSITION_END")]

def PstItem.render : PstItem → List Str
  | .b i => [i.render]
  | .pet ws body => [delim ws (Engine.T "PER_EVENTTRANSITION_BEGIN")] ++ (body.map PetItem.render).flatten ++ [delim ws (Engine.T "PER_EVENTTRANSITION_END")]

def ForParam.render : ForParam → Str
  | .list raw => raw
  | .count raw => raw
  | .userTag n none => LLL ++ n ++ GGG
  | .userTag n (some d) => LLL ++ n ++ [61] ++ d ++ GGG

def renderBranches (ws : Str) : Bool → List (Str × List BItem) → List Str
  | _, [] => []
  | first, (t, body) :: rest =>
    [delim ws ((if first then Engine.T "IF " else Engine.T "ELSEIF ") ++ t)] ++ body.map BItem.render ++ renderBranches ws false rest

def Item.render : Item → List Str
  | .b i => [i.render]
  | .block k ws body => [delim ws (kw k ++ Engine.T "_BEGIN")] ++ body.map BItem.render ++ [delim ws (kw k ++ Engine.T "_END")]
  | .pst ws body => [delim ws (Engine.T "PER_STATETRANSITION_BEGIN")] ++ (body.map PstItem.render).flatten ++ [delim ws (Engine.T "PER_STATETRANSITION_END")]
  | .cond ws brs els =>
    renderBranches ws true brs ++
    (match els with | some e => [delim ws (Engine.T "ELSE")] ++ e.map BItem.render | none => []) ++
    [delim ws (Engine.T "ENDIF")]
  | .loop ws p body => [delim ws (Engine.T "FOR_BEGIN=" ++ p.render)] ++ body.map BItem.render ++ [delim ws (Engine.T "FOR_END")]

def renderFile (items : List Item) : List Str := (items.map Item.render).flatten

/-! ### substitution of tags -/

/-- replace every tag for which `f` has a value; the rest stays as written -/
def substLine (f : Str → Option Str → Option Str) (l : SLine) : SLine :=
  l.map (fun s => match s with
    | .lit t => .lit t
    | .tag n d => match f n d with
      | some v => .lit v
      | none => .tag n d)

def lookupS (d : List (Str × Str)) (k : Str) : Option Str := (d.find? (fun kv => kv.1 == k)).map (·.2)

/-- a dictionary of tag names (without brackets); tags with a default are not touched -/
def byDict (d : List (Str × Str)) : Str → Option Str → Option Str
  | n, none => lookupS d n
  | _, some _ => none

def BItem.subst (f : Str → Option Str → Option Str) : BItem → BItem
  | .line l => .line (substLine f l)
  | .blank t => .blank t

/-- does the line, as text, consist of spaces only (the blank-line filter's notion) -/
def isSpaces (s : Str) : Bool := s.all (· == SP)

def BItem.isBlankForFilter : BItem → Bool
  | .blank t => isSpaces t
  | .line l => l.all (fun s => match s with | .lit t => isSpaces t | .tag _ _ => false)

/-! ### load phase: global tags, blank-line collapse (template order; delimiters are not blank) -/

def stripBrackets (d : List (Str × Str)) : List (Str × Str) := d.map (fun kv => (Engine.cleanTag kv.1, kv.2))

/-- collapse over a body: `prev` = the previous template line was blank -/
def collapseBody : Bool → List BItem → List BItem × Bool
  | prev, [] => ([], prev)
  | prev, i :: is =>
    let bl := i.isBlankForFilter
    let r := collapseBody bl is
    if prev && bl then (r.1, r.2) else (i :: r.1, r.2)

def collapsePet : Bool → List PetItem → List PetItem × Bool
  | prev, [] => ([], prev)
  | prev, .b i :: is =>
    let bl := i.isBlankForFilter
    let r := collapsePet bl is
    if prev && bl then (r.1, r.2) else (.b i :: r.1, r.2)
  | _, .pgt ws body :: is =>
    let rb := collapseBody false body
    let r := collapsePet false is
    (.pgt ws rb.1 :: r.1, r.2)

def collapsePst : Bool → List PstItem → List PstItem × Bool
  | prev, [] => ([], prev)
  | prev, .b i :: is =>
    let bl := i.isBlankForFilter
    let r := collapsePst bl is
    if prev && bl then (r.1, r.2) else (.b i :: r.1, r.2)
  | _, .pet ws body :: is =>
    let rb := collapsePet false body
    let r := collapsePst false is
    (.pet ws rb.1 :: r.1, r.2)

def collapseBranches : List (Str × List BItem) → List (Str × List BItem)
  | [] => []
  | (t, body) :: rest => (t, (collapseBody false body).1) :: collapseBranches rest

def collapseItems : Bool → List Item → List Item
  | _, [] => []
  | prev, .b i :: is =>
    let bl := i.isBlankForFilter
    if prev && bl then collapseItems bl is else .b i :: collapseItems bl is
  | _, .block k ws body :: is => .block k ws (collapseBody false body).1 :: collapseItems false is
  | _, .pst ws body :: is => .pst ws (collapsePst false body).1 :: collapseItems false is
  | _, .cond ws brs els :: is =>
    .cond ws (collapseBranches brs) (els.map (fun e => (collapseBody false e).1)) :: collapseItems false is
  | _, .loop ws p body :: is => .loop ws p (collapseBody false body).1 :: collapseItems false is

def PetItem.subst (f : Str → Option Str → Option Str) : PetItem → PetItem
  | .b i => .b (i.subst f)
  | .pgt ws body => .pgt ws (body.map (BItem.subst f))

def PstItem.subst (f : Str → Option Str → Option Str) : PstItem → PstItem
  | .b i => .b (i.subst f)
  | .pet ws body => .pet ws (body.map (PetItem.subst f))

def Item.subst (f : Str → Option Str → Option Str) : Item → Item
  | .b i => .b (i.subst f)
  | .block k ws body => .block k ws (body.map (BItem.subst f))
  | .pst ws body => .pst ws (body.map (PstItem.subst f))
  | .cond ws brs els => .cond ws (brs.map (fun p => (p.1, p.2.map (BItem.subst f)))) (els.map (fun e => e.map (BItem.subst f)))
  | .loop ws p body => .loop ws p (body.map (BItem.subst f))

/-- load phase: global search-and-replace, then the blank-line filter -/
def load (globals : List (Str × Str)) (items : List Item) : List Item :=
  collapseItems false (items.map (Item.subst (byDict (stripBrackets globals))))

/-! ### per-element blocks -/

def nameTags (name : Str) : List (Str × Str) :=
  [ (Engine.T "stateName", camelSmall name), (Engine.T "STATENAME", name),
    (Engine.T "eventName", camelSmall name), (Engine.T "STATE_NAME", snakeCase name),
    (Engine.T "EVENTNAME", name), (Engine.T "EVENT_NAME", snakeCase name),
    (Engine.T "ACTIONNAME", name), (Engine.T "actionName", camelSmall name), (Engine.T "ACTION_NAME", snakeCase name),
    (Engine.T "GUARDNAME", name), (Engine.T "guardName", camelSmall name), (Engine.T "GUARD_NAME", snakeCase name) ]

def protoNameTags (name : Str) : List (Str × Str) :=
  [ (Engine.T "STRUCTNAME", name), (Engine.T "structName", camelSmall name), (Engine.T "MSGNAME", name),
    (Engine.T "msgName", camelSmall name), (Engine.T "PROTOMSGNAME", name), (Engine.T "protoMsgName", camelSmall name) ]

def counterTags (idx : Nat) : List (Str × Str) :=
  [ (Engine.T "ALPH", [Engine.alphaOf idx]), (Engine.T "NUM", natToStr idx) ]

/-- a line's text -/
def lineText (l : SLine) : Str := renderLine l

def bitemText : BItem → Str
  | .blank t => t ++ [NL]
  | .line l => lineText l

/-- the lines a body contributes for one element: white-space-only lines are dropped -/
def bodyFor (d : List (Str × Str)) (body : List BItem) : List BItem :=
  body.filterMap (fun i => match i with
    | .blank _ => none
    | .line l =>
      let l' := substLine (byDict d) l
      if isSpace (lineText l') then none else some (.line l'))

def sigEvent (e : Str) : Str :=
  if e.isEmpty || lower e == Engine.T "none" then Engine.T "NONE" else if lower e == Engine.T "any" then Engine.T "ANY" else e

def caseTags (base : String) (camel : String) (snake : String) (v : Str) : List (Str × Str) :=
  [ (Engine.T camel, camelSmall v), (Engine.T base, v), (Engine.T snake, snakeCase v) ]

structure Model where
  table : List Table.Row
  structNames : List Str
  protoNames : List Str
  msgNames : List Str

def Model.events (m : Model) : List Str := m.structNames.foldl Table.addUniq (Table.events m.table)

def elements (m : Model) : Kind → List Str
  | .ps => Table.states m.table
  | .pe => m.events
  | .pa => Table.actions m.table
  | .pg => Table.guards m.table
  | .pasig => []
  | .struct => m.structNames
  | .protomsg => m.protoNames
  | .msg => m.msgNames

/-- **per-element block**: once per element, in model order, name tags in the requested case,
    counters = zero-based index and letter (a per-action-signature body keeps every line,
    the others drop white-space-only lines) -/
def expandBlock (m : Model) (k : Kind) (body : List BItem) : List BItem :=
  match k with
  | .pasig =>
    ((Engine.enumFrom 0 (Table.actionSigs m.table)).map (fun p =>
      body.map (BItem.subst (byDict (caseTags "ACTIONNAME" "actionName" "ACTION_NAME" p.2.1 ++
                  caseTags "EVENTNAME" "eventName" "EVENT_NAME" (sigEvent p.2.2) ++ counterTags p.1))))).flatten
  | .struct | .protomsg | .msg =>
    ((Engine.enumFrom 0 (elements m k)).map (fun p => bodyFor (protoNameTags p.2 ++ counterTags p.1) body)).flatten
  | _ =>
    ((Engine.enumFrom 0 (elements m k)).map (fun p => bodyFor (nameTags p.2 ++ counterTags p.1) body)).flatten

/-! ### nested transitions -/

/-- the dictionary of one transition, listed in the order the engine consults it (the keys are
    distinct, so the order carries no meaning) -/
def transTags (r : Table.Row) : List (Str × Str) :=
  (match r.action with
   | some a => [(Engine.T "ACTIONNAME", a), (Engine.T "actionName", camelSmall a), (Engine.T "ACTION_NAME", snakeCase a)]
   | none => []) ++
  (match r.guard with
   | some g => [(Engine.T "GUARDNAME", g), (Engine.T "GUARD_NAME", snakeCase g), (Engine.T "guardName", camelSmall g)]
   | none => []) ++
  (match r.next with
   | some n => [(Engine.T "STATENAMEIFNEXTSTATE", r.src), (Engine.T "stateNameIfNextState", camelSmall r.src),
                (Engine.T "STATE_NAME_IF_NEXT_STATE", snakeCase r.src),
                (Engine.T "NEXTSTATENAME", n), (Engine.T "nextStateName", camelSmall n), (Engine.T "NEXT_STATE_NAME", snakeCase n)]
   | none => [])

def transTagNames : List Str :=
  [ "ACTIONNAME", "actionName", "ACTION_NAME", "GUARDNAME", "guardName", "GUARD_NAME",
    "STATENAMEIFNEXTSTATE", "stateNameIfNextState", "STATE_NAME_IF_NEXT_STATE",
    "NEXTSTATENAME", "nextStateName", "NEXT_STATE_NAME", "EVENTNAME", "eventName", "EVENT_NAME" ].map Engine.T

/-- present transition tags take their value and lose any alternative text -/
def transSubst (d : List (Str × Str)) : Str → Option Str → Option Str
  | n, _ => lookupS d n

/-- one line of a per-guard-transition block for one transition: if a transition tag is
    still there (the row has no such element), the line is dropped, or replaced by the
    alternative text at the line's indentation -/
def pgtLine (d : List (Str × Str)) (i : BItem) : List BItem :=
  match i with
  | .blank t => [.blank t]
  | .line l =>
    let l' := substLine (transSubst d) l
    let absent := l'.filterMap (fun s => match s with
      | .tag n dflt => if transTagNames.contains n then some dflt else none
      | .lit _ => none)
    if absent.isEmpty then [.line l']
    else
      match absent.filterMap id with
      | alt :: _ =>
        let t := lineText l'
        [.line [.lit (List.replicate (t.length - (lstrip t).length) SP ++ alt)]]
      | [] => []

def expandPgt (t : List Table.Row) (s e : Str) (body : List BItem) : List BItem :=
  ((Table.rowsFor t s e).map (fun r => (body.map (pgtLine (transTags r))).flatten)).flatten

def expandPet (t : List Table.Row) (s : Str) (body : List PetItem) : List BItem :=
  ((Table.eventsOf t s).map (fun e =>
    let d := caseTags "EVENTNAME" "eventName" "EVENT_NAME" e
    (body.map (fun it => match it with
      | .b i => [i.subst (byDict d)]
      | .pgt _ b => expandPgt t s e (b.map (BItem.subst (byDict d))))).flatten)).flatten

/-- **per-state-transition block**: once per state (source states, then target-only ones),
    inside once per event of that state, inside once per transition of (state, event) -/
def expandPst (t : List Table.Row) (body : List PstItem) : List BItem :=
  ((Table.perStateKeys t).map (fun s =>
    let d := caseTags "STATENAME" "stateName" "STATE_NAME" s
    (body.map (fun it => match it with
      | .b i => [i.subst (byDict d)]
      | .pet _ b => expandPet t s (b.map (PetItem.subst (byDict d))))).flatten)).flatten

/-! ### user tags, IF, FOR (C17) -/

/-- **user tag rule**: assigned value, else inline default, else verbatim -/
def userSubst (ut : List (Str × Str)) : Str → Option Str → Option Str
  | n, dflt => match lookupS ut n with
    | some v => some v
    | none => dflt

def userText (ut : List (Str × Str)) (i : BItem) : Str := bitemText (i.subst (userSubst ut))

/-- **IF / ELSEIF / ELSE**: every branch whose tag is assigned is emitted; ELSE exactly when
    none was -/
def expandCond (ut : List (Str × Str)) (brs : List (Str × List BItem)) (els : Option (List BItem)) : List BItem :=
  let taken := brs.filter (fun p => (lookupS ut p.1).isSome)
  if taken.isEmpty then (match els with | some e => e | none => [])
  else (taken.map (·.2)).flatten

/-- the inline defaults of user-tag driven FOR blocks, collected over all files in order and shared by
    every FOR over that tag.  As the code does it (`do_user_tags`, first loop): a default replaces the one
    collected before for the same tag - the comment there says "first is the law", but the membership
    test looks the default's *value* up among the collected tag names, so an earlier default survives only
    when the later one is spelled like a tag already collected (DESIGN 11.6) -/
def forDefaults (files : List (List Item)) : List (Str × Str) :=
  (files.flatten).foldl (fun acc it => match it with
    | .loop _ (.userTag n (some d)) _ =>
      if acc.any (fun kv => kv.1 == d) then acc
      else if acc.any (fun kv => kv.1 == n) then acc.map (fun kv => if kv.1 == n then (n, d) else kv)
      else acc ++ [(n, d)]
    | _ => acc) []

def forItems (fd : List (Str × Str)) (p : ForParam) (ut : List (Str × Str)) : Option (List Str) :=
  let ofRaw (raw : Str) : Option (List Str) :=
    let isCsv := (find Engine.COMMA raw).isSome
    let isNum := isNumeric (strip raw)
    if isCsv && !isNum then some ((splitAll Engine.COMMA (rstripChars Engine.COMMA (lstripChars Engine.COMMA (strip raw)))).map strip)
    else if !isCsv && isNum then some ((List.range (toNat (strip raw))).map (fun i => [US] ++ natToStr i ++ [US]))
    else none
  match p with
  | .list raw => ofRaw raw
  | .count raw => ofRaw raw
  | .userTag n _ => match lookupS ut n with
    | some v => ofRaw v
    | none => (lookupS fd n).bind ofRaw

def hasTagNamed (n : Str) : BItem → Bool
  | .blank _ => false
  | .line l => l.any (fun s => match s with | .tag m _ => m == n | .lit _ => false)

/-- **FOR**: FIRST line once before, LAST line once after, the other lines once per item -/
def expandLoop (fd ut : List (Str × Str)) (p : ForParam) (body : List BItem) : Option (List BItem) :=
  match forItems fd p ut with
  | none => none
  | some items =>
    let firstL := body.find? (hasTagNamed (Engine.T "FIRST"))
    let lastL := body.find? (fun i => hasTagNamed (Engine.T "LAST") i && !hasTagNamed (Engine.T "FIRST") i)
    let rest := body.filter (fun i => !hasTagNamed (Engine.T "FIRST") i && !hasTagNamed (Engine.T "LAST") i)
    let each := ((Engine.enumFrom 0 items).map (fun q =>
      rest.map (BItem.subst (byDict ([(Engine.T "EACH", q.2), (Engine.T "each", camelSmall q.2)] ++ counterTags q.1))))).flatten
    if items.isEmpty then some []
    else
      some ((match firstL with | some f => [f.subst (byDict [(Engine.T "FIRST", items.head?.getD [])])] | none => []) ++ each ++
            (match lastL with | some l => [l.subst (byDict [(Engine.T "LAST", items.getLast?.getD [])])] | none => []))

/-! ### the whole expansion of one file -/

def expandItem (m : Model) (fd ut : List (Str × Str)) : Item → Option (List BItem)
  | .b i => some [i]
  | .block k _ body => some (expandBlock m k body)
  | .pst _ body => some (expandPst m.table body)
  | .cond _ brs els => some (expandCond ut brs els)
  | .loop _ p body => expandLoop fd ut p body

/-- lines of the generated file before the TAB filter: blocks, conditionals and loops are
    expanded, then every remaining tag goes through the user-tag rule; `none` where the engine
    rejects the template (FOR arguments that are neither a list nor a count) -/
def expandFile (globals : List (Str × Str)) (m : Model) (fd ut : List (Str × Str)) (items : List Item) : Option (List Str) :=
  let first := (m.table.head?.map (·.src)).getD (Engine.T "NO TT PRESENT!")
  let st0 := [(Engine.T "<<<STATE_0>>>", first), (Engine.T "<<<state_0>>>", camelSmall first)]
  (Engine.mapOpt (expandItem m fd ut) (load (globals ++ st0) items)).map (fun ls => ls.flatten.map (userText ut))

/-- the file's text as written -/
def fileText (lines : List Str) : Str := (lines.map expandTabs).flatten

end Spec
end KojenVerif
