import KojenVerif.Model.Uml
/-
  The include lines of a generated C++ header (`LanguageCPP.GetNotForwardDeclarableHeaderIncludes`):
  own-namespace stripping, namespace part of a type, grouping by path, filtering by the diagram's
  class names, rendering.  Transliterated after the fixes 64466e3 / f2d600b.
-/
namespace KojenVerif
namespace Uml
open Str

/-- `StripOwnNamespace(f, ns)` -/
def stripOwn (f ns : Str) : Str :=
  if !ns.isEmpty && isPrefixB (ns ++ S "::") f then f.drop (ns.length + 2) else f

/-- (qualification in front of the last component, last component) -/
def splitQual (f : Str) : Str × Str :=
  let last := (splitAll (S "::") f).getLast?.getD []
  (f.take (f.length - last.length), last)

/-- (path, class) of one referenced type seen from a class in namespace `holderNs` -/
def incEntry (holderNs f : Str) : Str × Str :=
  let q := splitQual (stripOwn f holderNs)
  (pyReplace (S "::") (S "/") q.1, q.2)

/-- `OrderedDict` of lists: group by key in order of first appearance -/
def groupAdd (g : List (Str × List Str)) (e : Str × Str) : List (Str × List Str) :=
  if g.any (fun p => p.1 == e.1) then g.map (fun p => if p.1 == e.1 then (p.1, p.2 ++ [e.2]) else p)
  else g ++ [(e.1, [e.2])]

def groupByPath (es : List (Str × Str)) : List (Str × List Str) := es.foldl groupAdd []

/-- `_filterOutTypesNotInModel`: a class name is kept once per class of the diagram that bears it -/
def filterInModel (modelNames : List Str) (g : List (Str × List Str)) : List (Str × List Str) :=
  g.filterMap (fun p =>
    let cs := (p.2.map (fun c => modelNames.filter (· == c))).flatten
    if cs.isEmpty then none else some (p.1, cs))

def incLine (folders : Bool) (path cls : Str) : Str :=
  S "#include \"" ++ (if folders then path else []) ++ cls ++ S ".h\"\n"

/-- the include block for the (sorted) set of types a header needs complete -/
def includes (folders : Bool) (holderNs : Str) (sortedTypes modelNames : List Str) : Str :=
  ((filterInModel modelNames (groupByPath (sortedTypes.map (incEntry holderNs)))).map
    (fun p => (p.2.map (incLine folders p.1)).flatten)).flatten

end Uml
end KojenVerif
