import KojenVerif.Model.EmitPy
/-
  C# back end (`statemachine_templates_cs_winlinmac`): `<SM>Internals.cs` has one class per
  state overriding `Trigger<Event>` for the events of that state, with the same nested
  guard blocks as the Python back end but brace-delimited and without a no-transition hook
  (the base class' virtual `Trigger<Event>` is empty); `<SM>Context.cs` declares the
  interface the handlers call.
-/
namespace KojenVerif
namespace EmitCs
open Table EmitPy

/-- `state.Trigger<e>(controller, sm, evt)` on the current state object -/
def dispatch (p : Prog) (cur e : Str) (val : Str → Bool) : Str × List Cb := processWith [] p cur e val

/-- members of `I<SM>Context` -/
inductive Decl where
  | guard (g : Str)                 -- bool g();
  | action (a : Str) (ev : Str)     -- void a(ev data);
  | entry (s : Str)                 -- void On<s>Entry();
  | exit (s : Str)                  -- void On<s>Exit();
  deriving DecidableEq, Repr

def context (t : List Row) : List Decl :=
  (guards t).map Decl.guard ++ (actionSigs t).map (fun p => Decl.action p.1 p.2) ++
  ((states t).map (fun s => [Decl.entry s, Decl.exit s])).flatten

/-- state classes of `<SM>Internals.cs` -/
def classes (t : List Row) : List Str := perStateKeys t

/-- what a callback needs from the context interface -/
def declOf : Cb → Option Decl
  | .guard g => some (.guard g)
  | .exit s => some (.exit s)
  | .action a e => some (.action a e)
  | .entry s => some (.entry s)
  | .noTransition => none

end EmitCs
end KojenVerif
