/-
  Model of `allplatforms/CPP/IConnection.cpp` (non-ARM build): `OnDataReceived`,
  `FindPreamble`, `HandleFragmentedData`, `HandleUnfragmentedData`, `PutIntoFragmentBuffer`,
  `ResetFragmentation`, branch by branch.  Bytes are `Nat` (< 256 in the domain), the
  fragment buffer is a list, counts are unbounded (`uint32` wrap-around is outside the
  domain: messages are shorter than 2³² bytes).  The mutual recursion
  OnDataReceived → Handle… → OnDataReceived is made structural with a fuel argument;
  `feedChunk` supplies enough of it (every re-entry consumes at least one byte, except the
  single re-entry after a reset).
-/
namespace KojenVerif
namespace Conn

abbrev Bytes := List Nat

structure Cfg where
  p0 : Nat        -- m_receiver_preamble_0 (low byte)
  p1 : Nat        -- m_receiver_preamble_1 (high byte)
  deriving Repr, DecidableEq

structure St where
  buf : Bytes     -- m_fragment_buffer
  req : Nat       -- m_fragment_buffer_bytes_required
  deriving Repr, DecidableEq

def St.init : St := ⟨[], 0⟩

def headerSize : Nat := 8

/-- `header->PayloadSize`: little-endian 32 bit at offset 4 of the (complete) header -/
def payloadSize (hdr : Bytes) : Nat :=
  hdr.getD 4 0 + 256 * hdr.getD 5 0 + 65536 * hdr.getD 6 0 + 16777216 * hdr.getD 7 0

/-- `FindPreamble`: first index i with d[i] = p0 and (i last, or d[i+1] = p1) -/
def findPreamble (c : Cfg) : Bytes → Option Nat
  | [] => none
  | [x] => if x = c.p0 then some 0 else none
  | x :: y :: rest =>
    if x = c.p0 ∧ y = c.p1 then some 0
    else match findPreamble c (y :: rest) with
      | some i => some (i + 1)
      | none => none

/-- early filtering of `OnDataReceived`: where the data to be handled starts
    (`none`: the chunk is ignored) -/
def actualData (c : Cfg) (st : St) (d : Bytes) : Option Bytes :=
  if st.buf.length = 0 then
    if d.length = 1 then (if d.head? = some c.p0 then some d else none)
    else match findPreamble c d with
      | some i => some (d.drop i)
      | none => none
  else some d

/-- `HandleFragmentedData` / `HandleUnfragmentedData` on the data `a`; `rec` is the
    re-entry into `OnDataReceived` for the bytes behind a completed message -/
def handle (c : Cfg) (rec : St → Bytes → St × List Bytes) (st : St) (a : Bytes) : St × List Bytes :=
  let cnt := st.buf.length
  if cnt > 0 ∨ a.length < headerSize then
    -- HandleFragmentedData
    if cnt = 1 ∧ a.head? ≠ some c.p1 then
      if a.head? = some c.p0 then rec St.init a else (St.init, [])
    else if st.req = 0 then
      let total := cnt + a.length
      if total < headerSize then (⟨st.buf ++ a, 0⟩, [])
      else
        let stp := headerSize - cnt
        let hdr := st.buf ++ a.take stp
        let ms := headerSize + payloadSize hdr
        if total < ms then (⟨st.buf ++ a, ms - total⟩, [])
        else
          let msg := hdr ++ (a.drop stp).take (ms - headerSize)
          let rest := a.drop (stp + (ms - headerSize))
          let r := if rest.isEmpty then (St.init, []) else rec St.init rest
          (r.1, msg :: r.2)
    else if a.length < st.req then (⟨st.buf ++ a, st.req - a.length⟩, [])
    else
      let msg := st.buf ++ a.take st.req
      let rest := a.drop st.req
      let r := if rest.isEmpty then (St.init, []) else rec St.init rest
      (r.1, msg :: r.2)
  else
    -- HandleUnfragmentedData (buffer empty, at least a header present)
    let ms := headerSize + payloadSize a
    if a.length < ms then (⟨a, ms - a.length⟩, [])
    else
      let rest := a.drop ms
      let r := if rest.isEmpty then (st, []) else rec st rest
      (r.1, a.take ms :: r.2)

/-- `OnDataReceived` with a message receiver; returns the new state and the messages
    delivered, in order. -/
def onData (c : Cfg) : Nat → St → Bytes → St × List Bytes
  | 0, st, _ => (st, [])
  | fuel + 1, st, d =>
    if d.isEmpty then (st, []) else
    match actualData c st d with
    | none => (st, [])
    | some a => handle c (onData c fuel) st a

/-- one received chunk -/
def feedChunk (c : Cfg) (st : St) (d : Bytes) : St × List Bytes := onData c (d.length + 2) st d

/-- a sequence of chunks -/
def feedAll (c : Cfg) : St → List Bytes → St × List Bytes
  | st, [] => (st, [])
  | st, d :: ds =>
    let r := feedChunk c st d
    let r' := feedAll c r.1 ds
    (r'.1, r.2 ++ r'.2)

/-- with a raw-data receiver every non-empty chunk is handed over unmodified -/
def feedRaw (ds : List Bytes) : List Bytes := ds.filter (fun d => !d.isEmpty)

end Conn
end KojenVerif
