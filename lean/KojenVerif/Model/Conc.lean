import KojenVerif.Generated.Facts
/-
  Interleaving model of `allplatforms/CPP/threaded_dispatcher.h` + `threadsafe_queue.h`
  (after fixes 89eba0a / 29af415): producers calling `dispatch`, worker threads running
  `handle_dispatch_internal`, and the thread destroying the (derived) dispatcher.
  Granularity: each mutex-protected region of the queue is one atomic step, a condition
  wait is a step enabled only when its predicate holds, each read / write of the atomic
  shutdown flag is a step of its own.
-/
namespace KojenVerif
namespace Conc

abbrev Item := Nat × Nat      -- (producer, index in that producer's dispatch order)

inductive WPhase where
  | top                      -- about to test `while (!m_shutting_down)`
  | popping                  -- inside wait_and_pop(), waiting for (!empty || stopped)
  | got (it : Option Item)   -- wait_and_pop returned; about to test `item && !m_shutting_down`
  | handling (it : Item)     -- inside handle_dispatch(item)
  | exited
  deriving DecidableEq, Repr

inductive DPhase where
  | alive                    -- destructor not entered
  | flagSet                  -- stop(): m_shutting_down = true done
  | woken                    -- stop(): m_queue.wake_up() done; joining
  | joined                   -- all workers joined
  | destroyed                -- the derived part of the object has been destroyed
  deriving DecidableEq, Repr

structure St where
  queue : List Item
  stopped : Bool             -- threadsafe_queue::m_stopped
  shutting : Bool            -- threaded_dispatcher::m_shutting_down (atomic)
  next : Nat → Nat           -- per producer: how many it has dispatched
  total : Nat → Nat
  workers : Nat → WPhase
  nworkers : Nat
  destroyer : DPhase
  derivedAlive : Bool        -- the object implementing handle_dispatch() is intact
  begun : List Item          -- handle_dispatch calls in the order they began
  dropped : List Item        -- items popped during shutdown and discarded

inductive Label where
  | push (p : Nat)
  | wCheck (w : Nat)
  | wPop (w : Nat)
  | wTest (w : Nat)
  | wEnd (w : Nat)
  | dSet | dWake | dJoin | dDestroyDerived
  deriving DecidableEq, Repr

def setW (f : Nat → WPhase) (w : Nat) (v : WPhase) : Nat → WPhase := fun x => if x = w then v else f x
def setN (f : Nat → Nat) (p : Nat) (v : Nat) : Nat → Nat := fun x => if x = p then v else f x

/-- `stopFirst`: the derived destructor calls stop() before anything else (regenerated fact
    `Generated.dispatcherStopFirst`); otherwise the derived part dies first, as before the fix -/
def step (stopFirst : Bool) (s : St) : Label → Option St
  | .push p =>
    -- dispatching on a dispatcher whose destruction has begun is a use-after-free of the caller, not modelled
    if s.next p < s.total p ∧ s.destroyer = .alive then
      some { s with queue := s.queue ++ [(p, s.next p)], next := setN s.next p (s.next p + 1) }
    else none
  | .wCheck w =>
    if w < s.nworkers ∧ s.workers w = .top then
      some { s with workers := setW s.workers w (if s.shutting then .exited else .popping) }
    else none
  | .wPop w =>
    if w < s.nworkers ∧ s.workers w = .popping ∧ (s.queue ≠ [] ∨ s.stopped = true) then
      match s.queue with
      | it :: rest => some { s with queue := rest, workers := setW s.workers w (.got (some it)) }
      | [] => some { s with workers := setW s.workers w (.got none) }
    else none
  | .wTest w =>
    if w < s.nworkers then
      match s.workers w with
      | .got (some it) =>
        if s.shutting then some { s with workers := setW s.workers w .top, dropped := s.dropped ++ [it] }
        else some { s with workers := setW s.workers w (.handling it), begun := s.begun ++ [it] }
      | .got none => some { s with workers := setW s.workers w .top }
      | _ => none
    else none
  | .wEnd w =>
    if w < s.nworkers then
      match s.workers w with
      | .handling _ => some { s with workers := setW s.workers w .top }
      | _ => none
    else none
  | .dSet =>
    if s.destroyer = .alive ∧ (stopFirst = true ∨ s.derivedAlive = false) then
      some { s with shutting := true, destroyer := .flagSet }
    else none
  | .dWake =>
    if s.destroyer = .flagSet then some { s with stopped := true, destroyer := .woken } else none
  | .dJoin =>
    if s.destroyer = .woken ∧ (∀ w, w < s.nworkers → s.workers w = .exited) then
      some { s with destroyer := .joined }
    else none
  | .dDestroyDerived =>
    if s.derivedAlive = true ∧ (if stopFirst then s.destroyer = .joined else s.destroyer = .alive) then
      some { s with derivedAlive := false, destroyer := if stopFirst then .destroyed else s.destroyer }
    else none

instance (s : St) : Decidable (∀ w, w < s.nworkers → s.workers w = .exited) :=
  Nat.decidableBallLT s.nworkers (fun w _ => s.workers w = .exited)

def init (totals : Nat → Nat) (nworkers : Nat) : St :=
  { queue := [], stopped := false, shutting := false, next := fun _ => 0, total := totals,
    workers := fun w => if w < nworkers then .top else .exited, nworkers := nworkers,
    destroyer := .alive, derivedAlive := true, begun := [], dropped := [] }

def run (stopFirst : Bool) : St → List Label → Option St
  | s, [] => some s
  | s, l :: ls => match step stopFirst s l with
    | some s' => run stopFirst s' ls
    | none => none

def Reachable (stopFirst : Bool) (totals : Nat → Nat) (nworkers : Nat) (s : St) : Prop :=
  ∃ ls, run stopFirst (init totals nworkers) ls = some s

/-! ### lockset discipline (data-race freedom at the level of the model) -/

inductive Var where | data | stopped | shutting
  deriving DecidableEq, Repr

structure Access where
  var : Var
  write : Bool
  underMutex : Bool
  deriving DecidableEq, Repr

/-- every access of a live thread to the three shared variables, as the code performs it:
    the queue's members only inside the queue's member functions (whether those take
    `m_mutex` first is the regenerated fact `queueMethodsLocked`), the shutdown flag directly -/
def accesses : List Access :=
  [ ⟨.data, true, Generated.queueMethodsLocked⟩,     -- push / pop
    ⟨.data, false, Generated.queueMethodsLocked⟩,    -- wait predicate, size, empty
    ⟨.stopped, true, Generated.stoppedAccessLocked⟩, -- wake_up
    ⟨.stopped, false, Generated.stoppedAccessLocked⟩,-- wait predicate
    ⟨.shutting, true, false⟩,                        -- stop()
    ⟨.shutting, false, false⟩ ]                      -- worker loop

def isAtomicVar : Var → Bool
  | .shutting => Generated.shuttingDownAtomic
  | .stopped => Generated.stoppedAtomic
  | .data => false

/-- two accesses of different threads conflict when they touch the same variable and one writes -/
def conflict (a b : Access) : Bool := a.var == b.var && (a.write || b.write)

def raceFreePair (a b : Access) : Bool := !conflict a b || isAtomicVar a.var || (a.underMutex && b.underMutex)

end Conc
end KojenVerif
