import KojenVerif.Basic.PyStr
/-
  Extraction of a transition table from a Visual Paradigm project (`kojen/vppfs.py`):
  the three tables as the SQLite reader returns them, the blob scanners `Transition.Parse`
  and `Guard.Parse`, the classification of the diagram's elements (`StateDiagram.LoadAndTest`)
  and the assembly of the table (`GetTransitionTable`).

  Modelled rather than verified: SQLite itself and the schema checks (`LoadAndTest` of the three
  table readers only locate columns); `str(bytes)` — the harness hands the driver the very
  strings the code scans.
-/
namespace KojenVerif
namespace Vpp
open Str

def S (s : String) : Str := ofString s

/-- `mass_replace` -/
def massReplace (s : Str) : Str :=
  applyChain
    [ (S "=", []), (S "<", []), (S ">", []), (S ";", []), (S "\\n", []), (S "\\r", []), (S "\\t", []),
      (S "\n", []), (S "\r", []), (S "\t", []), (S "\"", []), (S "(", []), (S ")", []) ] s

/-- `GetLastIDFromColonList` -/
def lastColon (s : Str) : Str := ((splitAll (S ":") s).getLast?).getD []

/-- the four references of a transition, `none` where the blob has no such entry -/
structure TRefs where
  to_ : Option Str := none
  from_ : Option Str := none
  guard : Option Str := none
  effect : Option Str := none
  deriving DecidableEq, Repr

/-- `i[i.rfind('{') + 1:]` -/
def afterLastBrace (i : Str) : Str :=
  match rfind (S "{") i with
  | some k => i.drop (k + 1)
  | none => i

/-- `str.partition('=')`: (before, after) -/
def partitionEq (s : Str) : Str × Str :=
  match find (S "=") s with
  | some k => (s.take k, s.drop (k + 1))
  | none => (s, [])

/-- one `;`-piece of `Transition.Parse` (after fix fb8a571: the entry's key decides) -/
def parsePiece (r : TRefs) (i : Str) : TRefs :=
  let kv := partitionEq (afterLastBrace i)
  let key := strip (massReplace kv.1)
  let v := lastColon (massReplace kv.2)
  let r := if key == S "toModel" then { r with to_ := some v } else r
  let r := if key == S "fromModel" then { r with from_ := some v } else r
  let r := if key == S "guard" then { r with guard := some v } else r
  if key == S "effect" then { r with effect := some v } else r

/-- `Transition.Parse` -/
def parseTransition (blob : Str) : TRefs := (splitAll (S ";") blob).foldl parsePiece {}

/-- `Guard.Parse`: the first piece mentioning `value_string`; `none` where Python raises -/
def parseGuardName (blob : Str) : Option Str :=
  ((splitAll (S ";") blob).find? (contains (S "value_string"))).map (fun i => massReplace (pyReplace (S "value_string") [] i))

/-! ### the tables -/

structure DiagramRow where
  id : Str
  type : Str
  name : Str

structure ElemRow where
  id : Str
  diagramId : Str
  modelId : Str

structure ModelRow where
  id : Str
  type : Str
  name : Str      -- `""` for NULL
  blob : Str      -- `str(DEFINITION)`

structure Project where
  diagrams : List DiagramRow
  elems : List ElemRow
  models : List ModelRow

/-- `GetIDFromStateDiagramName`: first state diagram of that name, dictionary (= table) order -/
def diagramId (p : Project) (name : Str) : Option Str :=
  ((p.diagrams.filter (fun d => d.type == S "StateDiagram")).find? (fun d => d.name == name)).map (·.id)

def model (p : Project) (id : Str) : Option ModelRow := p.models.find? (fun m => m.id == id)

/-- insertion-ordered dictionary assignment -/
def dset {V : Type} (d : List (Str × V)) (k : Str) (v : V) : List (Str × V) :=
  if d.any (fun kv => kv.1 == k) then d.map (fun kv => if kv.1 == k then (k, v) else kv) else d ++ [(k, v)]

def dget {V : Type} (d : List (Str × V)) (k : Str) : Option V := (d.find? (fun kv => kv.1 == k)).map (·.2)

structure Loaded where
  states : List (Str × Str) := []                  -- id ↦ name
  transitions : List (Str × (Str × TRefs)) := []   -- id ↦ (name, refs)
  initial : Option Str := none

/-- `StateDiagram.LoadAndTest`, first loop; `none` where Python raises -/
def loadStep (p : Project) (acc : Option Loaded) (e : ElemRow) : Option Loaded :=
  acc.bind fun a =>
  (model p e.modelId).bind fun m =>
    if m.type == S "InitialPseudoState" then some { a with initial := some m.id }
    else if m.type == S "Transition2" then some { a with transitions := dset a.transitions m.id (m.name, parseTransition m.blob) }
    else if m.type == S "State2" then some { a with states := dset a.states m.id m.name }
    else if m.type == S "NOTE" || m.type == S "Anchor" then some a
    else none

def load (p : Project) (did : Str) : Option Loaded :=
  (p.elems.filter (fun e => e.diagramId == did)).foldl (loadStep p) (some {})

def NONE : Str := S "None"

/-- second loop of `LoadAndTest`: guards and actions must exist (and the guard must carry a
    `value_string`), else Python raises -/
def resolveOK (p : Project) (l : Loaded) : Bool :=
  l.transitions.all (fun t =>
    (match t.2.2.guard with
     | some g => (match model p g with | some m => (parseGuardName m.blob).isSome | none => false)
     | none => true) &&
    (match t.2.2.effect with
     | some a => (model p a).isSome
     | none => true))

def guardName (p : Project) (g : Str) : Str := ((model p g).bind (fun m => parseGuardName m.blob)).getD []
def actionName (p : Project) (a : Str) : Str := ((model p a).map (·.name)).getD []

/-- ordered dictionary from source-state name to rows -/
abbrev Groups := List (Str × List (List Str))

def gEnsure (g : Groups) (k : Str) : Groups := if g.any (fun kv => kv.1 == k) then g else g ++ [(k, [])]
def gAppend (g : Groups) (k : Str) (row : List Str) : Groups :=
  g.map (fun kv => if kv.1 == k then (kv.1, kv.2 ++ [row]) else kv)
def gReset (g : Groups) (k : Str) : Groups :=
  if g.any (fun kv => kv.1 == k) then g.map (fun kv => if kv.1 == k then (k, []) else kv) else g ++ [(k, [])]

/-- a transition with its state references resolved to names -/
structure RT where
  isInit : Bool          -- leaves the initial pseudo-state
  src : Str              -- name of the source state (unused for the initial arrow)
  dst : Str              -- name of the target state
  row : List Str         -- the table row (unused for the initial arrow)

def mapOpt {α β} (f : α → Option β) : List α → Option (List β)
  | [] => some []
  | a :: as => match f a, mapOpt f as with
    | some b, some bs => some (b :: bs)
    | _, _ => none

def actionCell (p : Project) : Option Str → Str
  | some a => actionName p a
  | none => NONE

def guardCell (p : Project) : Option Str → Str
  | some x => guardName p x
  | none => NONE

/-- the state lookups of both loops of `GetTransitionTable` (`none` = KeyError) -/
def resolveT (p : Project) (l : Loaded) (ini : Str) (t : Str × (Str × TRefs)) : Option RT :=
  if t.2.2.from_ == some ini then
    (t.2.2.to_.bind (dget l.states)).map (fun n => { isInit := true, src := [], dst := n, row := [] })
  else
    match t.2.2.from_.bind (dget l.states), t.2.2.to_.bind (dget l.states) with
    | some f, some n =>
      let next := if n == f then NONE else n
      some { isInit := false, src := f, dst := n, row := [f, t.2.1, next, actionCell p t.2.2.effect, guardCell p t.2.2.guard] }
    | _, _ => none

/-- the two loops over the transitions, and the final flattening -/
def assemble (rts : List RT) : List (List Str) :=
  let g1 : Groups := rts.foldl (fun g t => if t.isInit then gReset g t.dst else g) []
  let g2 : Groups := rts.foldl (fun g t => if t.isInit then g else gAppend (gEnsure g t.src) t.src t.row) g1
  (g2.map (·.2)).flatten

/-- `GetTransitionTable`; `none` where Python raises (no initial pseudo-state, dangling state id) -/
def transitionTable (p : Project) (l : Loaded) : Option (List (List Str)) :=
  match l.initial with
  | none => if l.transitions.isEmpty then some [] else none   -- `.ID` of None is only evaluated per transition
  | some ini => (mapOpt (resolveT p l ini) l.transitions).map assemble

/-- `ExtractTransitionTable(name, path)` on the project's tables -/
def extract (p : Project) (name : Str) : Option (List (List Str)) :=
  (diagramId p (strip name)).bind fun did =>
  (load p did).bind fun l =>
  if resolveOK p l then transitionTable p l else none

end Vpp
end KojenVerif
