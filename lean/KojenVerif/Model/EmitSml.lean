import KojenVerif.Model.Table
/-
  boost::sml back end: the rows `smgen.innerexpand_sml` writes into
  `make_transition_table( … )` (with entry/exit hooks, after fix 9066068), and the names the
  generated controller / state-machine units declare.
-/
namespace KojenVerif
namespace EmitSml
open Table Str

inductive SmlRow where
  /-- `[*|,] state<src> + event<ev> [guard] / action [= state<target>]` -/
  | trans (init : Bool) (src ev guard action : Str) (target : Option Str)
  /-- `, state<s> + boost::sml::on_entry<_> / <s>OnEntry` -/
  | entry (s : Str)
  | exit (s : Str)
  deriving DecidableEq, Repr

def gnone : Str := ofString "gnone"
def noneAct : Str := ofString "none"

/-- one table line as an sml row: absent guard ↦ the always-true `gnone`, absent action ↦ the
    no-op `none`, instances are named in camelCase; no target ↦ internal transition -/
def transOf (init : Bool) (r : Row) : SmlRow :=
  .trans init r.src r.ev
    (match r.guard with | some g => camelSmall g | none => gnone)
    (match r.action with | some a => camelSmall a | none => noneAct)
    r.next

/-- the loop over the table lines: row, then entry/exit of its start state when first seen -/
def go : List Row → Bool → List Str → List SmlRow
  | [], _, _ => []
  | r :: rs, first, seen =>
    transOf first r ::
      (if seen.contains r.src then go rs false seen
       else .entry r.src :: .exit r.src :: go rs false (seen ++ [r.src]))

/-- all rows of the generated transition table, in order -/
def rows (t : List Row) : List SmlRow :=
  go t true [] ++
    (((states t).filter (fun s => !(sourceStates t).contains s)).map (fun s => [SmlRow.entry s, SmlRow.exit s])).flatten

def isTrans : SmlRow → Bool
  | .trans .. => true
  | _ => false

def entryStates : List SmlRow → List Str
  | [] => []
  | .entry s :: rs => s :: entryStates rs
  | _ :: rs => entryStates rs

def exitStates : List SmlRow → List Str
  | [] => []
  | .exit s :: rs => s :: exitStates rs
  | _ :: rs => exitStates rs

end EmitSml
end KojenVerif
