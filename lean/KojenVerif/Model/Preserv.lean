/-
  Model of `kojen/preservative.py` : `CollectFile`, `Emplace` (both modes), LostCode.
  Abstract over the line type `L` and key type `K`; instantiated in `Model/PreservStr`
  with `L = Str`, `isTag = contains "{{{USER_"`, `key = CleanUpLine`.
  Every definition follows the Python statement by statement (line numbers of
  preservative.py in comments).
-/
namespace KojenVerif

structure Cfg (L K : Type) where
  /-- `line.find(self._TAG_PREFIX_) > -1` (l.107) -/
  isTag : L → Bool
  /-- `CleanUpLine(line)` (l.127, l.168) -/
  key : L → K
  /-- replace-mode filter: `is_tag_line and cleaned_up_line in tagline and PREFIX in cleaned_up_line`,
      first argument the remembered `tagline`, second the current line -/
  keep : L → L → Bool

/-- Python `dict` with insertion order: `{cleaned tag line : [body lines]}` -/
abbrev Tags (L K : Type) := List (K × List L)

namespace Tags
variable {L K : Type} [DecidableEq K]

def get? : Tags L K → K → Option (List L)
  | [], _ => none
  | (k', b) :: t, k => if k' = k then some b else get? t k

/-- dict assignment: an existing key keeps its position, a new key is appended -/
def set : Tags L K → K → List L → Tags L K
  | [], k, b => [(k, b)]
  | (k', b') :: t, k, b => if k' = k then (k', b) :: t else (k', b') :: set t k b

def keys (t : Tags L K) : List K := t.map (·.1)

end Tags

section
variable {L K : Type} [DecidableEq K]

/-- `Emplace` l.171–177: the table entry a line selects — only a line that carries the tag
    prefix is a tag line (fix 404b694), and then its cleaned form is looked up -/
def Cfg.lookup (c : Cfg L K) (t : Tags L K) (l : L) : Option (List L) :=
  if c.isTag l then Tags.get? t (c.key l) else none

/-- `CollectFile` l.102–128. State: `none` = not preserving; `some (k, revBody)`. An
    unterminated block is dropped (the dict entry is only written at the closing tag). -/
def collectAux (c : Cfg L K) : List L → Option (K × List L) → Tags L K → Tags L K
  | [], _, acc => acc
  | l :: ls, none, acc =>
      if c.isTag l then collectAux c ls (some (c.key l, [])) acc
      else collectAux c ls none acc
  | l :: ls, some (k, body), acc =>
      if c.isTag l then collectAux c ls none (acc.set k body.reverse)
      else collectAux c ls (some (k, l :: body)) acc

def collect (c : Cfg L K) (ls : List L) : Tags L K := collectAux c ls none []

/-- `Emplace` l.164–180 for one (file, tags) pair. State `none` = `tag_found == False`;
    `some tl` = inside a pair whose opening line was `tl`. -/
def emplaceAux (c : Cfg L K) (t : Tags L K) (replace : Bool) : List L → Option L → List L
  | [], _ => []
  | l :: ls, none =>
      match c.lookup t l with
      | some b => l :: (b ++ emplaceAux c t replace ls (some l))
      | none => l :: emplaceAux c t replace ls none
  | l :: ls, some tl =>
      let rest := match c.lookup t l with
        | some _ => emplaceAux c t replace ls none
        | none => emplaceAux c t replace ls (some tl)
      if !replace || c.keep tl l then l :: rest else rest

def emplace (c : Cfg L K) (t : Tags L K) (ls : List L) : List L := emplaceAux c t false ls none
def emplaceReplace (c : Cfg L K) (t : Tags L K) (ls : List L) : List L := emplaceAux c t true ls none

/-- keys marked `WAS_USED` (l.174), in scan order -/
def usedAux (c : Cfg L K) (t : Tags L K) : List L → Bool → List K
  | [], _ => []
  | l :: ls, false =>
      match c.lookup t l with
      | some _ => c.key l :: usedAux c t ls true
      | none => usedAux c t ls false
  | l :: ls, true =>
      match c.lookup t l with
      | some _ => usedAux c t ls false
      | none => usedAux c t ls true

def used (c : Cfg L K) (t : Tags L K) (ls : List L) : List K := usedAux c t ls false

/-- LostCode l.182–194: the (key, body) entries reported, in dict order: not used and
    non-empty.  `usedKeys` accumulates over every file the tags were emplaced into. -/
def lostEntries (t : Tags L K) (usedKeys : List K) : Tags L K :=
  t.filter (fun kb => !(usedKeys.contains kb.1) && !kb.2.isEmpty)

/-! ### Documents: the structured view used by the theorems -/

inductive Item (L : Type) where
  | text (l : L)
  | block (o cl : L) (body : List L)

def Item.render : Item L → List L
  | .text l => [l]
  | .block o cl b => o :: (b ++ [cl])

def render : List (Item L) → List L
  | [] => []
  | it :: D => it.render ++ render D

/-- (key, body) of every block, in document order -/
def blocksOf (c : Cfg L K) : List (Item L) → Tags L K
  | [] => []
  | .text _ :: D => blocksOf c D
  | .block o _ b :: D => (c.key o, b) :: blocksOf c D

/-- what an existing file on disk must look like for collection to see its blocks -/
def Item.okOld (c : Cfg L K) : Item L → Prop
  | .text l => c.isTag l = false
  | .block o cl b => c.isTag o = true ∧ c.isTag cl = true ∧ ∀ x ∈ b, c.isTag x = false

/-- what a freshly expanded file must look like relative to a tag table `t` -/
def Item.okNew (c : Cfg L K) (t : Tags L K) : Item L → Prop
  | .text l => c.lookup t l = none
  | .block o cl b => c.isTag o = true ∧ c.isTag cl = true ∧ c.key cl = c.key o ∧ ∀ x ∈ b, c.lookup t x = none

/-- insert the preserved body directly after the opening tag -/
def Item.fill (c : Cfg L K) (t : Tags L K) : Item L → Item L
  | .text l => .text l
  | .block o cl b =>
      match t.get? (c.key o) with
      | some pb => .block o cl (pb ++ b)
      | none => .block o cl b

/-- replace-mode: the body is replaced -/
def Item.fillReplace (c : Cfg L K) (t : Tags L K) : Item L → Item L
  | .text l => .text l
  | .block o cl b =>
      match t.get? (c.key o) with
      | some pb => .block o cl pb
      | none => .block o cl b

end
end KojenVerif

namespace KojenVerif
section
variable {L K : Type} [DecidableEq K]

/-- user edit: the body under every tag `k` becomes `B k` -/
def Item.setBody (c : Cfg L K) (B : K → List L) : Item L → Item L
  | .text l => .text l
  | .block o cl _ => .block o cl (B (c.key o))

/-- apply a per-line function (the output stage's TAB filter) to every line -/
def Item.mapLines (f : L → L) : Item L → Item L
  | .text l => .text (f l)
  | .block o cl b => .block (f o) (f cl) (b.map f)

def blockKeys (c : Cfg L K) (D : List (Item L)) : List K := Tags.keys (blocksOf c D)

/-- A freshly expanded file (before it is written) that can be regenerated over:
    empty tag pairs whose two lines clean to the same key, stable under the output
    filter `norm`; ordinary text lines are no tag lines. -/
def Item.freshOK (c : Cfg L K) (norm : L → L) : Item L → Prop
  | .text l => c.isTag l = false
  | .block o cl b => b = [] ∧ c.isTag o = true ∧ c.isTag cl = true ∧ c.key cl = c.key o
      ∧ c.key (norm o) = c.key o ∧ c.key (norm cl) = c.key o

structure FreshDoc (c : Cfg L K) (norm : L → L) (F : List (Item L)) : Prop where
  items : ∀ it ∈ F, it.freshOK c norm
  nodup : (blockKeys c F).Nodup

/-- what the output filter must satisfy (proved for TAB expansion in `Lemmas/Str`) -/
structure NormOK (c : Cfg L K) (norm : L → L) : Prop where
  tag : ∀ l, c.isTag (norm l) = c.isTag l
  idem : ∀ l, norm (norm l) = norm l

/-- user text: no line contains the tag prefix -/
def UserOK (c : Cfg L K) (B : K → List L) : Prop := ∀ k, ∀ x ∈ B k, c.isTag x = false

/-- what becomes of one item: written through the output filter, then its body edited -/
def Item.edit (c : Cfg L K) (norm : L → L) (B : K → List L) : Item L → Item L
  | .text l => .text (norm l)
  | .block o cl _ => .block (norm o) (norm cl) (B (c.key (norm o)))

/-- the file on disk after generating `F` and editing the bodies to `B` -/
def onDisk (c : Cfg L K) (norm : L → L) (B : K → List L) (F : List (Item L)) : List (Item L) :=
  F.map (Item.edit c norm B)

/-- one regeneration of a single file: collect from disk, emplace into the fresh
    expansion, write through the output filter -/
def regenLines (c : Cfg L K) (norm : L → L) (fresh disk : List L) : List L :=
  (emplace c (collect c disk) fresh).map norm

end
end KojenVerif
