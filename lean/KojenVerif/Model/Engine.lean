import KojenVerif.Basic.PyStr
import KojenVerif.Model.Table
/-
  The template engine of `cgen.py` / `smgen.py` at string level: a transliteration of
  `hasTag` … `extractDefaultAndTag`, `PairExpander`, the per-element expanders
  (`innerexpand_secondfiltering[_PROTO]`, `innerexpand_actionsignatures`, the nested
  per-state / per-event / per-guard transition expansion), the loader's search-and-replace
  and blank-line filter, `do_user_tags` (user tags, IF/ELSEIF/ELSE) and `do_for`.

  What is a parameter rather than modelled: everything the engine obtains from the language
  back end or the events interface for a *name* (`Env`): signatures, member instantiation /
  declaration text, aggregate initialisers, documentation, member lists, message ids.
  Outside the model (the functions return `none`, as they do where Python raises):
  `<<<EXTENDS>>>`/`<<<EXCLUDE>>>`, the `<<<TTT_…>>>` table renderers (C09 models the sml one),
  `<<<PyAttr=…>>>`, `<<<DATETIME>>>`/`<<<PLATFORM>>>` (C06).
-/
namespace KojenVerif
namespace Engine
open Str

abbrev Line := Str

def T (s : String) : Str := ofString s

/-! ### tag scanning -/

/-- automaton for `re.findall(r'<<<([^<>]*)>>>', s)`; buffers are reversed -/
inductive Scan where
  | lt (k : Nat)               -- k consecutive '<' just read (3 = three or more)
  | body (buf : Str)           -- "<<<" and a non-empty run of non-angle characters read
  | gt (buf : Str) (k : Nat)   -- … followed by k ∈ {1,2} '>'
  deriving DecidableEq, Repr

def scanStep : Scan → Nat → Scan × Option Str
  | .lt k, c =>
    if c == LTc then (.lt (if k < 3 then k + 1 else 3), none)
    else if k == 3 then (if c == GTc then (.gt [] 1, none) else (.body [c], none))
    else (.lt 0, none)
  | .body buf, c =>
    if c == LTc then (.lt 1, none)
    else if c == GTc then (.gt buf 1, none)
    else (.body (c :: buf), none)
  | .gt buf k, c =>
    if c == GTc then (if k == 2 then (.lt 0, some buf.reverse) else (.gt buf (k + 1), none))
    else if c == LTc then (.lt 1, none)
    else (.lt 0, none)

def tagBodiesAux : Scan → Str → List Str
  | _, [] => []
  | st, c :: cs =>
    match scanStep st c with
    | (st', some b) => b :: tagBodiesAux st' cs
    | (st', none) => tagBodiesAux st' cs

/-- `tag_pattern.findall(a)` -/
def tagBodies (a : Str) : List Str := tagBodiesAux (.lt 0) a

def hasTag (a : Str) : Bool := !(tagBodies a).isEmpty

/-- `cleanTag` -/
def cleanTag (a : Str) : Str := pyReplace GGG [] (pyReplace LLL [] a)

/-- `hasSpecificTag(a, tag)`: some tag on the line and the tag's keyword anywhere in it -/
def hasSpecificTag (a tag : Str) : Bool := hasTag a && contains (cleanTag tag) a

def EQ : Str := [61]

/-- `hasDefault(a, delimiter)` -/
def hasDefault (a : Str) (delim : Str := EQ) : Bool := (tagBodies a).any (contains delim)

/-- the index loop of `extractDefaultAndTag`: positions of the last `<<<` of every run of
    `<<<`-starts, and `i+3` for the first `>>>` of every run of `>>>`-starts -/
def edtScan : Str → Nat → Option Nat → Bool → List Nat → List Nat → List Nat × List Nat
  | [], _, _, _, st, en => (st, en)
  | c :: cs, i, istart, inEnd, st, en =>
    let isL := isPrefixB LLL (c :: cs)
    let istart' := if isL then some i else none
    let st' := if isL then st else (match istart with | some k => st ++ [k] | none => st)
    let isG := isPrefixB GGG (c :: cs)
    let en' := if isG && !inEnd then en ++ [i + 3] else en
    edtScan cs (i + 1) istart' isG st' en'

/-- `extractDefaultAndTag(a, delimiter)` = `[outermost_tag, default_value]` -/
def extractDefaultAndTag (a : Str) (delim : Str := EQ) : Str × Str :=
  let (st, en) := edtScan a 0 none false [] []
  match st.head?, en.getLast? with
  | some s0, some eL =>
    let outer := slice a s0 eL
    let inner := slice a (s0 + 3) (eL - 3)
    (outer, ((splitOnce delim inner).2).getD [])
  | _, _ => ([], [])

/-- `removeDefault(a, delimiter)` -/
def removeDefault (a : Str) (delim : Str := EQ) : Str :=
  match (tagBodies a).getLast? with
  | some last => pyReplace (LLL ++ last ++ GGG) (LLL ++ (splitOnce delim last).1 ++ GGG) a
  | none => a

/-- `extractDefaultAndTagNamed(a, named)`; `none` where Python raises -/
def extractDefaultAndTagNamed (a named : Str) : Option (Str × Str) :=
  ((splitAll GGG a).find? (contains named)).map (fun b => extractDefaultAndTag (b ++ GGG))

/-- `getWhitespace(a)` = `a[0:a.find("<<<")]` (with Python's `a[0:-1]` when absent) -/
def getWhitespace (a : Str) : Str :=
  match find LLL a with
  | some i => a.take i
  | none => a.dropLast

/-! ### counters -/

def nextAlpha (alpha : Nat) : Nat :=
  let a := alpha + 1
  let a := if a == 123 then 65 else a
  if a == 91 then 97 else a

def alphaOf : Nat → Nat
  | 0 => 97
  | n + 1 => nextAlpha (alphaOf n)

/-! ### `PairExpander` / `SingleExpander` -/

structure PE where
  within : Bool := false
  snippet : List Line := []
  param : Str := []
  out : List Line := []

/-- one line of `PairExpander.Expand`; `f snippet param` are the lines the expansion
    function appends (`param = []` when the call is made without the extra argument) -/
def pairStep (startKw endKw : Str) (f : List Line → Str → Option (List Line)) (st : PE) (line : Line) :
    Option PE :=
  let begin := hasTag line && contains startKw line
  let end_ := hasTag line && contains endKw line
  let within := begin || st.within
  let param := if begin && hasDefault line then (extractDefaultAndTag line).2 else st.param
  let out := if !within && !end_ then st.out ++ [line] else st.out
  if within && end_ then
    match f st.snippet param with
    | some add => some { within := false, snippet := [], param := [], out := out ++ add }   -- fix: param reset
    | none => none
  else
    some { within := within, snippet := if within && !begin then st.snippet ++ [line] else st.snippet,
           param := param, out := out }

def pairFold (startKw endKw : Str) (f : List Line → Str → Option (List Line)) : PE → List Line → Option PE
  | st, [] => some st
  | st, l :: ls => match pairStep startKw endKw f st l with
    | some st' => pairFold startKw endKw f st' ls
    | none => none

/-- `PairExpander(start, end).Expand(lines, f, …)` -/
def pairExpand (startTag endTag : Str) (f : List Line → Str → Option (List Line)) (lines : List Line) :
    Option (List Line) :=
  (pairFold (cleanTag startTag) (cleanTag endTag) f {} lines).map (·.out)

/-! ### per-element expansion -/

/-- what the engine asks the language back end / events interface about a name -/
structure Env where
  /-- `none`: the back end raises (feature not implemented for the language) -/
  sig : Str → Bool → Option Str
  memberInst : Str → Nat → Bool → Str → Option Str
  memberDecl : Str → Nat → Bool → Option Str
  aggInit : Str → Option Str
  doc : Str → Option Str
  /-- `Decompose(False)`: (type, member name, IsProtocolStruct member) -/
  members : Str → Option (List (Str × Str × Bool))
  msgId : Str → Option Str

def applySubst (chain : List (Str × Str)) (line : Line) : Line :=
  chain.foldl (fun acc pr => pyReplace pr.1 pr.2 acc) line

/-- the replace chain of `innerexpand_secondfiltering`, in source order -/
def smNameChain (name : Str) (alpha cnt : Nat) : List (Str × Str) :=
  [ (T "<<<stateName>>>", camelSmall name), (T "<<<STATENAME>>>", name),
    (T "<<<eventName>>>", camelSmall name), (T "<<<STATE_NAME>>>", snakeCase name),
    (T "<<<EVENTNAME>>>", name), (T "<<<eventName>>>", camelSmall name),
    (T "<<<EVENT_NAME>>>", snakeCase name),
    (T "<<<ACTIONNAME>>>", name), (T "<<<actionName>>>", camelSmall name), (T "<<<ACTION_NAME>>>", snakeCase name),
    (T "<<<GUARDNAME>>>", name), (T "<<<guardName>>>", camelSmall name), (T "<<<GUARD_NAME>>>", snakeCase name),
    (T "<<<ALPH>>>", [alpha]), (T "<<<NUM>>>", natToStr cnt) ]

/-- … of `innerexpand_secondfiltering_PROTO` -/
def protoNameChain (name : Str) (alpha cnt : Nat) : List (Str × Str) :=
  [ (T "<<<structName>>>", camelSmall name), (T "<<<STRUCTNAME>>>", name),
    (T "<<<msgName>>>", camelSmall name), (T "<<<MSGNAME>>>", name),
    (T "<<<PROTOMSGNAME>>>", name), (T "<<<protoMsgName>>>", camelSmall name),
    (T "<<<ALPH>>>", [alpha]), (T "<<<NUM>>>", natToStr cnt) ]

def parenFix (g : Str) : Str :=
  applySubst [ (T " , )", T ")"), (T ", )", T ")"), (T ",)", T ")"),
               (T "( , ", T "("), (T "( ,", T "("), (T "(,", T "(") ] g

def COMMA : Str := [44]

/-- the `<<<SIGNATURE…>>>` part -/
def doSignature (env : Env) (name : Str) (nl : Line) : Option Line :=
  if hasSpecificTag nl (T "<<<SIGNATURE>>>") then
    let hasDef := contains (T "<<<SIGNATUREWITHDEFAULTS>>>") nl
    let r : Option Line :=
      if hasDefault nl then
        match extractDefaultAndTagNamed nl (T "SIGNATURE"), env.sig name false with
        | some up, some sg =>
          let s := sg ++ T ", " ++ up.2
          let s := stripChars [SP] (stripChars COMMA s)
          some (pyReplace up.1 s nl)
        | _, _ => none
      else
        (env.sig name hasDef).map (fun sg =>
          pyReplace (if hasDef then T "<<<SIGNATUREWITHDEFAULTS>>>" else T "<<<SIGNATURE>>>") sg nl)
    r.map (subParens parenFix)
  else some nl

def doMemberInst (env : Env) (name : Str) (tabcnt : Nat) (tag : Str) (isPtr : Bool) (nl : Line) : Option Line :=
  if hasSpecificTag nl tag && hasDefault nl then
    let lm := extractDefaultAndTag nl
    (env.memberInst name tabcnt isPtr lm.2).map (fun v => pyReplace lm.1 v nl)
  else (env.memberInst name tabcnt isPtr (T "data")).map (fun v => pyReplace tag v nl)

def NLs : Str := [NL]

/-- one snippet line for one element: the lines it contributes (`none` = Python raises or
    the line is outside the model) -/
def innerLine (env : Env) (proto : Bool) (name : Str) (alpha cnt : Nat) (line : Line) : Option (List Line) :=
  if !hasTag line then
    (if isSpace line then some [] else some [line])
  else
    let nl := applySubst (if proto then protoNameChain name alpha cnt else smNameChain name alpha cnt) line
    let tabcnt := count (T "    ") nl
    (doSignature env name nl).bind fun nl =>
    (doMemberInst env name tabcnt (T "<<<MEMBERSINSTANTIATE>>>") true nl).bind fun nl =>
    (doMemberInst env name tabcnt (T "<<<MEMBERSLITEINSTANTIATE>>>") false nl).bind fun nl =>
    (if proto then some nl else (env.memberDecl name tabcnt false).map (fun v => pyReplace (T "<<<MEMBERSDECLARE>>>") v nl)).bind fun nl =>
      if hasSpecificTag nl (T "<<<DOCUMENTATION>>>") then
        match env.doc name with
        | some d =>
          let ws := getWhitespace nl
          some ((splitAll NLs (rstripChars NLs d)).map (fun x => ws ++ x ++ NLs))
        | none => none
      else
        (if hasSpecificTag nl (T "<<<AGGREGATEINITIALIZATION>>>")
          then (env.aggInit name).map (fun v => pyReplace (T "<<<AGGREGATEINITIALIZATION>>>") v nl) else some nl).bind fun nl =>
        (if proto && hasSpecificTag nl (T "<<<MSGID>>>") then (env.msgId name).map (fun i => pyReplace (T "<<<MSGID>>>") i nl)
          else some nl).bind fun nl =>
        (if proto then (env.memberDecl name tabcnt true).map (fun v => pyReplace (T "<<<MEMBERSDECLARE>>>") v nl) else some nl).bind fun nl =>
          if hasSpecificTag nl (T "<<<ATTRIBUTETYPE>>>") || hasSpecificTag nl (T "<<<ATTRIBUTENAME>>>") then
            (env.members name).map (fun ms => ms.map (fun m =>
              pyReplace (T "<<<ATTRIBUTENAME>>>") m.2.1 (pyReplace (T "<<<ATTRIBUTETYPE>>>") m.1 nl)))
          else if proto && (hasSpecificTag nl (T "<<<PAYLOADTYPE>>>") || hasSpecificTag nl (T "<<<PAYLOADNAME>>>")) then
            (env.members name).map (fun ms => (ms.filter (fun m => !m.2.2)).map (fun m =>
              pyReplace (T "<<<PAYLOADNAME>>>") m.2.1 (pyReplace (T "<<<PAYLOADTYPE>>>") m.1 nl)))
          else if hasSpecificTag nl (T "<<<PyAttr>>>") && hasDefault nl then none
          else if isSpace nl then some []
          else some [nl]

def concatOpt : List (Option (List Line)) → Option (List Line)
  | [] => some []
  | none :: _ => none
  | some a :: rest => (concatOpt rest).map (a ++ ·)

/-- all snippet lines for one element -/
def innerElem (env : Env) (proto : Bool) (snippet : List Line) (name : Str) (idx : Nat) : Option (List Line) :=
  concatOpt (snippet.map (innerLine env proto name (alphaOf idx) idx))

def enumFrom {α} : Nat → List α → List (Nat × α)
  | _, [] => []
  | n, a :: as => (n, a) :: enumFrom (n + 1) as

/-- `innerexpand_secondfiltering[_PROTO](snippet, out, items)` -/
def innerExpand (env : Env) (proto : Bool) (items : List Str) (snippet : List Line) (param : Str) : Option (List Line) :=
  if !param.isEmpty then none      -- extra positional argument: TypeError
  else concatOpt ((enumFrom 0 items).map (fun p => innerElem env proto snippet p.2 p.1))

def NONE_ : Str := T "NONE"

/-- `innerexpand_actionsignatures` -/
def sigExpand (sigs : List (Str × Str)) (snippet : List Line) (param : Str) : Option (List Line) :=
  if !param.isEmpty then none
  else some (((enumFrom 0 sigs).map (fun p =>
    let a := p.2.1
    let e := if p.2.2.isEmpty || lower p.2.2 == T "none" then T "NONE" else if lower p.2.2 == T "any" then T "ANY" else p.2.2
    snippet.map (applySubst
      [ (T "<<<actionName>>>", camelSmall a), (T "<<<ACTIONNAME>>>", a), (T "<<<ACTION_NAME>>>", snakeCase a),
        (T "<<<eventName>>>", camelSmall e), (T "<<<EVENTNAME>>>", e), (T "<<<EVENT_NAME>>>", snakeCase e),
        (T "<<<ALPH>>>", [alphaOf p.1]), (T "<<<NUM>>>", natToStr p.1) ]))).flatten)

/-! ### nested transition expansion -/

/-- the per-transition dictionary of `set_transitions_per_state`, in insertion order -/
def transDict (r : Table.Row) : List (Str × Str) :=
  (match r.action with
   | some a => [(T "<<<ACTIONNAME>>>", a), (T "<<<actionName>>>", camelSmall a), (T "<<<ACTION_NAME>>>", snakeCase a)]
   | none => []) ++
  (match r.guard with
   | some g => [(T "<<<GUARDNAME>>>", g), (T "<<<GUARD_NAME>>>", snakeCase g), (T "<<<guardName>>>", camelSmall g)]
   | none => []) ++
  (match r.next with
   | some n => [(T "<<<STATENAMEIFNEXTSTATE>>>", r.src), (T "<<<stateNameIfNextState>>>", camelSmall r.src),
                (T "<<<STATE_NAME_IF_NEXT_STATE>>>", snakeCase r.src),
                (T "<<<NEXTSTATENAME>>>", n), (T "<<<nextStateName>>>", camelSmall n), (T "<<<NEXT_STATE_NAME>>>", snakeCase n)]
   | none => [])

def pgtKinds : List Str :=
  [ T "<<<eventName>>>", T "<<<EVENTNAME>>>", T "<<<EVENT_NAME>>>",
    T "<<<guardName>>>", T "<<<GUARDNAME>>>", T "<<<GUARD_NAME>>>",
    T "<<<NEXTSTATENAME>>>", T "<<<nextStateName>>>", T "<<<NEXT_STATE_NAME>>>",
    T "<<<ACTIONNAME>>>", T "<<<actionName>>>", T "<<<ACTION_NAME>>>",
    T "<<<STATENAMEIFNEXTSTATE>>>", T "<<<stateNameIfNextState>>>", T "<<<STATE_NAME_IF_NEXT_STATE>>>" ]

def pgtAbsent : List Str :=
  [ T "<<<guardName>>>", T "<<<GUARDNAME>>>", T "<<<GUARD_NAME>>>",
    T "<<<NEXTSTATENAME>>>", T "<<<nextStateName>>>", T "<<<NEXT_STATE_NAME>>>",
    T "<<<STATENAMEIFNEXTSTATE>>>", T "<<<stateNameIfNextState>>>", T "<<<STATE_NAME_IF_NEXT_STATE>>>" ]

/-- one line of a per-guard-transition block for one transition -/
def pgtLine (d : List (Str × Str)) (l : Line) : List Line :=
  let l := d.foldl (fun l kv => pyReplace kv.1 kv.2 (if hasSpecificTag l kv.1 then removeDefault l else l)) l
  if pgtKinds.any (hasSpecificTag l) then
    -- since fix 9f1df16 the alternative is only looked for when a tag of the line has one
    if hasDefault l then [List.replicate (l.length - (lstrip l).length) SP ++ (extractDefaultAndTag l).2 ++ NLs] else []
  else if pgtAbsent.all (fun t => (find t l).isNone) then [l]
  else []

def pgtExpand (rows : List Table.Row) (snippet : List Line) (param : Str) : Option (List Line) :=
  if !param.isEmpty then none
  else some ((rows.map (fun r => (snippet.map (pgtLine (transDict r))).flatten)).flatten)

def filterStateName (s : Str) (l : Line) : Line :=
  applySubst [(T "<<<STATENAME>>>", s), (T "<<<stateName>>>", camelSmall s), (T "<<<STATE_NAME>>>", snakeCase s)] l

def filterEventName (e : Str) (l : Line) : Line :=
  applySubst [(T "<<<EVENTNAME>>>", e), (T "<<<eventName>>>", camelSmall e), (T "<<<EVENT_NAME>>>", snakeCase e)] l

/-- `innerexpand_transitionsperguard` -/
def perGuard (t : List Table.Row) (state ev : Str) (snippet : List Line) : Option (List Line) :=
  pairExpand (T "<<<PER_GUARDTRANSITION_BEGIN>>>") (T "<<<PER_GUARDTRANSITION_END>>>")
    (pgtExpand (Table.rowsFor t state ev)) (snippet.map (filterEventName ev))

def petExpand (t : List Table.Row) (state : Str) (snippet : List Line) (param : Str) : Option (List Line) :=
  if !param.isEmpty then none
  else concatOpt ((Table.eventsOf t state).map (fun ev => perGuard t state ev snippet))

/-- `innerexpand_transitionsperstate` -/
def pstExpand (t : List Table.Row) (snippet : List Line) (param : Str) : Option (List Line) :=
  if !param.isEmpty then none
  else concatOpt ((Table.perStateKeys t).map (fun s =>
    pairExpand (T "<<<PER_EVENTTRANSITION_BEGIN>>>") (T "<<<PER_EVENTTRANSITION_END>>>")
      (petExpand t s) (snippet.map (filterStateName s))))

/-! ### `expand_secondfiltering` -/

structure SmInput where
  table : List Table.Row
  /-- names of the interface's plain structs, protocol structs, messages (dictionary order) -/
  structNames : List Str
  protoNames : List Str
  msgNames : List Str

/-- `sm.events` after `Generate` appended the stateless struct events -/
def allEvents (m : SmInput) : List Str :=
  m.structNames.foldl Table.addUniq (Table.events m.table)

def tttKws : List Str := [T "TTT_PLANT_UML", T "TTT_BOOST_MSM", T "TTT_BOOST_SML"]

def bindAll (fs : List (List Line → Option (List Line))) (lines : List Line) : Option (List Line) :=
  fs.foldl (fun acc f => acc.bind f) (some lines)

/-- one file through `expand_secondfiltering` -/
def expandSecond (env : Env) (m : SmInput) (lines : List Line) : Option (List Line) :=
  if lines.any (fun l => hasTag l && tttKws.any (fun k => contains k l)) then none
  else
    let first := (m.table.head?.map (·.src)).getD (T "NO TT PRESENT!")
    let lines := lines.map (applySubst [(T "<<<STATE_0>>>", first), (T "<<<state_0>>>", camelSmall first)])
    bindAll
      [ pairExpand (T "<<<PER_STATE_BEGIN>>>") (T "<<<PER_STATE_END>>>") (innerExpand env false (Table.states m.table)),
        pairExpand (T "<<<PER_EVENT_BEGIN>>>") (T "<<<PER_EVENT_END>>>") (innerExpand env false (allEvents m)),
        pairExpand (T "<<<PER_ACTION_BEGIN>>>") (T "<<<PER_ACTION_END>>>") (innerExpand env false (Table.actions m.table)),
        pairExpand (T "<<<PER_ACTION_SIGNATURE_BEGIN>>>") (T "<<<PER_ACTION_SIGNATURE_END>>>") (sigExpand (Table.actionSigs m.table)),
        pairExpand (T "<<<PER_STATETRANSITION_BEGIN>>>") (T "<<<PER_STATETRANSITION_END>>>") (pstExpand m.table),
        pairExpand (T "<<<PER_GUARD_BEGIN>>>") (T "<<<PER_GUARD_END>>>") (innerExpand env false (Table.guards m.table)),
        pairExpand (T "<<<PER_STRUCT_BEGIN>>>") (T "<<<PER_STRUCT_END>>>") (innerExpand env true m.structNames),
        pairExpand (T "<<<PER_PROTOMSG_BEGIN>>>") (T "<<<PER_PROTOMSG_END>>>") (innerExpand env true m.protoNames),
        pairExpand (T "<<<PER_MSG_BEGIN>>>") (T "<<<PER_MSG_END>>>") (innerExpand env true m.msgNames) ]
      lines

/-! ### loading: search-and-replace dictionary, blank-line filter -/

/-- `preserve_leading_tagwhitespace_in_multiline_searchandreplace` -/
def preserveLeadingWs (line tag text : Str) : Str :=
  if (find tag line).isSome then
    let ds := splitAll NLs (rstripChars NLs text)
    if ds.length > 1 then
      let lead := List.replicate (line.length - (lstripChars [SP] line).length) SP
      rstripChars NLs (ds.foldl (fun acc d => if acc.isEmpty then d ++ NLs else acc ++ lead ++ d ++ NLs) [])
    else text
  else text

/-- `processLine`: the lines one template line turns into -/
def processLine (dict : List (Str × Str)) (line : Line) : List Line :=
  let line := dict.foldl (fun l kv => pyReplace kv.1 (preserveLeadingWs l kv.1 kv.2) l) line
  if count NLs line > 1 then (splitAll NLs (rstripChars NLs line)).map (· ++ NLs) else [line]

/-- `filter_multiple_newlines` (filtered lines stay in the list as empty strings) -/
def filterNewlinesAux : Str → Bool → List Line → List Line
  | _, _, [] => []
  | last, isFirst, l :: ls =>
    let cur := pyReplace [SP] [] l
    if !isFirst && cur == last && last == NLs then [] :: filterNewlinesAux last false ls
    else l :: filterNewlinesAux cur false ls

def filterNewlines (ls : List Line) : List Line := filterNewlinesAux [] true ls

def loaderUnsupported (l : Line) : Bool :=
  hasTag l && (contains (T "EXTENDS") l || contains (T "EXCLUDE") l || contains (T "DATETIME") l || contains (T "PLATFORM") l)

/-- `loadtemplates_firstfiltering_FILE` for a file without EXTENDS / EXCLUDE -/
def loadFile (dict : List (Str × Str)) (lines : List Line) : Option (List Line) :=
  if lines.any loaderUnsupported then none
  else some (filterNewlines ((lines.map (processLine dict)).flatten))

/-! ### user tags, IF / ELSEIF / ELSE -/

/-- `str.partition("=")`: (before, separator found, after) -/
def partitionEq (s : Str) : Str × Bool × Str :=
  match find EQ s with
  | some i => (s.take i, true, s.drop (i + 1))
  | none => (s, false, [])

/-- `value_of(match)` of `replaceUserTags` on the body of one tag; `none` = the tag stays -/
def userTagValue (dict : List (Str × Str)) (body : Str) : Option Str :=
  let p := partitionEq body
  match (dict.find? (fun kv => kv.1 == p.1)).map (·.2) with
  | some v => some v
  | none => if p.2.1 then some p.2.2 else none

/-- `tag_pattern.sub(f, s)`: the scanner of `tagBodies`, now rebuilding the string.
    `pend` (reversed) is the text of a possible match in progress. -/
def subTagsAux (f : Str → Option Str) : Scan → Str → Str → Str
  | _, pend, [] => pend.reverse
  | st, pend, c :: cs =>
    match scanStep st c with
    | (st', some b) =>
      (match f b with
       | some v => v
       | none => (c :: pend).reverse) ++ subTagsAux f st' [] cs
    | (st', none) =>
      match st' with
      | .lt 0 => (c :: pend).reverse ++ subTagsAux f st' [] cs
      | .lt k =>
        -- only the last k '<' can still begin a match: flush what is before them
        let all := c :: pend
        (all.drop k).reverse ++ subTagsAux f st' (all.take k) cs
      | _ => subTagsAux f st' (c :: pend) cs

def subTags (f : Str → Option Str) (s : Str) : Str := subTagsAux f (.lt 0) [] s

/-- `replaceUserTags(line, dict)` (after fix e57e3c7): every tag on its own — assigned
    value, else inline default, else unchanged; values already rendered with `str()`
    (`None` as `""`) -/
def replaceUserTags (dict : List (Str × Str)) (line : Line) : Line := subTags (userTagValue dict) line

/-- `replaceDefault(a, b)` -/
def replaceDefault (a b : Str) : Str :=
  let i0 := (find LLL a)
  -- a.find(delimiter, a.find("<<<")): a negative start counts from the end; -1 = last character
  let startIdx := match i0 with | some i => i | none => a.length - 1
  let from_ : Nat := match findFrom EQ a startIdx with | some i => i | none => a.length - 1
  let to_ : Nat := match rfind GGG a with | some i => i | none => a.length - 1
  let d := stripChars EQ (slice a from_ to_)
  pyReplace d b a

def FORKW : Str := T "FOR_BEGIN"

/-- first loop of `do_user_tags`: defaults of `<<<FOR_BEGIN=<<<Tag=…>>>>>>` lines, all files -/
def forDefaultsStep (acc : List (Str × Str)) (line : Line) : List (Str × Str) :=
  if hasTag line && contains FORKW line then
    let ftd := extractDefaultAndTag line
    if (find EQ ftd.2).isSome then
      let hack := pyReplace (FORKW ++ EQ) [] ftd.1
      if hasDefault hack then
        let td := extractDefaultAndTag hack
        let key := cleanTag (removeDefault td.1)
        -- `if not taganddefault[1] in defaults: defaults[key] = taganddefault[1]`
        if acc.any (fun kv => kv.1 == td.2) then acc
        else if acc.any (fun kv => kv.1 == key) then acc.map (fun kv => if kv.1 == key then (key, td.2) else kv)
        else acc ++ [(key, td.2)]
      else acc
    else acc
  else acc

/-- `hasControlTag(a, tag)` (fix 60b17c4): the keyword is the first word of a tag of the line -/
def hasControlTag (a kw : Str) : Bool := (tagBodies a).any (fun b => (splitOnce [SP] b).1 == kw)

structure UT where
  inIf : Bool := false
  canElse : Bool := true
  canAppend : Bool := true
  out : List Line := []

def lookup (d : List (Str × Str)) (k : Str) : Option Str := (d.find? (fun kv => kv.1 == k)).map (·.2)

/-- one line of the second loop of `do_user_tags` (`isStr` is no longer consulted: since fix
    eeb437c the value handed to `replaceDefault` is rendered with `str()`) -/
def userTagStep (dict : List (Str × Str)) (isStr : Str → Bool) (forDefaults : List (Str × Str)) (st : UT) (line : Line) :
    Option UT :=
  if st.inIf then
    let hasElseif := hasControlTag line (T "ELSEIF")
    let hasElse := hasControlTag line (T "ELSE") && !hasElseif
    let hasEndif := hasControlTag line (T "ENDIF")
    if hasElseif && !hasElse && !hasEndif then
      let tag := (extractDefaultAndTag line [SP]).2
      let ca := (lookup dict tag).isSome
      some { st with canAppend := ca, canElse := !ca && st.canElse }
    else if !hasElseif && hasElse && !hasEndif then
      some { st with canAppend := st.canElse }
    else if !hasElseif && !hasElse && hasEndif then
      some { st with inIf := false, canAppend := true, canElse := true }
    else
      let line := if !hasElseif && !hasElse && !hasEndif then replaceUserTags dict line else line
      some (if st.canAppend then { st with out := st.out ++ [line] } else st)
  else
    let hasT := hasTag line
    let hasFor := hasSpecificTag line (T "<<<FOR_BEGIN>>>")
    let hasIf := hasControlTag line (T "IF")
    if hasT && !hasFor && !hasIf then
      some { st with canAppend := true, out := st.out ++ [replaceUserTags dict line] }
    else if hasT && hasFor && !hasIf then
      let td := extractDefaultAndTag line
      let key := cleanTag (removeDefault (LLL ++ td.2 ++ GGG))
      match lookup dict key with
      | some v => some { st with canAppend := true, out := st.out ++ [replaceDefault line v] }
      | none =>
        match lookup forDefaults key with
        | some v => some { st with canAppend := true, out := st.out ++ [replaceDefault line v] }
        | none => some { st with canAppend := true, out := st.out ++ [line] }   -- literal list or count (fix eeb437c)
    else if hasT && !hasFor && hasIf then
      let tag := (extractDefaultAndTag line [SP]).2
      let ca := (lookup dict tag).isSome
      some { st with inIf := true, canAppend := ca, canElse := !ca && st.canElse }
    else
      some { st with canAppend := true, out := st.out ++ [line] }

def userTagFold (dict : List (Str × Str)) (isStr : Str → Bool) (fd : List (Str × Str)) : UT → List Line → Option UT
  | st, [] => some st
  | st, l :: ls => match userTagStep dict isStr fd st l with
    | some st' => userTagFold dict isStr fd st' ls
    | none => none

/-- `do_user_tags` on one file, given the FOR defaults collected over all files -/
def doUserTags (dict : List (Str × Str)) (isStr : Str → Bool) (fd : List (Str × Str)) (lines : List Line) : Option (List Line) :=
  (userTagFold dict isStr fd {} lines).map (·.out)

/-! ### FOR -/

/-- `__process` of `innerexpand_for_loop` -/
def forProcess (csv : Str) (snippet : List Line) : List Line :=
  let items := splitAll COMMA (rstripChars COMMA (lstripChars COMMA (strip csv)))
  let first0 := strip (items.head?.getD [])
  let last0 := strip (items.getLast?.getD [])
  -- state: (first, last, to_add)
  let step (st : Option Line × Option Line × List Line) (p : Nat × Str) : Option Line × Option Line × List Line :=
    snippet.foldl (fun st l =>
      let hasFirst := hasSpecificTag l (T "<<<FIRST>>>")
      let hasLast := hasSpecificTag l (T "<<<LAST>>>")
      if hasFirst && st.1.isNone then (some (pyReplace (T "<<<FIRST>>>") first0 l), st.2.1, st.2.2)
      else if hasLast && st.2.1.isNone then (st.1, some (pyReplace (T "<<<LAST>>>") last0 l), st.2.2)
      else if !hasFirst && !hasLast then
        (st.1, st.2.1, st.2.2 ++ [applySubst
          [ (T "<<<EACH>>>", strip p.2), (T "<<<each>>>", camelSmall (strip p.2)),
            (T "<<<NUM>>>", natToStr p.1), (T "<<<ALPH>>>", [alphaOf p.1]) ] l])
      else st) st
  let r := (enumFrom 0 items).foldl step (none, none, [])
  -- `if first:` / `if last:` test the strings' truthiness
  let body := match r.1 with | some f => if f.isEmpty then r.2.2 else f :: r.2.2 | none => r.2.2
  match r.2.1 with | some l => if l.isEmpty then body else body ++ [l] | none => body

/-- `innerexpand_for_loop(to_expand, output, for_loop_param)` -/
def forExpand (snippet : List Line) (param : Str) : Option (List Line) :=
  if param.isEmpty then none          -- called without the parameter: TypeError
  else
    let isCsv := (find COMMA param).isSome
    let isNum := isNumeric (strip param)
    if isCsv && !isNum then some (forProcess param snippet)
    else if !isCsv && isNum then
      let n := toNat (strip param)
      let csv := ((List.range n).map (fun i => [US] ++ natToStr i ++ [US] ++ COMMA)).flatten
      if n > 0 then some (forProcess csv snippet) else some []      -- fix ece2e45
    else none

def doFor (lines : List Line) : Option (List Line) :=
  pairExpand (T "<<<FOR_BEGIN>>>") (T "<<<FOR_END>>>") forExpand lines

/-! ### the whole front half of `CStateMachineGenerator.Generate` -/

structure GenInput where
  /-- `dict_to_replace_lines`, insertion order -/
  dict : List (Str × Str)
  /-- `dict_to_replace_filenames`, insertion order -/
  fnDict : List (Str × Str)
  sm : SmInput
  userTags : List (Str × Str)
  userTagIsStr : Str → Bool

def fileName (fnDict : List (Str × Str)) (f : Str) : Str := applySubst fnDict f

def mapOpt {α β} (f : α → Option β) : List α → Option (List β)
  | [] => some []
  | a :: as => match f a, mapOpt f as with
    | some b, some bs => some (b :: bs)
    | _, _ => none

/-- the code model handed to the preservation pass: per template file (name, lines) -/
def generate (env : Env) (inp : GenInput) (files : List (Str × List Line)) : Option (List (Str × List Line)) :=
  match mapOpt (fun f => ((loadFile inp.dict f.2).bind (expandSecond env inp.sm)).map (fun ls => (fileName inp.fnDict f.1, ls))) files with
  | none => none
  | some cm =>
    let fd := (cm.map (·.2)).flatten.foldl forDefaultsStep []
    mapOpt (fun f => ((doUserTags inp.userTags inp.userTagIsStr fd f.2).bind doFor).map (fun ls => (f.1, ls))) cm

end Engine
end KojenVerif

namespace KojenVerif
namespace Engine
open Str

/-- `dict_to_replace_lines` of `CStateMachineGenerator.loadtemplates_firstfiltering`
    (without the DATETIME / PLATFORM entries the base class adds) -/
def smDict (smname ns author group brief dclspc pyif enums : Str) : List (Str × Str) :=
  [ (T "<<<STATEMACHINENAMEUPPER>>>", upper smname), (T "<<<stateMachineName>>>", camelSmall smname),
    (T "<<<STATE_MACHINE_NAME>>>", snakeCase smname), (T "<<<STATEMACHINENAME>>>", smname),
    (T "<<<CLASSNAME>>>", smname), (T "<<<CLASS_NAME>>>", snakeCase smname),
    (T "<<<PYIFGENNAME>>>", pyif), (T "<<<NAMESPACE>>>", ns), (T "<<<AUTHOR>>>", author),
    (T "<<<GROUP>>>", group), (T "<<<BRIEF>>>", brief), (T "<<<DLL_EXPORT>>>", dclspc),
    (T "<<<ENUMS>>>", enums) ]

/-- `setFilenameReplace` -/
def fnDictOf (name : Str) : List (Str × Str) :=
  [ (T "TEMPLATE", name), (T "_template", snakeCase name), (T "template", lower name), (T "temPlate", camelSmall name) ]

end Engine
end KojenVerif
