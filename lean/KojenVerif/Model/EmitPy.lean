import KojenVerif.Model.Table
/-
  The `process` / `process<State>` region of the generated Python state machine
  (`statemachine_templates_py/TEMPLATEStateMachine.py` expanded by
  `smgen.innerexpand_transitionsperstate` / `…perguard`), as a structured program, and an
  interpreter for it.  The check parses the real generated file back into this structure
  and compares it with `emit` (text correspondence); behaviour is compared by importing the
  generated module.
-/
namespace KojenVerif
namespace EmitPy
open Table

inductive Stmt where
  | call (cb : Cb)        -- self.context.<callback>(event)
  | assign (s : Str)      -- self.currentState = <SM>StateId.c<s>
  | ret                   -- return
  deriving DecidableEq, Repr

/-- one `PER_GUARDTRANSITION` expansion: `if self.context.<g>(event):` — or `if True:` for a
    row without guard (alternative text of the tag) — and its body -/
structure Block where
  guard : Option Str
  body : List Stmt
  deriving DecidableEq, Repr

/-- `if isinstance(event, <ev>):` with its guard blocks -/
structure EvBlock where
  ev : Str
  blocks : List Block
  deriving DecidableEq, Repr

/-- `def process<state>(self, event)`: event blocks, then print + `NoTransition` -/
structure StateFn where
  state : Str
  evs : List EvBlock
  deriving DecidableEq, Repr

structure Prog where
  fns : List StateFn       -- also the `if self.currentState == …: self.process<S>(event); return` chain
  init : Option Str        -- STATE_0: entry callback in the constructor, initial currentState
  deriving DecidableEq, Repr

/-- lines mentioning an absent guard / action / target are dropped by the engine -/
def emitBlock (r : Row) : Block :=
  ⟨r.guard,
   (match r.next with | some _ => [Stmt.call (Cb.exit r.src)] | none => []) ++
   (match r.action with | some a => [Stmt.call (Cb.action a r.ev)] | none => []) ++
   (match r.next with | some n => [Stmt.call (Cb.entry n), Stmt.assign n] | none => []) ++
   [Stmt.ret]⟩

def emit (t : List Row) : Prog :=
  ⟨(perStateKeys t).map (fun s =>
      ⟨s, (eventsOf t s).map (fun e => ⟨e, (rowsFor t s e).map emitBlock⟩)⟩),
   initial t⟩

/-! ### interpreter -/

/-- run a block body: (callbacks made, new current state, returned?) -/
def execBody : List Stmt → Str → List Cb × Str × Bool
  | [], cur => ([], cur, false)
  | Stmt.ret :: _, cur => ([], cur, true)
  | Stmt.call cb :: rest, cur =>
    let r := execBody rest cur
    (cb :: r.1, r.2.1, r.2.2)
  | Stmt.assign s :: rest, _ => execBody rest s

/-- guard blocks in order; `some s` when a body returned with current state `s` -/
def runBlocks (val : Str → Bool) (cur : Str) : List Block → List Cb × Option Str
  | [] => ([], none)
  | b :: bs =>
    let go : List Cb → List Cb × Option Str := fun pre =>
      let r := execBody b.body cur
      if r.2.2 then (pre ++ r.1, some r.2.1)
      else
        -- body fell through (never happens for emitted blocks): continue with the next block
        let r' := runBlocks val r.2.1 bs
        (pre ++ r.1 ++ r'.1, r'.2)
    match b.guard with
    | none => go []
    | some g =>
      if val g then go [Cb.guard g]
      else
        let r' := runBlocks val cur bs
        (Cb.guard g :: r'.1, r'.2)

def runEvs (val : Str → Bool) (cur e : Str) : List EvBlock → List Cb × Option Str
  | [] => ([], none)
  | eb :: rest =>
    if eb.ev = e then
      match runBlocks val cur eb.blocks with
      | (tr, some s) => (tr, some s)
      | (tr, none) =>
        let r := runEvs val cur e rest
        (tr ++ r.1, r.2)
    else runEvs val cur e rest

/-- a state function / state class: the event blocks, then `fallback` when nothing returned
    (Python: print + `NoTransition`; C#: the method simply ends) -/
def runFnWith (fallback : List Cb) (fn : StateFn) (val : Str → Bool) (cur e : Str) : Str × List Cb :=
  match runEvs val cur e fn.evs with
  | (tr, some s) => (s, tr)
  | (tr, none) => (cur, tr ++ fallback)

/-- dispatch on the current state: the first state function / class whose state it is -/
def processWith (fallback : List Cb) (p : Prog) (cur e : Str) (val : Str → Bool) : Str × List Cb :=
  match p.fns.find? (fun fn => fn.state == cur) with
  | some fn => runFnWith fallback fn val cur e
  | none => (cur, [])

/-- Python `process(event)` -/
def process (p : Prog) (cur e : Str) (val : Str → Bool) : Str × List Cb :=
  processWith [Cb.noTransition] p cur e val

/-- the constructor: entry callback of STATE_0, then that state -/
def construct (p : Prog) : Option (Str × List Cb) := p.init.map (fun s => (s, [Cb.entry s]))

/-! ### indentation structure of the emitted text (CPython's rule, for `C08_imports`) -/

/-- a physical line: indentation, and whether it opens a block (ends with `:`) -/
structure PyLine where
  indent : Nat
  opens : Bool
  deriving DecidableEq, Repr

def blockLines (b : Block) : List PyLine :=
  ⟨12, true⟩ :: b.body.map (fun _ => ⟨16, false⟩)

def evLines (eb : EvBlock) : List PyLine := ⟨8, true⟩ :: (eb.blocks.map blockLines).flatten

def fnLines (fn : StateFn) : List PyLine :=
  ⟨4, true⟩ :: (fn.evs.map evLines).flatten ++ [⟨8, false⟩, ⟨8, false⟩]

/-- CPython's tokenizer rule on an indent stack: after a block opener the next line must be
    deeper; otherwise the line's indentation must equal an entry of the stack (dedent) -/
def indentOK : List Nat → Bool → List PyLine → Bool
  | _, mustIndent, [] => !mustIndent
  | stack, mustIndent, l :: ls =>
    match stack with
    | [] => false
    | top :: _ =>
      if mustIndent then
        l.indent > top && indentOK (l.indent :: stack) l.opens ls
      else
        let st := stack.dropWhile (fun x => x > l.indent)
        match st with
        | [] => false
        | t :: _ => t == l.indent && indentOK st l.opens ls

end EmitPy
end KojenVerif
