import KojenVerif.Model.Wire
/-
  Generated receiver (`TEMPLATEReceiver.cpp`: `switch(header->TypeID)` with one `case` per
  message, `default:` → not-handled hook) and generated transmitter
  (`TEMPLATETransmitter.cpp`: retry loop around `connection->SendData`).
-/
namespace KojenVerif
namespace Dispatch
open Wire

/-- `header->TypeID` of a complete message: bytes 2 and 3, little endian -/
def typeIdOf (msg : Bytes) : Nat := msg.getD 2 0 + 256 * msg.getD 3 0

inductive Target where
  | handler (i : Nat)      -- On<Msg i>Received
  | notHandled             -- unhandledReceiver->OnNotHandledMessageReceived (if set)
  deriving DecidableEq, Repr

/-- the `switch`: the case whose label equals the type id (labels are distinct, or the C++
    would not compile), `default` otherwise -/
def dispatch (ids : List Nat) (msg : Bytes) : Target :=
  match ids.findIdx? (· == typeIdOf msg) with
  | some i => .handler i
  | none => .notHandled

/-- the retry loop `for (; retries >= 0 && !ok && connection; retries--) ok = ok || Send();`
    with `n` attempts left and `k` calls made so far; `accepts k` is the result of call k -/
def transmitLoop (accepts : Nat → Bool) : Nat → Nat → Bool × Nat
  | 0, k => (false, k)
  | n + 1, k => if accepts k then (true, k + 1) else transmitLoop accepts n (k + 1)

/-- `Transmit<Msg>(data, retries)`: (reported success, number of SendData calls) -/
def transmit (accepts : Nat → Bool) (retries : Int) : Bool × Nat :=
  if retries < 0 then (false, 0) else transmitLoop accepts (retries.toNat + 1) 0

end Dispatch
end KojenVerif
