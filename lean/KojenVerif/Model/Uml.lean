import KojenVerif.Basic.PyStr
import KojenVerif.Generated.Facts
/-
  UML class generation (`kojen/umlgen.py`): which template set an element of the class diagram
  is expanded from, the names of the files it produces, their placement in the folder chain
  of the package namespace, and the nested-namespace wrapper (`LanguageCPP` /
  `LanguageCsharp._getFormatNestedNamespaceBegin/End`).

  Modelled rather than verified: the parsing of the project into `ClassDiagram` (the harness
  hands the driver the element list of the real parsed object), the bodies of the files
  (operations, includes — `LanguageCPP`; decided on the real output by parse-back and the
  compiler).
-/
namespace KojenVerif
namespace Uml
open Str

def S (s : String) : Str := ofString s

structure Elem where
  name : Str
  ns : Str           -- "A::B", "" outside any package
  isEnum : Bool
  isStruct : Bool
  autogen : Bool
  pvi : Bool         -- pure virtual interface (stereotype or abstract)
  deriving DecidableEq, Repr

inductive Kind where
  | cls | iface | enum | struct | none
  deriving DecidableEq, Repr

/-- the `if / elif` chain of `loadtemplates_firstfiltering` -/
def kindOf (e : Elem) : Kind :=
  if !e.isEnum && !e.isStruct && !e.autogen && !e.pvi then .cls
  else if !e.isEnum && !e.isStruct && !e.autogen && e.pvi then .iface
  else if e.isEnum && !e.isStruct then .enum
  else if !e.isEnum && e.isStruct then .struct
  else .none

/-- the name filter and the file-name key of a kind -/
def filterKey : Kind → Option (Str × Str)
  | .cls => some (S "Class", S "ClassTemplate")
  | .iface => some (S "Interface", S "InterfaceTemplate")
  | .enum => some (S "Enum", S "EnumTemplate")
  | .struct => some (S "Struct", S "StructTemplate")
  | .none => Option.none

def applySubst (chain : List (Str × Str)) (s : Str) : Str := chain.foldl (fun acc kv => pyReplace kv.1 kv.2 acc) s

/-- `dict_to_replace_filenames`, applied in insertion order to the template's file name -/
def outName (key name tpl : Str) : Str :=
  applySubst [(key, name), (S ".ty", S ".py"), (S ".t", S ".h"), (S ".hpp", S ".cpp")] tpl

/-- template files selected for a filter: name contains it (case-insensitively), not `.removed` -/
def selected (templates : List Str) (flt : Str) : List Str :=
  templates.filter (fun f => contains (lower flt) (lower f) && !contains (S ".removed") (lower f))

/-- `update_filename_path_from_namespace` (`os.path.join` of the folder chain and the name) -/
def placed (folders : Bool) (ns fname : Str) : Str :=
  let sub := pyReplace (S "::") (S "/") ns
  if folders && !sub.isEmpty then
    (if sub.getLast? == some 47 then sub ++ fname else sub ++ [47] ++ fname)
  else fname

/-- the files one element contributes, in template-listing order -/
def filesOf (templates : List Str) (folders : Bool) (e : Elem) : List Str :=
  match filterKey (kindOf e) with
  | some (flt, key) => (selected templates flt).map (fun t => placed folders e.ns (outName key e.name t))
  | Option.none => []

/-- insertion-ordered key set of the code model (`dict.update` per element) -/
def addKeys (acc new : List Str) : List Str := new.foldl (fun a k => if a.contains k then a else a ++ [k]) acc

/-- project files: one per namespace (folders) or one named after the diagram -/
def projectFiles (templates : List Str) (folders : Bool) (diagram : Str) (namespaces : List Str) : List Str :=
  let sel := selected templates (S "Project")
  if sel.isEmpty then []      -- "contains no templates" is caught and ignored
  else
    let nss := if folders then namespaces else [if diagram.isEmpty then S "Project" else diagram]
    (nss.map (fun n => sel.map (fun t => placed folders n (pyReplace (S "Project") n t)))).flatten

/-- the keys of the code model = the reported files, in order -/
def fileList (templates : List Str) (folders : Bool) (diagram : Str) (elems : List Elem) (namespaces : List Str) : List Str :=
  addKeys (elems.foldl (fun acc e => addKeys acc (filesOf templates folders e)) []) (projectFiles templates folders diagram namespaces)

/-! ### the namespace wrapper -/

def nsBegin (ns : Str) : Str :=
  lstripChars [SP] (((splitAll (S "::") ns).map (fun n => S " namespace " ++ n ++ S " { ")).flatten)

def nsEnd (ns : Str) : Str :=
  lstrip (((splitAll (S "::") ns).map (fun _ => S " } ")).flatten)

end Uml
end KojenVerif
