import KojenVerif.Model.Pipeline
/-
  Executable well-formedness checks on real file contents (run by the driver on every
  file a generator produces) and the parser from lines to the document structure the
  theorems speak about.
-/
namespace KojenVerif
open Str

/-- parse lines into items: a tag line opens a block that the next tag line closes -/
def parseAux : List Str → Option (Str × List Str) → List (Item Str) → Option (List (Item Str))
  | [], none, acc => some acc.reverse
  | [], some _, _ => none
  | l :: ls, none, acc =>
      if isUserTag l then parseAux ls (some (l, [])) acc else parseAux ls none (.text l :: acc)
  | l :: ls, some (o, b), acc =>
      if isUserTag l then parseAux ls none (.block o l b.reverse :: acc)
      else parseAux ls (some (o, l :: b)) acc

def parseDoc (ls : List Str) : Option (List (Item Str)) := parseAux ls none []

def Item.freshOKB : Item Str → Bool
  | .text l => !isUserTag l
  | .block o cl b => b.isEmpty && isUserTag o && isUserTag cl && cleanUp cl == cleanUp o
      && cleanUp (expandTabs o) == cleanUp o && cleanUp (expandTabs cl) == cleanUp o

/-- decidable form of `FreshDoc strCfg expandTabs` -/
def freshDocB (F : List (Item Str)) : Bool :=
  F.all Item.freshOKB && decide (blockKeys strCfg F).Nodup

/-- a freshly generated file is regenerable: parses, tag pairs empty with equal TAB-stable
    keys, keys unique, no other line carries the tag prefix -/
def wfFresh (ls : List Str) : Bool :=
  match parseDoc ls with
  | some F => freshDocB F
  | none => false

/-- weaker check for files that already carry user code: parses into pairs with equal,
    unique keys -/
def Item.pairedB : Item Str → Bool
  | .text _ => true
  | .block o cl _ => cleanUp cl == cleanUp o

def wfDisk (ls : List Str) : Bool :=
  match parseDoc ls with
  | some D => D.all Item.pairedB && decide (blockKeys strCfg D).Nodup
  | none => false

/-- no unexpanded generator tag `<<<…>>>` (cgen.tag_pattern `<<<([^<>]*)>>>`) -/
def hasGenTagFrom : Str → Bool
  | [] => false
  | c :: cs =>
    (c == 60 && match cs with
      | 60 :: 60 :: rest =>
          -- skip characters other than '<' '>' and expect ">>>"
          let body := rest.dropWhile (fun x => x != 60 && x != 62)
          isPrefixB [62, 62, 62] body
      | _ => false) || hasGenTagFrom cs

end KojenVerif
