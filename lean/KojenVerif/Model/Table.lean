import KojenVerif.Basic.Str
/-
  Transition tables and their reference semantics (the oracle of C08–C10), and the table
  model `smgen.CTransitionTableModel` builds from them (first-appearance lists, per-state /
  per-event grouping of the rows).
-/
namespace KojenVerif
namespace Table

/-- one table line; `none` for the spellings `''`, `None`, `none`.  `noEv`: the event cell is one of these
    spellings (`ev` keeps the spelling): the row then registers its states, action and guard with the model
    but belongs to no event - it never fires and no per-event text is generated for it -/
structure Row where
  src : Str
  ev : Str
  next : Option Str
  action : Option Str
  guard : Option Str
  noEv : Bool := false
  deriving DecidableEq, Repr

/-- what the controller observes -/
inductive Cb where
  | guard (g : Str)
  | exit (s : Str)
  | action (a : Str) (ev : Str)
  | entry (s : Str)
  | noTransition
  deriving DecidableEq, Repr

/-- the callbacks of a fired row, in order: exit, action, entry for rows with a target;
    the action alone for rows without -/
def effects (r : Row) : List Cb :=
  (match r.next with | some _ => [Cb.exit r.src] | none => []) ++
  (match r.action with | some a => [Cb.action a r.ev] | none => []) ++
  (match r.next with | some n => [Cb.entry n] | none => [])

def target (r : Row) (cur : Str) : Str := r.next.getD cur

/-- try the rows in order: evaluate each guard (observable), fire the first row whose guard
    is absent or true; `fallback` is what happens when none fires -/
def tryRows (val : Str → Bool) (fallback : List Cb) (cur : Str) : List Row → Str × List Cb
  | [] => (cur, fallback)
  | r :: rs =>
    match r.guard with
    | none => (target r cur, effects r)
    | some g =>
      if val g then (target r cur, Cb.guard g :: effects r)
      else
        let res := tryRows val fallback cur rs
        (res.1, Cb.guard g :: res.2)

/-- the rows of `(state, event)` in table order -/
def rowsFor (t : List Row) (s e : Str) : List Row := t.filter (fun r => !r.noEv && r.src == s && r.ev == e)

/-- **Reference semantics** of one event in state `cur` under guard valuation `val`
    (Python flavour: the no-transition hook is called when nothing fires) -/
def stepRef (t : List Row) (cur e : Str) (val : Str → Bool) : Str × List Cb :=
  tryRows val [Cb.noTransition] cur (rowsFor t cur e)

/-- C# flavour: pairs the table does not fire for are ignored -/
def stepRefSilent (t : List Row) (cur e : Str) (val : Str → Bool) : Str × List Cb :=
  tryRows val [] cur (rowsFor t cur e)

/-- a sequence of events, each with its own valuation -/
def runRef (t : List Row) : Str → List (Str × (Str → Bool)) → Str × List Cb
  | cur, [] => (cur, [])
  | cur, (e, val) :: rest =>
    let r := stepRef t cur e val
    let r' := runRef t r.1 rest
    (r'.1, r.2 ++ r'.2)

/-! ### the table model of smgen (`CTransitionTableModel`) -/

/-- append if not yet present (insertion-ordered set) -/
def addUniq (l : List Str) (x : Str) : List Str := if l.contains x then l else l ++ [x]

/-- `states`: first appearance over (start, next) of each line -/
def statesStep (acc : List Str) (r : Row) : List Str :=
  match r.next with
  | some n => addUniq (addUniq acc r.src) n
  | none => addUniq acc r.src

def states (t : List Row) : List Str := t.foldl statesStep []

def events (t : List Row) : List Str := (t.filter (fun r => !r.noEv)).foldl (fun acc r => addUniq acc r.ev) []
def actionsStep (acc : List Str) (r : Row) : List Str :=
  match r.action with | some a => addUniq acc a | none => acc
def actions (t : List Row) : List Str := t.foldl actionsStep []

def guardsStep (acc : List Str) (r : Row) : List Str :=
  match r.guard with | some g => addUniq acc g | none => acc
def guards (t : List Row) : List Str := t.foldl guardsStep []

def sigsStep (acc : List (Str × Str)) (r : Row) : List (Str × Str) :=
  match r.action with
  | some a => if acc.contains (a, r.ev) then acc else acc ++ [(a, r.ev)]
  | none => acc

/-- `actionsignatures`: first appearance of each (action, event) pair (fix dc67ed2) -/
def actionSigs (t : List Row) : List (Str × Str) := t.foldl sigsStep []

/-- states that start at least one row, in first-appearance order -/
def sourceStates (t : List Row) : List Str := t.foldl (fun acc r => addUniq acc r.src) []

/-- `transitionsperstate` after fix 9066068: source states first, then target-only states -/
def perStateKeys (t : List Row) : List Str :=
  sourceStates t ++ (states t).filter (fun s => !(sourceStates t).contains s)

/-- events of a state in first-appearance order -/
def eventsOf (t : List Row) (s : Str) : List Str :=
  (t.filter (fun r => !r.noEv && r.src == s)).foldl (fun acc r => addUniq acc r.ev) []

def initial (t : List Row) : Option Str := t.head?.map (·.src)

end Table
end KojenVerif
