import KojenVerif.Basic.Str
/-
  Which types a generated C++ header needs complete and which it may forward declare
  (`Class.GetNotForwardDeclarableNonPrimitiveTypesLinkedToThis` / `GetForwardDeclarable…`, after fix
  14b3b42).  Sets are modelled as lists; `prim`, `ptr` and `enum` are the answers of `IsTypePrimitive`,
  `IsTypePointerOrRef` and `IsEnumerationOfDiagram`, passed in.
-/
namespace KojenVerif
namespace UmlTypes
open Str

/-- a typed position of a class: attribute, parameter or return value -/
structure Use where
  type : Str
  modifier : Str
  deriving DecidableEq, Repr

/-- what the two functions look at -/
structure Cls where
  /-- `CLASS_FROM` of the inheritance relations whose `CLASS_TO` is this class -/
  bases : List Str
  attrs : List Use
  /-- per operation: parameters, then the return type -/
  ops : List (List Use × Use)
  /-- `CLASS_TO` of the compositions starting here -/
  compositions : List Str
  /-- the other end of plain associations (either direction), `CLASS_TO` of aggregations starting here -/
  pointers : List Str
  deriving Repr

/-- every attribute, parameter and return position -/
def Cls.uses (c : Cls) : List Use := c.attrs ++ (c.ops.map (fun o => o.1 ++ [o.2])).flatten

def byValue (ptr : Str → Bool) (enum : Str → Bool) (u : Use) : Bool := !ptr u.modifier || enum u.type

/-- the types the header includes -/
def notFwd (prim ptr enum : Str → Bool) (c : Cls) : List Str :=
  c.bases.filter (fun t => !prim t) ++
  (c.uses.filter (fun u => !prim u.type && byValue ptr enum u)).map (·.type) ++
  c.compositions.filter (fun t => !prim t)

/-- the types the header forward declares (and the source file includes) -/
def fwd (prim ptr enum : Str → Bool) (c : Cls) : List Str :=
  let value := (c.uses.filter (fun u => !prim u.type && byValue ptr enum u)).map (·.type)
  ((c.uses.filter (fun u => !prim u.type && !byValue ptr enum u)).map (·.type) ++ c.pointers.filter (fun t => !prim t)).filter
    (fun t => !value.contains t)

/-- every type the class mentions -/
def mentioned (c : Cls) : List Str := c.bases ++ c.uses.map (·.type) ++ c.compositions ++ c.pointers

/-- **every non-primitive type a class mentions is included or forward declared** -/
theorem declared_before_use (prim ptr enum : Str → Bool) (c : Cls) (t : Str) (ht : t ∈ mentioned c) (hp : prim t = false) :
    t ∈ notFwd prim ptr enum c ∨ t ∈ fwd prim ptr enum c := by
  simp only [mentioned, List.mem_append, List.mem_map] at ht
  rcases ht with ((hb | ⟨u, hu, rfl⟩) | hc) | hptr
  · left
    simp only [notFwd, List.mem_append, List.mem_filter]
    exact Or.inl (Or.inl ⟨hb, by simp [hp]⟩)
  · by_cases hv : byValue ptr enum u = true
    · left
      simp only [notFwd, List.mem_append, List.mem_map, List.mem_filter]
      exact Or.inl (Or.inr ⟨u, ⟨hu, by simp [hp, hv]⟩, rfl⟩)
    · have hv' : byValue ptr enum u = false := by simpa using hv
      by_cases hin : ((c.uses.filter (fun w => !prim w.type && byValue ptr enum w)).map (·.type)).contains u.type = true
      · left
        have : u.type ∈ (c.uses.filter (fun w => !prim w.type && byValue ptr enum w)).map (·.type) := by simpa using hin
        simp only [notFwd, List.mem_append]
        exact Or.inl (Or.inr this)
      · right
        simp only [fwd, List.mem_filter, List.mem_append, List.mem_map]
        refine ⟨Or.inl ⟨u, ⟨hu, by simp [hp, hv']⟩, rfl⟩, by simpa using hin⟩
  · left
    simp only [notFwd, List.mem_append, List.mem_filter]
    exact Or.inr ⟨hc, by simp [hp]⟩
  · by_cases hin : ((c.uses.filter (fun w => !prim w.type && byValue ptr enum w)).map (·.type)).contains t = true
    · left
      have : t ∈ (c.uses.filter (fun w => !prim w.type && byValue ptr enum w)).map (·.type) := by simpa using hin
      simp only [notFwd, List.mem_append]
      exact Or.inl (Or.inr this)
    · right
      simp only [fwd, List.mem_filter, List.mem_append]
      exact ⟨Or.inr ⟨hptr, by simp [hp]⟩, by simpa using hin⟩

/-- a type the header forward declares is never an enumeration (fix 14b3b42) and is not also included
    because of a by-value use -/
theorem fwd_not_enum_by_use (prim ptr enum : Str → Bool) (c : Cls) (t : Str) (h : t ∈ fwd prim ptr enum c) :
    (∃ u ∈ c.uses, u.type = t ∧ enum t = false ∧ ptr u.modifier = true) ∨ t ∈ c.pointers := by
  simp only [fwd, List.mem_filter, List.mem_append, List.mem_map] at h
  rcases h.1 with ⟨u, hu, rfl⟩ | hp
  · left
    refine ⟨u, hu.1, rfl, ?_⟩
    have := hu.2
    simp only [byValue, Bool.and_eq_true, Bool.not_eq_true', Bool.or_eq_false_iff] at this
    exact ⟨this.2.2, by simpa using this.2.1⟩
  · exact Or.inr hp.1

end UmlTypes
end KojenVerif
