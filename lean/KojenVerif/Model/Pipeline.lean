import KojenVerif.Model.Preserv
import KojenVerif.Basic.Path
import KojenVerif.Generated.Facts
/-
  String-level instantiation of the preservation model and the generators' common back
  half: `CGenerator.preserve_usercode_in_files` (cgen.py) followed by
  `CGenerator.createoutput`, over a world of text files addressed by absolute normalised
  paths.  The front half (template expansion) enters as the already expanded code model
  `fresh`, exactly as in the Python (`cm` is complete before the first old file is read).
-/
namespace KojenVerif
open Str

/-- `preservative.CleanUpLine`, chain regenerated from the source -/
def cleanUp (s : Str) : Str := applyChain Generated.cleanChain s

/-- `line.find(self._TAG_PREFIX_) > -1` -/
def isUserTag (s : Str) : Bool := contains Generated.userPrefix s

def strCfg : Cfg Str Str where
  isTag := isUserTag
  key := cleanUp
  keep := fun tl l => isUserTag l && contains (cleanUp l) tl && contains Generated.userPrefix (cleanUp l)

/-- text-mode iteration over a file: lines keep their `\n`; a last line without one is kept -/
def splitLinesAux : Str → Str → List Str
  | [], cur => if cur.isEmpty then [] else [cur.reverse]
  | c :: cs, cur =>
    if c == NL then (c :: cur).reverse :: splitLinesAux cs []
    else splitLinesAux cs (c :: cur)

def splitLines (s : Str) : List Str := splitLinesAux s []

/-- ordered dictionary with Python's assignment semantics -/
abbrev ODict (V : Type) := List (Str × V)

namespace ODict
variable {V : Type}
def get? : ODict V → Str → Option V
  | [], _ => none
  | (k', v) :: t, k => if k' = k then some v else get? t k
def set : ODict V → Str → V → ODict V
  | [], k, v => [(k, v)]
  | (k', v') :: t, k, v => if k' = k then (k', v) :: t else (k', v') :: set t k v
def keys (d : ODict V) : List Str := d.map (·.1)
/-- `dict.update(other)` -/
def update (d other : ODict V) : ODict V := other.foldl (fun acc kv => set acc kv.1 kv.2) d
end ODict

abbrev CodeModel := ODict (List Str)

structure World where
  cwd : Str
  /-- absolute normalised path ↦ decoded content -/
  files : ODict Str

def World.read (w : World) (p : Str) : Option Str := ODict.get? w.files (Path.abspath w.cwd p)
def World.write (w : World) (p : Str) (content : Str) : World :=
  { w with files := ODict.set w.files (Path.abspath w.cwd p) content }

def lostSuffix : Str := ofString ".LostCode.txt"
def lostSeparator : Str := ofString "---------------------------------------------\n"

/-- the lines `Emplace` l.189–194 appends for one lost (tag, body) -/
def lostLines (outputfile tag : Str) (body : List Str) : List Str :=
  [outputfile ++ [NL], tag ++ [NL]] ++ body.map (· ++ [NL]) ++ [tag ++ [NL], lostSeparator]

/-- `Preservative(path)` + `Emplace(own_file)` for `own_file = {fn: lines}`:
    the resulting `own_file` dictionary. -/
def emplaceOwn (w : World) (path fn : Str) (lines : List Str) : CodeModel :=
  match w.read path with
  | none => [(fn, lines)]                       -- nothing to preserve
  | some content =>
    let tags := collect strCfg (splitLines content)
    -- l.163 `outputfile.find(fn) > -1`
    let hit := contains fn path
    let newLines := if hit then emplace strCfg tags lines else lines
    let usedKeys := if hit then used strCfg tags lines else []
    let lost := lostEntries tags usedKeys
    let own : CodeModel := [(fn, newLines)]
    if lost.isEmpty then own
    else
      let key := Path.abspath w.cwd path ++ lostSuffix
      own ++ [(key, (lost.map (fun kb => lostLines (Path.abspath w.cwd path) kb.1 kb.2)).flatten)]

/-- `preserve_usercode_in_files(codemodel)` (preserve_dir = "") -/
def preservePass (w : World) (outdir : Str) (cm : CodeModel) : CodeModel :=
  (ODict.keys cm).foldl
    (fun acc fn =>
      match ODict.get? acc fn with
      | none => acc
      | some lines => ODict.update acc (emplaceOwn w (Path.join outdir fn) fn lines))
    cm

/-- bytes written for one code-model entry: TAB filter, concatenation -/
def outputContent (lines : List Str) : Str := (lines.map expandTabs).flatten

/-- `createoutput`: every key joined onto the output directory, written in order -/
def createOutput (w : World) (outdir : Str) (cm : CodeModel) : World × List Str :=
  (cm.foldl (fun acc kv => acc.write (Path.join outdir kv.1) (outputContent kv.2)) w, ODict.keys cm)

/-- one whole generation run behind the expansion: preserve, then write -/
def regen (w : World) (outdir : Str) (fresh : CodeModel) : World × List Str :=
  createOutput w outdir (preservePass w outdir fresh)

/-! ### FileSync (`cgen.FilePreservationSyncUtil`) -/

/-- returns the new content of `fileTo`; `none` when either file is missing (the utility
    aborts without touching anything) -/
def fileSync (w : World) (fileFrom fileTo : Str) : Option Str :=
  match w.read fileFrom, w.read fileTo with
  | some a, some b =>
    let tags := collect strCfg (splitLines a)
    some ((emplaceReplace strCfg tags (splitLines b)).flatten)
  | _, _ => none

def fileSyncWorld (w : World) (fileFrom fileTo : Str) : World :=
  match fileSync w fileFrom fileTo with
  | some c => w.write fileTo c
  | none => w

end KojenVerif
