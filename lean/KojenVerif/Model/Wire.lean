import KojenVerif.Model.Conn
/-
  Wire model of the protocol generator: packed layout of generated structs / messages,
  rendering of factory default arguments (`LanguageCPP.GetFactoryCreateParams` /
  `_processDefaults`), C++ aggregate initialisation of those defaults, the message header
  written by the generated factories (`InstantiateStructWithAggregateInitializer`).
  Field values are byte images (little-endian for integers, IEEE for float/double — the
  harness supplies them), so the theorems are about *placement*, at any nesting depth.
-/
namespace KojenVerif
namespace Wire

abbrev Bytes := List Nat

/-- a member of a generated struct: a primitive of `size` bytes with an optional declared
    default (its byte image), or a nested struct -/
inductive Fld where
  | prim (size : Nat) (dflt : Option Bytes)
  | nested (fields : List Fld)

mutual
  /-- `sizeof` under `__attribute__((packed))`: the sum of the member sizes -/
  def Fld.size : Fld → Nat
    | .prim n _ => n
    | .nested fs => sizeList fs
  def sizeList : List Fld → Nat
    | [] => 0
    | f :: fs => f.size + sizeList fs
end

/-- offsets of the members of a packed struct: declaration order, no padding -/
def offsets : List Fld → Nat → List Nat
  | [], _ => []
  | f :: fs, off => off :: offsets fs (off + f.size)

def zeros (n : Nat) : Bytes := List.replicate n 0

mutual
  /-- the value the interface *declares*: default where given, zero elsewhere, any depth -/
  def Fld.declared : Fld → Bytes
    | .prim n none => zeros n
    | .prim _ (some img) => img
    | .nested fs => declaredList fs
  def declaredList : List Fld → Bytes
    | [] => []
    | f :: fs => f.declared ++ declaredList fs
end

/-- the default argument text the generator renders, as a tree:
    `3` / `{}` / `{a,b,{c,{}}}` -/
inductive Agg where
  | val (img : Bytes)
  | zero
  | list (items : List Agg)

mutual
  /-- `_processDefaults` (LanguageCPP.py) -/
  def Fld.render : Fld → Agg
    | .prim _ (some img) => .val img
    | .prim _ none => .zero
    | .nested [] => .zero
    | .nested (f :: fs) => .list (f.render :: renderList fs)
  def renderList : List Fld → List Agg
    | [] => []
    | f :: fs => f.render :: renderList fs
end

mutual
  /-- C++ aggregate initialisation of a member of the given layout from an initialiser:
      `{}` value-initialises (zero), a braced list initialises members in declaration order,
      members without initialiser are zero -/
  def Fld.init : Fld → Agg → Bytes
    | .prim n _, .val img => if img.length = n then img else zeros n
    | .prim n _, _ => zeros n
    | .nested fs, .list items => initList fs items
    | .nested fs, _ => zeros (sizeList fs)
  def initList : List Fld → List Agg → Bytes
    | [], _ => []
    | f :: fs, [] => zeros f.size ++ initList fs []
    | f :: fs, a :: as => f.init a ++ initList fs as
end

mutual
  /-- every declared default image has the size of its member -/
  def Fld.WF : Fld → Prop
    | .prim n (some img) => img.length = n
    | .prim _ none => True
    | .nested fs => WFList fs
  def WFList : List Fld → Prop
    | [] => True
    | f :: fs => f.WF ∧ WFList fs
end

def le16 (n : Nat) : Bytes := [n % 256, n / 256 % 256]
def le32 (n : Nat) : Bytes := [n % 256, n / 256 % 256, n / 65536 % 256, n / 16777216 % 256]

/-- a generated message: header {preamble, type id, sizeof(msg) - sizeof(header)} + payload -/
structure Msg where
  preamble : Nat
  typeId : Nat
  payload : List Fld

def Msg.size (m : Msg) : Nat := 8 + sizeList m.payload

/-- bytes of `Create<Msg>()` called without arguments -/
def Msg.factoryDefault (m : Msg) : Bytes :=
  le16 m.preamble ++ le16 m.typeId ++ le32 (m.size - 8) ++ initList m.payload (renderList m.payload)

/-- bytes of `Create<Msg>(args…)`: argument i (named like member i) lands in member i -/
def Msg.factoryWith (m : Msg) (args : List Bytes) : Bytes :=
  le16 m.preamble ++ le16 m.typeId ++ le32 (m.size - 8) ++ args.flatten

end Wire
end KojenVerif
