import KojenVerif.Lemmas.Regen
import KojenVerif.Props.C01
/-
  C02 — model evolution: surviving tags keep their code, the rest follows the new model.

  `F₀` is the fresh expansion the old file was generated from, `B` the user text in it,
  `F₁` the fresh expansion of the *new* model.  No relation between `F₀` and `F₁` is assumed
  (rows / states / events / members added, removed, renamed, reordered: all are just a
  different `F₁`).  The expansion of the new model is an *input* of the preservation pass
  (`Model/Pipeline.regen` takes `fresh`), so it cannot depend on the old files.
  Since fix 404b694 (only lines carrying the prefix are tag lines for Emplace) no side
  condition relating the two models is needed.
-/
namespace KojenVerif.C02
variable {L K : Type} [DecidableEq K]

/-- **Commuting diagram.** The regenerated file is the fresh file of the new model with the
    old body re-inserted directly under every tag both have; nothing else. -/
theorem C02_commuting_diagram (c : Cfg L K) (norm : L → L) (hn : NormOK c norm)
    (B : K → List L) (hB : UserOK c B) (F₀ F₁ : List (Item L))
    (hF₀ : FreshDoc c norm F₀) (hF₁ : FreshDoc c norm F₁) :
    regenLines c norm (render F₁) (render (onDisk c norm B F₀))
      = render (onDisk c norm (carry c norm B F₀) F₁) :=
  regen_two c norm hn B hB F₀ F₁ hF₀ hF₁

/-- the generated text of an item, bodies removed -/
def Item.frame : Item L → Item L
  | .text l => .text l
  | .block o cl _ => .block o cl []

/-- Generated text outside tag pairs never depends on the old model or on user blocks: the
    frame of the regenerated file is the (filtered) frame of the new expansion, whatever
    `B` and `F₀` were. -/
theorem C02_outside_text_independent (c : Cfg L K) (norm : L → L) (B' : K → List L)
    (F₁ : List (Item L)) :
    (onDisk c norm B' F₁).map Item.frame = (F₁.map (Item.mapLines norm)).map Item.frame := by
  unfold onDisk
  simp only [List.map_map]
  apply List.map_congr_left
  intro it _
  cases it <;> simp [Item.edit, Item.mapLines, Item.frame]

/-- A user block is attached to the tag of its own name only: the blocks of the result are
    `(k, old body of k)` for the keys of the new file — the old body if the old file had
    tag `k`, empty otherwise. -/
theorem C02_no_foreign_attachment (c : Cfg L K) (norm : L → L) (B : K → List L)
    (F₀ F₁ : List (Item L)) (hF₁ : FreshDoc c norm F₁) :
    blocksOf c (onDisk c norm (carry c norm B F₀) F₁)
      = (blockKeys c F₁).map (fun k => (k, if k ∈ blockKeys c F₀ then (B k).map norm else [])) := by
  have := (C01.C01_each_block_once_in_order c norm (carry c norm B F₀) F₁ hF₁).1
  simpa [carry] using this

/-! ### chains of models -/

/-- state after each generation: (user bodies on disk, expansion the disk file came from) -/
def chainStep (c : Cfg L K) (norm : L → L) (st : (K → List L) × List (Item L)) (F' : List (Item L)) :
    (K → List L) × List (Item L) := (carry c norm st.1 st.2, F')


theorem userOK_carry (c : Cfg L K) (norm : L → L) (hn : NormOK c norm) (B : K → List L)
    (hB : UserOK c B) (F : List (Item L)) : UserOK c (carry c norm B F) := by
  intro k x hx
  unfold carry at hx
  split at hx
  · simp only [List.mem_map] at hx
    obtain ⟨y, hy, rfl⟩ := hx
    rw [hn.tag]; exact hB k y hy
  · cases hx

/-- **Chains.** Any sequence of models: the directory after the last generation is the fresh
    file of the last model filled with the bodies carried along the chain. -/
theorem C02_chain (c : Cfg L K) (norm : L → L) (hn : NormOK c norm)
    (Fs : List (List (Item L))) (B : K → List L) (hB : UserOK c B) (F₀ : List (Item L))
    (hF₀ : FreshDoc c norm F₀) (hch : ∀ F ∈ Fs, FreshDoc c norm F) :
    Fs.foldl (fun disk F => regenLines c norm (render F) disk) (render (onDisk c norm B F₀))
      = render (onDisk c norm (Fs.foldl (chainStep c norm) (B, F₀)).1
                               (Fs.foldl (chainStep c norm) (B, F₀)).2) := by
  induction Fs generalizing B F₀ with
  | nil => simp
  | cons F' Fs ih =>
    have hF' := hch F' (by simp)
    simp only [List.foldl_cons]
    rw [regen_two c norm hn B hB F₀ F' hF₀ hF']
    exact ih (carry c norm B F₀) (userOK_carry c norm hn B hB F₀) F' hF' (fun F hF => hch F (by simp [hF]))

/-- closed form of the carried body after a chain `F₀ → F₁ → … → Fₙ` (n ≥ 1): the original
    text (in output form) iff the tag existed in **every** earlier model `F₀ … Fₙ₋₁`;
    a tag that vanished once comes back empty. -/
theorem C02_chain_body (c : Cfg L K) (norm : L → L) (hn : NormOK c norm)
    (Fs : List (List (Item L))) (F' : List (Item L)) (B : K → List L) (F₀ : List (Item L)) (k : K) :
    ((Fs ++ [F']).foldl (chainStep c norm) (B, F₀)).1 k
      = if k ∈ blockKeys c F₀ ∧ ∀ F ∈ Fs, k ∈ blockKeys c F then (B k).map norm else [] := by
  induction Fs generalizing B F₀ with
  | nil => simp [chainStep, carry]
  | cons G Fs ih =>
    simp only [List.cons_append, List.foldl_cons]
    rw [show chainStep c norm (B, F₀) G = (carry c norm B F₀, G) from rfl, ih]
    have hcomp : List.map norm (List.map norm (B k)) = List.map norm (B k) := by
      rw [List.map_map]; apply List.map_congr_left; intro x _; exact hn.idem x
    by_cases hall : k ∈ blockKeys c F₀ ∧ ∀ F ∈ G :: Fs, k ∈ blockKeys c F
    · have hG : k ∈ blockKeys c G := hall.2 G (by simp)
      have hr : ∀ F ∈ Fs, k ∈ blockKeys c F := fun F hF => hall.2 F (by simp [hF])
      rw [if_pos ⟨hG, hr⟩, if_pos hall]
      simp only [carry, hall.1, if_true, hcomp]
    · rw [if_neg hall]
      by_cases hG : k ∈ blockKeys c G ∧ ∀ F ∈ Fs, k ∈ blockKeys c F
      · rw [if_pos hG]
        have h0 : k ∉ blockKeys c F₀ := by
          intro h0
          apply hall
          refine ⟨h0, ?_⟩
          intro F hF
          simp only [List.mem_cons] at hF
          rcases hF with rfl | hF
          · exact hG.1
          · exact hG.2 F hF
        simp [carry, h0]
      · rw [if_neg hG]

/-! non-vacuity: the C01 example file evolved into a model that drops tag A and adds tag C -/
section Example
open Str
def exF1 : List (Item Str) :=
  [.text (ofString "#include <y>\n"),
   .block (ofString "// {{{USER_B_on_entry}}}\n") (ofString "// {{{USER_B_on_entry}}}\n") [],
   .block (ofString "    # {{{USER_C}}}\n") (ofString "    # {{{USER_C}}}\n") []]
example : FreshDoc strCfg expandTabs exF1 := freshDocB_sound exF1 (by decide +kernel)
end Example

end KojenVerif.C02
