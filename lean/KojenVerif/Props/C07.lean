import KojenVerif.Lemmas.DocCheck
import KojenVerif.Lemmas.Table
import KojenVerif.Props.C01
import KojenVerif.Model.Engine
import KojenVerif.Generated.Templates
/-
  C07 — outputs stay re-preservable: tags fully expanded, USER tags paired and unique.

  What is decided by proof: (1) the acceptance check the driver runs on every generated file
  (`wfFresh`: the file parses into text lines and empty tag pairs with equal, TAB-stable,
  pairwise distinct keys; `noGenTag`: `re.findall(r'<<<([^<>]*)>>>')` finds nothing on any
  line) implies that the file can serve as input to the next regeneration without ambiguity —
  whatever the user writes between the pairs is found again, each block once, under its own
  tag, and the regenerated file is a fixed point; (2) the naming schemes the shipped templates
  use for tags inside per-element blocks are injective: one tag template instantiated at the
  distinct elements of a model list gives distinct keys; `<action>_<event>` keys of distinct
  pairs are distinct when action names contain no '_' (the defect class of fix dc67ed2); a
  key built from an underscore-free name never equals a key with a `_suffix`.
  What is decided by running the real generators: that *every* file they produce, over the
  model classes of the property, is accepted by that check (a universally quantified claim
  over the template sets, which contain tags the engine model does not cover: partial).
-/
namespace KojenVerif.C07
open Str

/-- no unexpanded generator tag on any line: `tag_pattern.findall` (the engine's own scanner,
    validated against Python's `re` every run) finds nothing -/
def noGenTag (ls : List Str) : Bool := ls.all (fun l => !Engine.hasTag l)

theorem C07_no_gentag (ls : List Str) (h : noGenTag ls = true) : ∀ l ∈ ls, Engine.tagBodies l = [] := by
  intro l hl
  simp only [noGenTag, List.all_eq_true, Bool.not_eq_true'] at h
  have := h l hl
  simpa [Engine.hasTag] using this

/-- **An accepted file is re-preservable.** It is the rendering of a document of text lines
    and empty tag pairs with pairwise distinct keys; for every user text `B` placed between
    the pairs (no line of it carrying the tag prefix) the collected table returns exactly
    `(key, B key)` for every pair, in file order, and regenerating over the edited file gives
    the edited file back (after the TAB filter). -/
theorem C07_accepted_is_represervable (ls : List Str) (h : wfFresh ls = true) :
    ∃ F, render F = ls ∧ (blockKeys strCfg F).Nodup ∧
      ∀ (B : Str → List Str), UserOK strCfg B →
        blocksOf strCfg (onDisk strCfg expandTabs B F) = (blockKeys strCfg F).map (fun k => (k, B k)) ∧
        ((∀ k, (B k).map expandTabs = B k) →
          regenLines strCfg expandTabs (render F) (render (onDisk strCfg expandTabs B F))
            = render (onDisk strCfg expandTabs B F)) := by
  obtain ⟨F, hF, hr⟩ := wfFresh_sound ls h
  refine ⟨F, hr, hF.nodup, ?_⟩
  intro B hB
  exact ⟨(C01.C01_each_block_once_in_order strCfg expandTabs B F hF).1,
         fun hBn => C01.C01_fixed_point_str B hB hBn F hF⟩

/-! ### the naming schemes of per-element tags -/

/-- a tag template with one name: `pre ++ name ++ post` -/
def inst1 (pre post n : Str) : Str := pre ++ n ++ post

theorem C07_same_template_injective (pre post n n' : Str) (h : inst1 pre post n = inst1 pre post n') : n = n' := by
  unfold inst1 at h
  have := List.append_cancel_left (by simpa [List.append_assoc] using h : pre ++ (n ++ post) = pre ++ (n' ++ post))
  exact List.append_cancel_right this

/-- one template over a duplicate-free element list gives pairwise distinct keys -/
theorem C07_block_keys_distinct (pre post : Str) (items : List Str) (h : items.Nodup) :
    (items.map (inst1 pre post)).Nodup := by
  unfold List.Nodup at h ⊢
  apply List.Pairwise.map _ _ h
  intro a b hab hf
  exact hab (C07_same_template_injective pre post a b hf)

/-- the element lists of a table have no duplicates -/
theorem C07_elements_nodup (t : List Table.Row) :
    (Table.states t).Nodup ∧ (Table.events t).Nodup ∧ (Table.actions t).Nodup ∧ (Table.guards t).Nodup := by
  refine ⟨?_, ?_, ?_, ?_⟩
  · unfold Table.states
    have : ∀ (rows : List Table.Row) (init : List Str), init.Nodup → (rows.foldl Table.statesStep init).Nodup := by
      intro rows
      induction rows with
      | nil => intro init h; exact h
      | cons r rows ih =>
        intro init h
        apply ih
        unfold Table.statesStep
        cases r.next with
        | none => exact Table.nodup_addUniq _ _ h
        | some n => exact Table.nodup_addUniq _ _ (Table.nodup_addUniq _ _ h)
    exact this t [] List.nodup_nil
  · exact Table.nodup_foldl_addUniq (·.ev) _ [] List.nodup_nil
  · unfold Table.actions
    have : ∀ (rows : List Table.Row) (init : List Str), init.Nodup → (rows.foldl Table.actionsStep init).Nodup := by
      intro rows
      induction rows with
      | nil => intro init h; exact h
      | cons r rows ih =>
        intro init h
        apply ih
        unfold Table.actionsStep
        cases r.action with
        | none => exact h
        | some a => exact Table.nodup_addUniq _ _ h
    exact this t [] List.nodup_nil
  · unfold Table.guards
    have : ∀ (rows : List Table.Row) (init : List Str), init.Nodup → (rows.foldl Table.guardsStep init).Nodup := by
      intro rows
      induction rows with
      | nil => intro init h; exact h
      | cons r rows ih =>
        intro init h
        apply ih
        unfold Table.guardsStep
        cases r.guard with
        | none => exact h
        | some g => exact Table.nodup_addUniq _ _ h
    exact this t [] List.nodup_nil

def US : Nat := 95

theorem split_at_first_underscore (a a' e e' : Str) (ha : US ∉ a) (ha' : US ∉ a')
    (h : a ++ [US] ++ e = a' ++ [US] ++ e') : a = a' ∧ e = e' := by
  induction a generalizing a' with
  | nil =>
    cases a' with
    | nil => simpa using h
    | cons c a' =>
      simp only [List.nil_append, List.cons_append, List.cons.injEq] at h
      exact absurd h.1.symm (fun e => ha' (by rw [e]; simp))
  | cons c a ih =>
    cases a' with
    | nil =>
      simp only [List.nil_append, List.cons_append, List.cons.injEq] at h
      exact absurd h.1 (fun e => ha (by rw [e]; simp))
    | cons d a' =>
      simp only [List.cons_append, List.cons.injEq] at h
      have := ih a' (fun m => ha (by simp [m])) (fun m => ha' (by simp [m])) (by simpa using h.2)
      exact ⟨by rw [h.1, this.1], this.2⟩

/-- **`<action>_<event>` keys** of distinct pairs are distinct when action names carry no '_' -/
theorem C07_action_event_keys (pre post a a' e e' : Str) (ha : US ∉ a) (ha' : US ∉ a')
    (h : pre ++ (a ++ [US] ++ e) ++ post = pre ++ (a' ++ [US] ++ e') ++ post) : a = a' ∧ e = e' := by
  have h1 := List.append_cancel_left (by simpa [List.append_assoc] using h :
    pre ++ ((a ++ [US] ++ e) ++ post) = pre ++ ((a' ++ [US] ++ e') ++ post))
  exact split_at_first_underscore a a' e e' ha ha' (List.append_cancel_right h1)

/-- a key built from an underscore-free name is never a key with a `_suffix` on another name
    (`USER_<guard>` against `USER_<state>_on_exit`, `USER_<action>_<event>`, …) -/
theorem C07_plain_vs_suffixed (pre x s suffix : Str) (hx : US ∉ x) : pre ++ x ≠ pre ++ (s ++ [US] ++ suffix) := by
  intro h
  have := List.append_cancel_left h
  exact hx (by rw [this]; simp)

/-! non-vacuity -/
section Example
def exFile : List Str :=
  [Engine.T "class X {\n", Engine.T "  /// {{{USER_Idle_on_entry}}}\n", Engine.T "  /// {{{USER_Idle_on_entry}}}\n",
   Engine.T "\t// {{{USER_MEMBERS}}}\n", Engine.T "\t// {{{USER_MEMBERS}}}\n", Engine.T "}\n"]
example : wfFresh exFile = true ∧ noGenTag exFile = true := by decide
example : wfFresh (exFile ++ [Engine.T "/// {{{USER_MEMBERS}}}\n", Engine.T "/// {{{USER_MEMBERS}}}\n"]) = false := by decide
example : noGenTag [Engine.T "x <<<STATENAME>>>\n"] = false := by decide
end Example

/-! ## whole-file uniqueness of the per-element tags -/
/-
  C07, continued — **whole-file uniqueness of the per-element USER tags, for every model.**

  `Props/C07.lean` shows that one tag template over a duplicate-free element list gives distinct
  keys and that two particular families do not meet.  This file puts the families of one generated
  state-machine file together: the keys of a file are

      others  ++  USER_<guard>  ++  USER_<state>_<r> (r in a fixed list R of hook suffixes:
                                     on_entry, on_exit, DEFERRED_EVENTS)  ++  USER_<action>_<event>

  and `C07_file_keys_nodup` proves them pairwise distinct for *every* transition table whose guard,
  state and action names carry no '_' and in which no (action, event) pair imitates a hook of a
  state (`action ∈ states → event ∉ R`), given that the other keys of the file (static tags, the
  `On<state>Entry` family) are distinct and differ from the dynamic ones.  The three `example`s
  after it show that each naming hypothesis is needed (concrete colliding names, by evaluation);
  DESIGN 11.6 records them as the naming convention under which C07 is stated.

  `C07_shipped_sm_schemes_classified` ties the theorem to the tree: every USER tag of every
  shipped state-machine template (regenerated into `Generated.Templates` on every run) is of one
  of the classes the theorem covers — static, guard, state + suffix, action + event, or a state
  name wrapped in fixed words — so a template edit that introduces another per-element scheme
  (say `USER_<<<EVENTNAME>>>_<<<STATENAME>>>`) breaks this obligation.
-/

/-- `a_r` -/
def sfx (p : Str × Str) : Str := p.1 ++ [US] ++ p.2

/-- the (name, suffix) pairs of one file: every state with every hook suffix, then the
    (action, event) pairs -/
def derived (S R : List Str) (P : List (Str × Str)) : List (Str × Str) :=
  R.flatMap (fun r => S.map (fun s => (s, r))) ++ P

/-- names (between `USER_` and the end of the key) of the per-element tags of one file -/
def dynNames (G S R : List Str) (P : List (Str × Str)) : List Str := G ++ (derived S R P).map sfx

/-- all keys of one file -/
def fileKeys (pre post : Str) (others G S R : List Str) (P : List (Str × Str)) : List Str :=
  (others ++ dynNames G S R P).map (inst1 pre post)

theorem nodup_map_of_inj_on {α β : Type} (f : α → β) (l : List α) (h : l.Nodup)
    (hf : ∀ a ∈ l, ∀ b ∈ l, f a = f b → a = b) : (l.map f).Nodup := by
  induction l with
  | nil => simp
  | cons a l ih =>
    rw [List.nodup_cons] at h
    rw [List.map_cons, List.nodup_cons]
    refine ⟨?_, ih h.2 (fun x hx y hy => hf x (List.mem_cons_of_mem _ hx) y (List.mem_cons_of_mem _ hy))⟩
    intro hm
    obtain ⟨b, hb, hfb⟩ := List.mem_map.mp hm
    have := hf b (List.mem_cons_of_mem _ hb) a List.mem_cons_self hfb
    exact h.1 (this ▸ hb)

theorem mem_derived_left {S R : List Str} {p : Str × Str}
    (h : p ∈ R.flatMap (fun r => S.map (fun s => (s, r)))) : p.1 ∈ S ∧ p.2 ∈ R := by
  obtain ⟨r, hr, hp⟩ := List.mem_flatMap.mp h
  obtain ⟨s, hs, rfl⟩ := List.mem_map.mp hp
  exact ⟨hs, hr⟩

theorem hooks_nodup (S R : List Str) (hS : S.Nodup) (hR : R.Nodup) :
    (R.flatMap (fun r => S.map (fun s => (s, r)))).Nodup := by
  induction R with
  | nil => simp
  | cons r R ih =>
    rw [List.nodup_cons] at hR
    rw [List.flatMap_cons, List.nodup_append]
    refine ⟨nodup_map_of_inj_on _ S hS (fun a _ b _ h => (Prod.mk.inj h).1), ih hR.2, ?_⟩
    intro a ha b hb hab
    obtain ⟨s, _, rfl⟩ := List.mem_map.mp ha
    have := (mem_derived_left (hab ▸ hb : (s, r) ∈ _)).2
    exact hR.1 this

theorem derived_nodup (S R : List Str) (P : List (Str × Str)) (hS : S.Nodup) (hR : R.Nodup) (hP : P.Nodup)
    (hook : ∀ p ∈ P, p.1 ∈ S → p.2 ∉ R) : (derived S R P).Nodup := by
  unfold derived
  rw [List.nodup_append]
  refine ⟨hooks_nodup S R hS hR, hP, ?_⟩
  intro a ha b hb hab
  have := mem_derived_left ha
  exact hook b hb (hab ▸ this.1) (hab ▸ this.2)

theorem sfx_inj (p q : Str × Str) (hp : US ∉ p.1) (hq : US ∉ q.1) (h : sfx p = sfx q) : p = q := by
  have := split_at_first_underscore p.1 q.1 p.2 q.2 hp hq h
  exact Prod.ext this.1 this.2

/-- **Every model, whole file.** The per-element keys of one generated file are pairwise distinct,
    and distinct from the file's other keys. -/
theorem C07_file_keys_nodup (pre post : Str) (others G S R : List Str) (P : List (Str × Str))
    (hO : others.Nodup) (hG : G.Nodup) (hS : S.Nodup) (hR : R.Nodup) (hP : P.Nodup)
    (uG : ∀ g ∈ G, US ∉ g) (uS : ∀ s ∈ S, US ∉ s) (uP : ∀ p ∈ P, US ∉ p.1)
    (hook : ∀ p ∈ P, p.1 ∈ S → p.2 ∉ R)
    (hOD : ∀ x ∈ others, x ∉ dynNames G S R P) :
    (fileKeys pre post others G S R P).Nodup := by
  unfold fileKeys
  apply nodup_map_of_inj_on _ _ _ (fun a _ b _ h => C07_same_template_injective pre post a b h)
  rw [List.nodup_append]
  refine ⟨hO, ?_, fun a ha b hb hab => hOD a ha (hab ▸ hb)⟩
  unfold dynNames
  rw [List.nodup_append]
  have hu : ∀ p ∈ derived S R P, US ∉ p.1 := by
    intro p hp
    rcases List.mem_append.mp hp with h | h
    · exact uS _ (mem_derived_left h).1
    · exact uP p h
  refine ⟨hG, ?_, ?_⟩
  · exact nodup_map_of_inj_on sfx _ (derived_nodup S R P hS hR hP hook)
      (fun a ha b hb h => sfx_inj a b (hu a ha) (hu b hb) h)
  · intro g hg x hx hgx
    obtain ⟨p, _, rfl⟩ := List.mem_map.mp hx
    apply uG g hg
    rw [hgx]; simp [sfx]

/-- the key sets of the same file under two models: a state/guard/pair present in both keeps its
    key (so C02's "surviving tags keep their code" speaks about the same element) -/
theorem C07_key_stable_across_models (pre post : Str) (G G' S S' R : List Str) (P P' : List (Str × Str))
    (p : Str × Str) (h : p ∈ derived S R P) (h' : p ∈ derived S' R P') :
    inst1 pre post (sfx p) ∈ fileKeys pre post [] G S R P ∧ inst1 pre post (sfx p) ∈ fileKeys pre post [] G' S' R P' := by
  constructor <;> (unfold fileKeys dynNames; simp only [List.nil_append, List.map_append, List.mem_append, List.mem_map])
  · exact Or.inr ⟨sfx p, ⟨p, h, rfl⟩, rfl⟩
  · exact Or.inr ⟨sfx p, ⟨p, h', rfl⟩, rfl⟩

/-! ### each naming hypothesis is needed (concrete collisions, by evaluation) -/
section Needed
def hookR : List Str := [ofString "on_entry", ofString "on_exit", ofString "DEFERRED_EVENTS"]
private def U := ofString "{{{USER_"
/-- a guard named like a derived hook: `Idle_on_exit` -/
example : ¬ (fileKeys U [] [] [ofString "Idle_on_exit"] [ofString "Idle"] hookR []).Nodup := by decide
/-- an action named like a state, on an event named like a hook suffix -/
example : ¬ (fileKeys U [] [] [] [ofString "Idle"] hookR [(ofString "Idle", ofString "on_entry")]).Nodup := by decide
/-- action names with '_' : (Go_Now, Ev) and (Go, Now_Ev) -/
example : ¬ (fileKeys U [] [] [] [] hookR [(ofString "Go_Now", ofString "Ev"), (ofString "Go", ofString "Now_Ev")]).Nodup := by decide
/-- and a model inside the convention: hypotheses met, keys distinct -/
example : (fileKeys U [] [ofString "MEMBERS"] [ofString "IsReady"] [ofString "Idle", ofString "Busy"] hookR
    [(ofString "Go", ofString "Now_Ev"), (ofString "Go", ofString "Ev"), (ofString "Idle", ofString "Ev")]).Nodup := by decide
end Needed

/-! ### the shipped templates use only these schemes -/

inductive Scheme where
  | static | guard | stateSfx (r : Str) | actionEvent | stateWrap (pre post : Str)
  deriving DecidableEq, Repr

def LT3 : Str := [60, 60, 60]
def tGuard : Str := LT3 ++ ofString "GUARDNAME"
def tState : Str := LT3 ++ ofString "STATENAME"
def tActEv : Str := LT3 ++ ofString "ACTIONNAME_" ++ LT3 ++ ofString "EVENTNAME"
def tMachine : Str := LT3 ++ ofString "STATEMACHINENAME"
def tClass : Str := LT3 ++ ofString "CLASSNAME"

/-- class of a cleaned tag name (the text after `{{{USER_` in `CleanUpLine`'s result, where
    `>` and `}` are already gone) -/
def classify (n : Str) : Option Scheme :=
  if !contains LT3 n then some .static
  else if n == tGuard then some .guard
  else if n == tActEv then some .actionEvent
  else if isPrefixB (tState ++ [US]) n then
    let r := n.drop (tState.length + 1)
    if contains LT3 r || r.isEmpty then none else some (.stateSfx r)
  else match find tState n with
    | some (i + 1) =>
      let pre := n.take (i + 1)
      let post := n.drop (i + 1 + tState.length)
      if contains LT3 pre || contains LT3 post || isPrefixB [US] post then none else some (.stateWrap pre post)
    | _ =>
      -- only per-file constants (<<<STATEMACHINENAME>>>, the UML templates' <<<CLASSNAME>>>) : one key per file
      if replaceAll tClass [] (replaceAll tMachine [] n) |> contains LT3 then none else some .static

/-- name part of a template tag line -/
def schemeOf (l : Str) : Str :=
  let k := cleanUp l
  match find Generated.userPrefix k with
  | some i => k.drop (i + Generated.userPrefix.length)
  | none => k

def smTemplateSets : List (List (Str × List Str)) :=
  [Generated.smCpp, Generated.smCppBoost, Generated.smCs, Generated.smPy]

def fileSchemesOK (ls : List Str) : Bool :=
  (ls.filter isUserTag).all (fun l => (classify (schemeOf l)).isSome)

/-- the hook suffixes used with `<<<STATENAME>>>_` anywhere in the shipped templates -/
def usedSuffixes (ls : List Str) : List Str :=
  (ls.filter isUserTag).filterMap (fun l => match classify (schemeOf l) with
    | some (.stateSfx r) => some r | _ => none)

/-- The protocol and class-diagram templates carry static tags only (one key per file; the
    per-operation tags of UML classes are built in `Language*.py`, outside the templates). -/
theorem C07_shipped_other_templates_static :
    [Generated.protoCpp, Generated.umlCpp, Generated.umlCs].all (fun set => set.all (fun f =>
      (f.2.filter isUserTag).all (fun l => classify (schemeOf l) == some .static))) = true := by
  decide +kernel

/-- Every USER tag of every shipped state-machine template falls in a class covered by
    `C07_file_keys_nodup`, and the state suffixes in use are exactly the hook list. -/
theorem C07_shipped_sm_schemes_classified :
    smTemplateSets.all (fun set => set.all (fun f => fileSchemesOK f.2 &&
      (usedSuffixes f.2).all (fun r => hookR.contains r))) = true := by
  decide +kernel

example : classify (schemeOf (ofString "    # {{{USER_<<<STATENAME>>>_on_exit}}}\n")) = some (.stateSfx (ofString "on_exit")) := by decide +kernel
example : classify (schemeOf (ofString "/// {{{USER_On<<<STATENAME>>>Entry}}}\n")) = some (.stateWrap (ofString "On") (ofString "Entry")) := by decide +kernel
example : classify (schemeOf (ofString "/// {{{USER_<<<EVENTNAME>>>_<<<STATENAME>>>}}}\n")) = none := by decide +kernel
example : classify (schemeOf (ofString "/// {{{USER_<<<STATENAME>>><<<EVENTNAME>>>}}}\n")) = none := by decide +kernel


/-! ### static tags against per-element tags -/

def isLowerC (c : Nat) : Bool := 97 ≤ c && c ≤ 122

/-- the remaining hypothesis of `C07_file_keys_nodup`, discharged for the static tags: a key
    without a small letter is none of the per-element keys when every guard, state and action name
    has one (names are written in CamelCase; the shipped static tags are capitals, digits and `_`) -/
theorem C07_static_vs_dynamic (others G S R : List Str) (P : List (Str × Str))
    (hcaps : ∀ x ∈ others, ∀ c ∈ x, isLowerC c = false)
    (lG : ∀ g ∈ G, ∃ c ∈ g, isLowerC c = true) (lS : ∀ s ∈ S, ∃ c ∈ s, isLowerC c = true)
    (lP : ∀ p ∈ P, ∃ c ∈ p.1, isLowerC c = true) :
    ∀ x ∈ others, x ∉ dynNames G S R P := by
  intro x hx hd
  have hno := hcaps x hx
  unfold dynNames at hd
  rcases List.mem_append.mp hd with h | h
  · obtain ⟨c, hc, hl⟩ := lG x h
    rw [hno c hc] at hl; cases hl
  · obtain ⟨p, hp, rfl⟩ := List.mem_map.mp h
    have : ∃ c ∈ p.1, isLowerC c = true := by
      rcases List.mem_append.mp hp with h1 | h1
      · exact lS _ (mem_derived_left h1).1
      · exact lP p h1
    obtain ⟨c, hc, hl⟩ := this
    have hmem : c ∈ sfx p := by simp [sfx, hc]
    rw [hno c hmem] at hl; cases hl

/-- the static USER tags of the shipped state-machine templates carry no small letter -/
theorem C07_shipped_static_tags_caps :
    smTemplateSets.all (fun set => set.all (fun f => (f.2.filter isUserTag).all (fun l =>
      contains LT3 (schemeOf l) || (schemeOf l).all (fun c => !isLowerC c)))) = true := by
  decide +kernel


end KojenVerif.C07
