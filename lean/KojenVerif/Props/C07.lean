import KojenVerif.Lemmas.DocCheck
import KojenVerif.Lemmas.Table
import KojenVerif.Props.C01
import KojenVerif.Model.Engine
/-
  C07 — outputs stay re-preservable: tags fully expanded, USER tags paired and unique.

  What is decided by proof: (1) the acceptance check the driver runs on every generated file
  (`wfFresh`: the file parses into text lines and empty tag pairs with equal, TAB-stable,
  pairwise distinct keys; `noGenTag`: `re.findall(r'<<<([^<>]*)>>>')` finds nothing on any
  line) implies that the file can serve as input to the next regeneration without ambiguity —
  whatever the user writes between the pairs is found again, each block once, under its own
  tag, and the regenerated file is a fixed point; (2) the naming schemes the shipped templates
  use for tags inside per-element blocks are injective: one tag template instantiated at the
  distinct elements of a model list gives distinct keys; `<action>_<event>` keys of distinct
  pairs are distinct when action names contain no '_' (the defect class of fix dc67ed2); a
  key built from an underscore-free name never equals a key with a `_suffix`.
  What is decided by running the real generators: that *every* file they produce, over the
  model classes of the property, is accepted by that check (a universally quantified claim
  over the template sets, which contain tags the engine model does not cover: partial).
-/
namespace KojenVerif.C07
open Str

/-- no unexpanded generator tag on any line: `tag_pattern.findall` (the engine's own scanner,
    validated against Python's `re` every run) finds nothing -/
def noGenTag (ls : List Str) : Bool := ls.all (fun l => !Engine.hasTag l)

theorem C07_no_gentag (ls : List Str) (h : noGenTag ls = true) : ∀ l ∈ ls, Engine.tagBodies l = [] := by
  intro l hl
  simp only [noGenTag, List.all_eq_true, Bool.not_eq_true'] at h
  have := h l hl
  simpa [Engine.hasTag] using this

/-- **An accepted file is re-preservable.** It is the rendering of a document of text lines
    and empty tag pairs with pairwise distinct keys; for every user text `B` placed between
    the pairs (no line of it carrying the tag prefix) the collected table returns exactly
    `(key, B key)` for every pair, in file order, and regenerating over the edited file gives
    the edited file back (after the TAB filter). -/
theorem C07_accepted_is_represervable (ls : List Str) (h : wfFresh ls = true) :
    ∃ F, render F = ls ∧ (blockKeys strCfg F).Nodup ∧
      ∀ (B : Str → List Str), UserOK strCfg B →
        blocksOf strCfg (onDisk strCfg expandTabs B F) = (blockKeys strCfg F).map (fun k => (k, B k)) ∧
        ((∀ k, (B k).map expandTabs = B k) →
          regenLines strCfg expandTabs (render F) (render (onDisk strCfg expandTabs B F))
            = render (onDisk strCfg expandTabs B F)) := by
  obtain ⟨F, hF, hr⟩ := wfFresh_sound ls h
  refine ⟨F, hr, hF.nodup, ?_⟩
  intro B hB
  exact ⟨(C01.C01_each_block_once_in_order strCfg expandTabs B F hF).1,
         fun hBn => C01.C01_fixed_point_str B hB hBn F hF⟩

/-! ### the naming schemes of per-element tags -/

/-- a tag template with one name: `pre ++ name ++ post` -/
def inst1 (pre post n : Str) : Str := pre ++ n ++ post

theorem C07_same_template_injective (pre post n n' : Str) (h : inst1 pre post n = inst1 pre post n') : n = n' := by
  unfold inst1 at h
  have := List.append_cancel_left (by simpa [List.append_assoc] using h : pre ++ (n ++ post) = pre ++ (n' ++ post))
  exact List.append_cancel_right this

/-- one template over a duplicate-free element list gives pairwise distinct keys -/
theorem C07_block_keys_distinct (pre post : Str) (items : List Str) (h : items.Nodup) :
    (items.map (inst1 pre post)).Nodup := by
  unfold List.Nodup at h ⊢
  apply List.Pairwise.map _ _ h
  intro a b hab hf
  exact hab (C07_same_template_injective pre post a b hf)

/-- the element lists of a table have no duplicates -/
theorem C07_elements_nodup (t : List Table.Row) :
    (Table.states t).Nodup ∧ (Table.events t).Nodup ∧ (Table.actions t).Nodup ∧ (Table.guards t).Nodup := by
  refine ⟨?_, ?_, ?_, ?_⟩
  · unfold Table.states
    have : ∀ (rows : List Table.Row) (init : List Str), init.Nodup → (rows.foldl Table.statesStep init).Nodup := by
      intro rows
      induction rows with
      | nil => intro init h; exact h
      | cons r rows ih =>
        intro init h
        apply ih
        unfold Table.statesStep
        cases r.next with
        | none => exact Table.nodup_addUniq _ _ h
        | some n => exact Table.nodup_addUniq _ _ (Table.nodup_addUniq _ _ h)
    exact this t [] List.nodup_nil
  · exact Table.nodup_foldl_addUniq (·.ev) _ [] List.nodup_nil
  · unfold Table.actions
    have : ∀ (rows : List Table.Row) (init : List Str), init.Nodup → (rows.foldl Table.actionsStep init).Nodup := by
      intro rows
      induction rows with
      | nil => intro init h; exact h
      | cons r rows ih =>
        intro init h
        apply ih
        unfold Table.actionsStep
        cases r.action with
        | none => exact h
        | some a => exact Table.nodup_addUniq _ _ h
    exact this t [] List.nodup_nil
  · unfold Table.guards
    have : ∀ (rows : List Table.Row) (init : List Str), init.Nodup → (rows.foldl Table.guardsStep init).Nodup := by
      intro rows
      induction rows with
      | nil => intro init h; exact h
      | cons r rows ih =>
        intro init h
        apply ih
        unfold Table.guardsStep
        cases r.guard with
        | none => exact h
        | some g => exact Table.nodup_addUniq _ _ h
    exact this t [] List.nodup_nil

def US : Nat := 95

theorem split_at_first_underscore (a a' e e' : Str) (ha : US ∉ a) (ha' : US ∉ a')
    (h : a ++ [US] ++ e = a' ++ [US] ++ e') : a = a' ∧ e = e' := by
  induction a generalizing a' with
  | nil =>
    cases a' with
    | nil => simpa using h
    | cons c a' =>
      simp only [List.nil_append, List.cons_append, List.cons.injEq] at h
      exact absurd h.1.symm (fun e => ha' (by rw [e]; simp))
  | cons c a ih =>
    cases a' with
    | nil =>
      simp only [List.nil_append, List.cons_append, List.cons.injEq] at h
      exact absurd h.1 (fun e => ha (by rw [e]; simp))
    | cons d a' =>
      simp only [List.cons_append, List.cons.injEq] at h
      have := ih a' (fun m => ha (by simp [m])) (fun m => ha' (by simp [m])) (by simpa using h.2)
      exact ⟨by rw [h.1, this.1], this.2⟩

/-- **`<action>_<event>` keys** of distinct pairs are distinct when action names carry no '_' -/
theorem C07_action_event_keys (pre post a a' e e' : Str) (ha : US ∉ a) (ha' : US ∉ a')
    (h : pre ++ (a ++ [US] ++ e) ++ post = pre ++ (a' ++ [US] ++ e') ++ post) : a = a' ∧ e = e' := by
  have h1 := List.append_cancel_left (by simpa [List.append_assoc] using h :
    pre ++ ((a ++ [US] ++ e) ++ post) = pre ++ ((a' ++ [US] ++ e') ++ post))
  exact split_at_first_underscore a a' e e' ha ha' (List.append_cancel_right h1)

/-- a key built from an underscore-free name is never a key with a `_suffix` on another name
    (`USER_<guard>` against `USER_<state>_on_exit`, `USER_<action>_<event>`, …) -/
theorem C07_plain_vs_suffixed (pre x s suffix : Str) (hx : US ∉ x) : pre ++ x ≠ pre ++ (s ++ [US] ++ suffix) := by
  intro h
  have := List.append_cancel_left h
  exact hx (by rw [this]; simp)

/-! non-vacuity -/
section Example
def exFile : List Str :=
  [Engine.T "class X {\n", Engine.T "  /// {{{USER_Idle_on_entry}}}\n", Engine.T "  /// {{{USER_Idle_on_entry}}}\n",
   Engine.T "\t// {{{USER_MEMBERS}}}\n", Engine.T "\t// {{{USER_MEMBERS}}}\n", Engine.T "}\n"]
example : wfFresh exFile = true ∧ noGenTag exFile = true := by decide
example : wfFresh (exFile ++ [Engine.T "/// {{{USER_MEMBERS}}}\n", Engine.T "/// {{{USER_MEMBERS}}}\n"]) = false := by decide
example : noGenTag [Engine.T "x <<<STATENAME>>>\n"] = false := by decide
end Example

end KojenVerif.C07
