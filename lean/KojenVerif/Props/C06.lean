import KojenVerif.Lemmas.Order
import KojenVerif.Props.C04
import KojenVerif.Props.C03
import KojenVerif.Generated.Templates
/-
  C06 — generation is deterministic.

  Every source of ambient nondeterminism of the pipeline is an explicit parameter of the
  model: iteration order of Python `set`s (here: an arbitrary permutation of the list of
  type names), directory-listing order of the template folder (= order of the entries of
  the code model), clock and platform (only reachable through the `<<<DATETIME>>>` /
  `<<<PLATFORM>>>` search-and-replace of the first filtering), spelling of the output
  directory and the working directory (the `World`).  The theorems say the result does not
  depend on them.  Interpreter-level facts (hash randomisation itself, `os.walk`) are
  exercised by the subprocess matrix of the check.
-/
namespace KojenVerif.C06
open Str

/-- regenerated fact: every loop over a set of type names iterates `sorted(...)` -/
theorem C06_sites_sorted : Generated.setSitesSorted = true := by decide

/-- order in which the type names reach the include / forward-declaration renderer -/
def includeOrder (names : List Str) : List Str :=
  if Generated.setSitesSorted then sortStr names else names

/-- **Set order.** Whatever order the hash seed gives the set, everything rendered from it
    (include block, forward declarations, project references) is the same. -/
theorem C06_independent_of_set_order {α : Type} (render : List Str → α) (l l' : List Str)
    (h : l.Perm l') : render (includeOrder l) = render (includeOrder l') := by
  unfold includeOrder
  simp only [C06_sites_sorted, if_true]
  rw [sortStr_perm_eq l l' h]

def lookupTag (name : String) : Str :=
  match Generated.cgenTags.find? (fun p => p.1 == ofString name) with
  | some p => p.2
  | none => []

def tagDateTime : Str := lookupTag "__TAG_DATETIME__"
def tagPlatform : Str := lookupTag "__TAG_PLATFORM__"

/-- no shipped template mentions the clock or platform tag (regenerated data) -/
theorem C06_shipped_templates_clock_free :
    Generated.allTemplateSets.all (fun set => set.all (fun f => f.2.all (fun l =>
      !contains tagDateTime l && !contains tagPlatform l))) = true := by
  decide +kernel

/-- **Clock.** On a line that does not mention the tags, the first filtering's
    search-and-replace of `<<<DATETIME>>>` / `<<<PLATFORM>>>` is the identity for every
    time stamp and platform string. -/
theorem C06_no_clock (line now platform : Str)
    (h1 : contains tagDateTime line = false) (h2 : contains tagPlatform line = false) :
    replaceAll tagPlatform platform (replaceAll tagDateTime now line) = line := by
  rw [replaceAll_of_not_contains _ _ _ h1, replaceAll_of_not_contains _ _ _ h2]

theorem ODict.get?_perm {V : Type} (d d' : ODict V) (h : d.Perm d') (hnd : (ODict.keys d).Nodup) (k : Str) :
    ODict.get? d k = ODict.get? d' k := by
  induction h with
  | nil => rfl
  | cons x _ ih =>
    obtain ⟨k0, v0⟩ := x
    simp only [ODict.keys, List.map_cons, List.nodup_cons] at hnd
    simp only [ODict.get?]
    rw [ih (by simpa [ODict.keys] using hnd.2)]
  | swap x y l =>
    obtain ⟨kx, vx⟩ := x
    obtain ⟨ky, vy⟩ := y
    simp only [ODict.keys, List.map_cons, List.nodup_cons, List.mem_cons, not_or] at hnd
    have hne : ky ≠ kx := hnd.1.1
    simp only [ODict.get?]
    by_cases h1 : ky = k
    · subst h1
      have : ¬ kx = ky := fun e => hne e.symm
      simp [this]
    · simp [h1]
  | trans h1 _ ih1 ih2 =>
    rw [ih1 hnd]
    apply ih2
    have := (h1.map (fun p => p.1)).nodup_iff
    simpa [ODict.keys] using this.1 hnd

/-- **Directory-listing order.** Entering the templates in another order (any permutation
    of the code model) gives every generated file the same lines. -/
theorem C06_independent_of_walk_order (w : World) (outdir : Str) (cm cm' : CodeModel)
    (hp : cm.Perm cm') (hnd : (ODict.keys cm).Nodup) (hnc : NoClash w outdir (ODict.keys cm))
    (fn : Str) (lines : List Str) (hfn : ODict.get? cm fn = some lines) :
    ODict.get? (preservePass w outdir cm) fn = ODict.get? (preservePass w outdir cm') fn := by
  have hkeys : (ODict.keys cm).Perm (ODict.keys cm') := by
    unfold ODict.keys; exact hp.map _
  have hnd' : (ODict.keys cm').Nodup := hkeys.nodup_iff.1 hnd
  have hnc' : NoClash w outdir (ODict.keys cm') := by
    intro a ha b hb
    exact hnc a (hkeys.mem_iff.2 ha) b (hkeys.mem_iff.2 hb)
  have hfn' : ODict.get? cm' fn = some lines := by rw [← ODict.get?_perm cm cm' hp hnd fn]; exact hfn
  exact C04.C04_other_expansions_irrelevant w outdir cm cm' hnd hnc hnd' hnc' fn lines hfn hfn'

/-- **Path spelling (LostCode).** The LostCode name is absolute, so it is the same file for
    every spelling of the output directory that resolves to the same place. -/
theorem C06_lostcode_path_absolute (w : World) (outdir outdir' fn : Str) (hc : Path.isAbs w.cwd = true)
    (hsame : Path.abspath w.cwd (Path.join outdir fn) = Path.abspath w.cwd (Path.join outdir' fn)) :
    Path.join outdir (lostKey w (Path.join outdir fn)) = Path.join outdir' (lostKey w (Path.join outdir' fn)) := by
  rw [C03.C03_location w outdir fn hc, C03.C03_location w outdir' fn hc, hsame]

/-! non-vacuity -/
section Example
example : includeOrder [ofString "NS::B", ofString "A"] = includeOrder [ofString "A", ofString "NS::B"] :=
  C06_independent_of_set_order id _ _ (List.Perm.swap _ _ _)
example : leB (ofString "A") (ofString "NS::A") = true ∧ leB (ofString "NS::B") (ofString "NS::A") = false := by decide
example : tagDateTime = ofString "<<<DATETIME>>>" ∧ tagPlatform = ofString "<<<PLATFORM>>>" := by decide +kernel
end Example

end KojenVerif.C06
