import KojenVerif.Lemmas.Vpp
/-
  C20 — state-diagram extraction from a VP project yields exactly the drawn transitions.

  `Vpp` is the model of `kojen/vppfs.py` on the three tables as SQLite returns them (diagram
  element rows of the requested diagram in table order, model elements by id, the blob scanners
  at string level).  It is compared with the real `ExtractTransitionTable` on synthesised
  project files every run.  Proved here about the model, for every project:
  the assembled table is, per source state, the rows of its transitions in diagram order, the
  groups ordered by the targets of the initial pseudo-state's arrows first and then by first
  appearance (`C20_table`); it has exactly one row per transition that does not leave the
  initial pseudo-state (`C20_one_row_per_transition`); a row carries the names of source,
  trigger, target, effect and guard with the `None` conventions (`C20_row_fields`); the group of
  the state the initial arrow points to comes first (`C20_initial_first`); diagram elements of
  other diagrams have no influence (`C20_other_diagrams`); entries of a transition's definition
  other than toModel / fromModel / guard / effect have no influence (`C20_other_entries`).
-/
namespace KojenVerif.C20
open Vpp Str

/-- **The table.** Whenever the extraction succeeds, its result is the specified table of the
    diagram's resolved transitions. -/
theorem C20_table (p : Project) (name : Str) (rows : List (List Str)) (h : extract p name = some rows) :
    ∃ did l, diagramId p (strip name) = some did ∧ load p did = some l ∧
      ((l.initial = none ∧ l.transitions = [] ∧ rows = []) ∨
       ∃ ini rts, l.initial = some ini ∧ mapOpt (resolveT p l ini) l.transitions = some rts ∧ rows = specRows rts) := by
  unfold extract at h
  cases hd : diagramId p (strip name) with
  | none => rw [hd] at h; cases h
  | some did =>
    rw [hd] at h
    simp only [Option.bind_some] at h
    cases hl : load p did with
    | none => rw [hl] at h; cases h
    | some l =>
      rw [hl] at h
      simp only [Option.bind_some] at h
      refine ⟨did, l, rfl, hl, ?_⟩
      split at h
      · unfold transitionTable at h
        cases hi : l.initial with
        | none =>
          rw [hi] at h
          simp only at h
          split at h
          · rename_i he
            left
            refine ⟨rfl, by simpa using he, ?_⟩
            injection h with h; exact h.symm
          · cases h
        | some ini =>
          rw [hi] at h
          simp only at h
          right
          cases hm : mapOpt (resolveT p l ini) l.transitions with
          | none => rw [hm] at h; cases h
          | some rts =>
            rw [hm] at h
            simp only [Option.map_some, Option.some.injEq] at h
            exact ⟨ini, rts, rfl, hm, by rw [← h, assemble_eq]⟩
      · cases h

/-- **Exactly one row per drawn transition**, the initial pseudo-state's arrow excluded. -/
theorem C20_one_row_per_transition (rts : List RT) :
    (specRows rts).Perm ((nonInit rts).map (·.row)) ∧ (specRows rts).length = (nonInit rts).length := by
  have h := specRows_perm rts
  exact ⟨h, by rw [h.length_eq]; simp⟩

/-- **What a row carries.** -/
theorem C20_row_fields (p : Project) (l : Loaded) (ini : Str) (t : Str × (Str × TRefs)) (f n : Str)
    (hne : t.2.2.from_ ≠ some ini)
    (hf : t.2.2.from_.bind (dget l.states) = some f) (hn : t.2.2.to_.bind (dget l.states) = some n) :
    resolveT p l ini t = some
      { isInit := false, src := f, dst := n,
        row := [f, t.2.1, if n == f then NONE else n, actionCell p t.2.2.effect, guardCell p t.2.2.guard] } := by
  unfold resolveT
  have : (t.2.2.from_ == some ini) = false := by simpa using hne
  simp [this, hf, hn]

/-- a transition leaving the initial pseudo-state contributes no row, only the first group -/
theorem C20_initial_arrow (p : Project) (l : Loaded) (ini : Str) (t : Str × (Str × TRefs)) (n : Str)
    (hi : t.2.2.from_ = some ini) (hn : t.2.2.to_.bind (dget l.states) = some n) :
    resolveT p l ini t = some { isInit := true, src := [], dst := n, row := [] } := by
  unfold resolveT
  simp [hi, hn]

/-- **Initial state first.** -/
theorem C20_initial_first (rts : List RT) (k : Str) (ks : List Str) (h : initTargets rts = k :: ks) :
    ∃ rest, specRows rts = ((nonInit rts).filter (fun t => t.src == k)).map (·.row) ++ rest := by
  unfold specRows
  have hh := order_head rts k ks h
  cases ho : order rts with
  | nil => rw [ho] at hh; cases hh
  | cons a os =>
    rw [ho] at hh
    simp only [List.head?_cons, Option.some.injEq] at hh
    subst hh
    exact ⟨os.flatMap (fun k => ((nonInit rts).filter (fun t => t.src == k)).map (·.row)), by simp [List.flatMap_cons]⟩

/-- **Other diagrams have no influence**: only the element rows of the requested diagram, in
    their table order, are consulted. -/
theorem C20_other_diagrams (p p' : Project) (name : Str)
    (hd : p'.diagrams = p.diagrams) (hm : p'.models = p.models)
    (he : ∀ did, p'.elems.filter (fun e => e.diagramId == did) = p.elems.filter (fun e => e.diagramId == did)) :
    extract p' name = extract p name := by
  have hmodel : ∀ id, model p' id = model p id := by intro id; simp [model, hm]
  have hstep : loadStep p' = loadStep p := by
    funext acc e
    simp [loadStep, hmodel]
  have hload : ∀ did, load p' did = load p did := by
    intro did; simp [load, he did, hstep]
  have hres : ∀ l, resolveOK p' l = resolveOK p l := by
    intro l; simp [resolveOK, hmodel]
  have htt : ∀ l, transitionTable p' l = transitionTable p l := by
    intro l
    have : ∀ ini, resolveT p' l ini = resolveT p l ini := by
      intro ini; funext t
      have ha : actionCell p' = actionCell p := by funext o; cases o <;> simp [actionCell, actionName, hmodel]
      have hg : guardCell p' = guardCell p := by funext o; cases o <;> simp [guardCell, guardName, hmodel]
      simp [resolveT, ha, hg]
    simp [transitionTable, this]
  simp [extract, diagramId, hd, hload, hres, htt]

/-- **Other entries have no influence**: a `;`-piece whose entry key is none of the four leaves
    the references as they are. -/
theorem C20_other_entries (r : TRefs) (i : Str)
    (h1 : strip (massReplace (partitionEq (afterLastBrace i)).1) ≠ S "toModel")
    (h2 : strip (massReplace (partitionEq (afterLastBrace i)).1) ≠ S "fromModel")
    (h3 : strip (massReplace (partitionEq (afterLastBrace i)).1) ≠ S "guard")
    (h4 : strip (massReplace (partitionEq (afterLastBrace i)).1) ≠ S "effect") : parsePiece r i = r := by
  unfold parsePiece
  simp [h1, h2, h3, h4]

/-! non-vacuity: the shipped traffic-light diagram in abstract form plus a self-loop -/
section Example
def exRts : List RT :=
  [ { isInit := false, src := S "Orange", dst := S "Green", row := [S "Orange", S "Ev", S "Green", S "OnGreen", S "None"] },
    { isInit := true, src := [], dst := S "Red", row := [] },
    { isInit := false, src := S "Red", dst := S "Orange", row := [S "Red", S "Ev", S "Orange", S "OnOrange", S "G"] },
    { isInit := false, src := S "Orange", dst := S "Orange", row := [S "Orange", S "Tick", S "None", S "None", S "None"] } ]
example : assemble exRts =
    [[S "Red", S "Ev", S "Orange", S "OnOrange", S "G"], [S "Orange", S "Ev", S "Green", S "OnGreen", S "None"],
     [S "Orange", S "Tick", S "None", S "None", S "None"]] := by decide
example : (parseTransition (S "b'x:\"EventAftereffect\":Transition2 {\\r\\n\\t_modelEditable=T;\\r\\n\\ttoModel=<a:b>;\\r\\n\\tfromModel=<c>;\\r\\n}'")) =
    { to_ := some (S "b"), from_ := some (S "c"), guard := none, effect := none } := by decide
end Example

end KojenVerif.C20
