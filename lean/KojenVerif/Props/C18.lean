import KojenVerif.Lemmas.Replace
import KojenVerif.Props.C02
/-
  C18 — FileSync copies shared tag bodies and touches nothing else.

  Model: `Model/Pipeline.fileSync` = `cgen.FilePreservationSyncUtil` after fix 71152db
  (destination read as it is, `Emplace(..., replace=True)`, only the destination written).
  `D_A` / `D_B` are the documents of source and destination.
-/
namespace KojenVerif.C18
open Str
variable {L K : Type} [DecidableEq K]

/-- **Result of a synchronisation.** Every pair of the destination whose key the source has
    gets the source's body; everything else is the destination as it was. -/
theorem C18_sync_result (c : Cfg L K) (DA DB : List (Item L))
    (hA : ∀ it ∈ DA, it.okOld c) (hnd : (Tags.keys (blocksOf c DA)).Nodup)
    (hB : ∀ it ∈ DB, it.okRepl c (blocksOf c DA)) :
    emplaceReplace c (collect c (render DA)) (render DB)
      = render (DB.map (Item.fillReplace c (blocksOf c DA))) := by
  have hget : ∀ k, Tags.get? (blocksOf c DA) k = Tags.get? (collect c (render DA)) k :=
    fun k => (collect_get? c DA hA hnd k).symm
  rw [emplaceReplace_render c _ DB (fun it hit => okRepl_congr c _ _ hget it (hB it hit))]
  congr 1
  apply List.map_congr_left
  intro it _
  exact (fillReplace_congr c _ _ hget it).symm

/-- shared bodies replaced by the source's, B-only bodies kept, in B's order -/
theorem C18_shared_bodies_replaced (c : Cfg L K) (t : Tags L K) (DB : List (Item L)) :
    blocksOf c (DB.map (Item.fillReplace c t))
      = (blocksOf c DB).map (fun kb => (kb.1, (Tags.get? t kb.1).getD kb.2)) := by
  induction DB with
  | nil => rfl
  | cons it DB ih =>
    cases it with
    | text l => simp [Item.fillReplace, blocksOf, ih]
    | block o cl b =>
      cases h : Tags.get? t (c.key o) <;> simp [Item.fillReplace, blocksOf, ih, h]

/-- all text outside tag pairs and every tag line of B stay exactly as they were, in order -/
theorem C18_rest_of_B_untouched (c : Cfg L K) (t : Tags L K) (DB : List (Item L)) :
    (DB.map (Item.fillReplace c t)).map C02.Item.frame = DB.map C02.Item.frame := by
  simp only [List.map_map]
  apply List.map_congr_left
  intro it _
  cases it with
  | text l => rfl
  | block o cl b => cases h : Tags.get? t (c.key o) <;> simp [Item.fillReplace, C02.Item.frame, h]

/-- a pair that exists only in B is byte-identical afterwards -/
theorem C18_B_only_pairs_kept (c : Cfg L K) (t : Tags L K) (o cl : L) (b : List L)
    (h : Tags.get? t (c.key o) = none) :
    Item.fillReplace c t (.block o cl b) = .block o cl b := by
  simp [Item.fillReplace, h]

/-- **Idempotence.** Synchronising twice gives what synchronising once gave (the
    destination after the first run is again a well-formed destination). -/
theorem C18_idempotent (c : Cfg L K) (DA DB : List (Item L))
    (hA : ∀ it ∈ DA, it.okOld c) (hnd : (Tags.keys (blocksOf c DA)).Nodup)
    (hB : ∀ it ∈ DB, it.okRepl c (blocksOf c DA))
    (hB' : ∀ it ∈ DB.map (Item.fillReplace c (blocksOf c DA)), it.okRepl c (blocksOf c DA)) :
    emplaceReplace c (collect c (render DA))
        (emplaceReplace c (collect c (render DA)) (render DB))
      = emplaceReplace c (collect c (render DA)) (render DB) := by
  rw [C18_sync_result c DA DB hA hnd hB, C18_sync_result c DA _ hA hnd hB']
  congr 1
  simp only [List.map_map]
  apply List.map_congr_left
  intro it _
  cases it with
  | text l => rfl
  | block o cl b =>
    cases h : Tags.get? (blocksOf c DA) (c.key o) <;> simp [Item.fillReplace, h]

/-- **A is not modified, no other file is written**: only the destination's entry of the
    world can change. -/
theorem C18_only_destination_written (w : World) (a b p : Str)
    (hp : Path.abspath w.cwd b ≠ p) :
    ODict.get? (fileSyncWorld w a b).files p = ODict.get? w.files p := by
  unfold fileSyncWorld
  cases fileSync w a b with
  | none => rfl
  | some c => simp [World.write, ODict.get?_set, hp]

/-- with no tag in common the destination is rewritten byte for byte -/
theorem C18_no_shared_tags_identity (w : World) (a b ca cb : Str)
    (ha : w.read a = some ca) (hb : w.read b = some cb)
    (hno : ∀ l ∈ splitLines cb, strCfg.lookup (collect strCfg (splitLines ca)) l = none) :
    fileSync w a b = some cb := by
  have hfs : fileSync w a b = some ((emplaceReplace strCfg (collect strCfg (splitLines ca)) (splitLines cb)).flatten) := by
    unfold fileSync
    rw [ha, hb]
  rw [hfs]
  have : ∀ (ls : List Str), (∀ l ∈ ls, strCfg.lookup (collect strCfg (splitLines ca)) l = none) →
      emplaceAux strCfg (collect strCfg (splitLines ca)) true ls none = ls := by
    intro ls h
    have := emplaceAux_body_none strCfg (collect strCfg (splitLines ca)) true ls h []
    simpa [emplaceAux] using this
  unfold emplaceReplace
  rw [this _ hno, flatten_splitLines]

/-! non-vacuity: prefix-related tag names, different comment styles, tabs and blank runs in B -/
section Example
def exA : Str := ofString "// {{{USER_X}}}\na1\n\ta2\n// {{{USER_X}}}\n// {{{USER_XY}}}\nxy\n// {{{USER_XY}}}\n// {{{USER_ONLYA}}}\nzz\n// {{{USER_ONLYA}}}\n"
def exB : Str := ofString "head\n\n\n\n\ttabbed <<<EXTENDS=foo>>>\n  /* {{{USER_XY}}} */\nold\n  /* {{{USER_XY}}} */\n# {{{USER_ONLYB}}}\n\tb1\n\n\n# {{{USER_ONLYB}}}\n  /* {{{USER_X}}} */\n  /* {{{USER_X}}} */\ntail"
def exW : World := ⟨ofString "/w", [(ofString "/w/a.txt", exA), (ofString "/w/b.txt", exB)]⟩
example : fileSync exW (ofString "a.txt") (ofString "b.txt") = some (ofString
    "head\n\n\n\n\ttabbed <<<EXTENDS=foo>>>\n  /* {{{USER_XY}}} */\nxy\n  /* {{{USER_XY}}} */\n# {{{USER_ONLYB}}}\n\tb1\n\n\n# {{{USER_ONLYB}}}\n  /* {{{USER_X}}} */\na1\n\ta2\n  /* {{{USER_X}}} */\ntail") := by
  decide +kernel
end Example

end KojenVerif.C18
