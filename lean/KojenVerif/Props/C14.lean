import KojenVerif.Lemmas.ConnStep
/-
  C14 — the connection layer reassembles messages exactly under arbitrary fragmentation.

  Model: `Model/Conn` (IConnection.cpp, non-ARM build, after fix bebd7ec).  A well-formed
  stream is `flatS segs tail`: (filler, message) pairs followed by a trailing filler, fillers
  free of the preamble's first byte, messages with correct size field and *arbitrary*
  payload (preamble look-alikes included), *any* preamble (equal bytes included).
-/
namespace KojenVerif.C14
open Conn

/-- general form: any chunk list that is a prefix of the remaining stream -/
theorem feedAll_stream (c : Cfg) : ∀ (chunks : List Bytes) (pos : Pos) (segs : Segs) (tail rest : Bytes),
    WFPos c pos → WFSegs c segs tail → remOf pos ++ flatS segs tail = chunks.flatten ++ rest →
    StepOK c (feedAll c (canon pos) chunks) pos segs rest := by
  intro chunks
  induction chunks with
  | nil =>
    intro pos segs tail rest hw hs h
    exact ⟨pos, segs, tail, hw, hs, rfl, by simpa using h, by simp [feedAll]⟩
  | cons d ds ih =>
    intro pos segs tail rest hw hs h
    simp only [List.flatten_cons, List.append_assoc] at h
    obtain ⟨pos1, segs1, tail1, hw1, hs1, hst1, hrem1, hout1⟩ :=
      step c d.length d rfl (d.length + 2) (by omega) pos segs tail (ds.flatten ++ rest) hw hs h
    obtain ⟨pos2, segs2, tail2, hw2, hs2, hst2, hrem2, hout2⟩ := ih pos1 segs1 tail1 rest hw1 hs1 hrem1
    refine ⟨pos2, segs2, tail2, hw2, hs2, ?_, hrem2, ?_⟩
    · simp only [feedAll, feedChunk]
      rw [hst1]; exact hst2
    · simp only [feedAll, feedChunk]
      rw [hst1, List.append_assoc, hout2, hout1]

/-- **Reassembly.** Every chunking of a well-formed stream — any number of chunks, cut
    anywhere, empty chunks allowed — delivers exactly the messages of the stream, each once,
    in order, byte-exact, and leaves the connection in its initial state. -/
theorem C14_reassembly (c : Cfg) (segs : Segs) (tail : Bytes) (chunks : List Bytes)
    (hs : WFSegs c segs tail) (hcut : chunks.flatten = flatS segs tail) :
    feedAll c St.init chunks = (St.init, msgsOf segs) := by
  obtain ⟨pos', segs', tail', hw', hs', hst, hrem, hout⟩ :=
    feedAll_stream c chunks .idle segs tail [] trivial hs (by simp [remOf, hcut])
  -- nothing remains: the position is idle and no segment is left
  have hpos : pos' = .idle := by
    cases pos' with
    | idle => rfl
    | mid pre rem =>
      simp only [remOf, List.append_eq_nil_iff] at hrem
      exact absurd hrem.1 hw'.2.1
  subst hpos
  have hsegs : segs' = [] := by
    cases segs' with
    | nil => rfl
    | cons fm segs'' =>
      obtain ⟨f, m⟩ := fm
      have hm : IsMsg c m := (hs'.1 (f, m) (by simp)).2
      simp only [remOf, flatS, List.nil_append, List.append_eq_nil_iff] at hrem
      exact absurd hrem.2.1 (hm.ne_nil)
  subst hsegs
  simp only [pendOf, msgsOf, List.map_nil, List.append_nil, List.nil_append] at hout
  have h1 : (feedAll c St.init chunks).1 = St.init := by simpa [canon] using hst
  have h2 : (feedAll c St.init chunks).2 = msgsOf segs := by simpa [msgsOf, canon] using hout
  exact Prod.ext h1 h2

/-- chunking independence as such: two chunkings of the same well-formed stream behave alike -/
theorem C14_chunking_independent (c : Cfg) (segs : Segs) (tail : Bytes) (ch1 ch2 : List Bytes)
    (hs : WFSegs c segs tail) (h1 : ch1.flatten = flatS segs tail) (h2 : ch2.flatten = flatS segs tail) :
    feedAll c St.init ch1 = feedAll c St.init ch2 := by
  rw [C14_reassembly c segs tail ch1 hs h1, C14_reassembly c segs tail ch2 hs h2]

/-- a stream cut off in the middle: everything completed so far has been delivered and the
    state is the canonical state of *a* position whose remaining stream is exactly what was
    not fed yet -/
theorem C14_prefix (c : Cfg) (segs : Segs) (tail : Bytes) (chunks : List Bytes) (rest : Bytes)
    (hs : WFSegs c segs tail) (hcut : chunks.flatten ++ rest = flatS segs tail) :
    StepOK c (feedAll c St.init chunks) .idle segs rest :=
  feedAll_stream c chunks .idle segs tail rest trivial hs (by simp [remOf, hcut])

/-- with a raw-data receiver every (non-empty) chunk is handed over unmodified -/
theorem C14_raw_receiver (ds : List Bytes) (h : ∀ d ∈ ds, d ≠ []) : feedRaw ds = ds := by
  unfold feedRaw
  apply List.filter_eq_self.2
  intro d hd
  have := h d hd
  cases d with
  | nil => exact absurd rfl this
  | cons x xs => rfl

/-! ### state invariant for *arbitrary* input (index bounds) -/

/-- `req = 0` ⇒ fewer than 8 bytes buffered (the header is still incomplete);
    `req > 0` ⇒ at least the 8 header bytes are buffered -/
def Inv (st : St) : Prop := (st.req = 0 → st.buf.length < 8) ∧ (0 < st.req → 8 ≤ st.buf.length)

theorem inv_init : Inv St.init := by simp [Inv, St.init]

theorem after_inv (rec : St → Bytes → St × List Bytes) (hrec : ∀ st a, Inv st → Inv (rec st a).1)
    (st : St) (hst : Inv st) (rest : Bytes) :
    Inv (if rest.isEmpty = true then (st, []) else rec st rest).1 := by
  split
  · exact hst
  · exact hrec _ _ hst

theorem handle_inv (c : Cfg) (rec : St → Bytes → St × List Bytes)
    (hrec : ∀ st a, Inv st → Inv (rec st a).1) (st : St) (a : Bytes) (hst : Inv st) :
    Inv (handle c rec st a).1 := by
  unfold handle
  have hH : headerSize = 8 := rfl
  simp only []
  by_cases h1 : st.buf.length > 0 ∨ a.length < headerSize
  · rw [if_pos h1]
    by_cases h2 : st.buf.length = 1 ∧ a.head? ≠ some c.p1
    · rw [if_pos h2]
      by_cases h3 : a.head? = some c.p0
      · rw [if_pos h3]; exact hrec _ _ inv_init
      · rw [if_neg h3]; exact inv_init
    · rw [if_neg h2]
      by_cases hreq : st.req = 0
      · rw [if_pos hreq]
        by_cases ht : st.buf.length + a.length < headerSize
        · rw [if_pos ht]; simp only [Inv, List.length_append]
          constructor <;> intro _ <;> omega
        · rw [if_neg ht]
          by_cases hlt : st.buf.length + a.length < headerSize + payloadSize (st.buf ++ a.take (headerSize - st.buf.length))
          · rw [if_pos hlt]; simp only [Inv, List.length_append]
            constructor <;> intro _ <;> omega
          · rw [if_neg hlt]
            exact after_inv rec hrec St.init inv_init _
      · rw [if_neg hreq]
        have h8 := hst.2 (by omega)
        by_cases hlt : a.length < st.req
        · rw [if_pos hlt]; simp only [Inv, List.length_append]
          constructor <;> intro _ <;> omega
        · rw [if_neg hlt]
          exact after_inv rec hrec St.init inv_init _
  · rw [if_neg h1]
    by_cases hlt : a.length < headerSize + payloadSize a
    · rw [if_pos hlt]; simp only [Inv]
      constructor <;> intro _ <;> omega
    · rw [if_neg hlt]
      exact after_inv rec hrec st hst _

/-- **No out-of-bounds bookkeeping, for every input** (also garbage): the buffer/required
    counters always satisfy `Inv`, so whenever the header is read from the fragment buffer it
    holds exactly 8 bytes, and every copy length is at most the bytes available. -/
theorem C14_state_invariant (c : Cfg) : ∀ (fuel : Nat) (st : St) (d : Bytes), Inv st → Inv (onData c fuel st d).1 := by
  intro fuel
  induction fuel with
  | zero => intro st d h; exact h
  | succ fuel ih =>
    intro st d h
    simp only [onData]
    split
    · exact h
    · split
      · exact h
      · exact handle_inv c (onData c fuel) ih st _ h

/-- the header assembled in the fragment buffer is exactly 8 bytes long when it is read -/
theorem C14_header_read_in_bounds (st : St) (a : Bytes) (hst : Inv st) (hreq : st.req = 0)
    (htot : 8 ≤ st.buf.length + a.length) :
    (st.buf ++ a.take (8 - st.buf.length)).length = 8 := by
  have := hst.1 hreq
  simp only [List.length_append, List.length_take]
  omega

/-! non-vacuity: preamble with equal bytes, payload full of preamble look-alikes, a filler -/
section Example
def exC : Cfg := ⟨0xAA, 0xAA⟩
def exM1 : Bytes := [0xAA, 0xAA, 1, 0, 3, 0, 0, 0, 0xAA, 0xAA, 0xAA]
def exM2 : Bytes := [0xAA, 0xAA, 2, 0, 0, 0, 0, 0]
def exSegs : Segs := [([], exM1), ([7, 0], exM2)]
example : WFSegs exC exSegs [9] := by
  refine ⟨?_, by decide⟩
  intro fm hfm
  simp only [exSegs, List.mem_cons, List.not_mem_nil, or_false] at hfm
  rcases hfm with rfl | rfl
  · exact ⟨by decide, ⟨by decide, by decide, by decide, by decide⟩⟩
  · exact ⟨by decide, ⟨by decide, by decide, by decide, by decide⟩⟩
example : feedAll exC St.init [[0xAA], [0xAA, 1, 0, 3, 0], [0, 0, 0xAA], [0xAA, 0xAA, 7], [0, 0xAA, 0xAA, 2, 0, 0, 0, 0, 0, 9]]
    = (St.init, [exM1, exM2]) := by decide
end Example

end KojenVerif.C14
