import KojenVerif.Lemmas.ConcLive
/-
  C15 — C++ dispatcher/queue: at-most-once FIFO hand-off, clean shutdown, no data races.

  Model: `Model/Conc` (headers after fixes 89eba0a, 29af415).  `Reachable` ranges over all
  interleavings of producers, workers and the destroying thread.  What is *not* formalised:
  the C++ memory model itself.  Data-race freedom is decided as a lockset discipline over
  the access table of the model, whose entries are regenerated facts about the sources
  (`shuttingDownAtomic`, `queueMethodsLocked`), and supported by ThreadSanitizer runs of the
  real headers; condition-variable wake-ups are modelled as "a waiter may proceed exactly
  when its predicate holds" (no lost wake-up is possible in that abstraction; the pairing of
  notify with the predicate change under the mutex is what the lockset facts check).
-/
namespace KojenVerif.C15
open Conc

variable (totals : Nat → Nat)

/-- the generated state machine destroys the dispatcher in the safe order (regenerated fact) -/
theorem C15_stop_first : Generated.dispatcherStopFirst = true := by decide

/-- side conditions of the model's treatment of the condition variable and of the worker loop
    (regenerated facts): every wait carries the predicate `!empty || stopped`, every push
    notifies, `wake_up` sets the flag under the mutex and notifies all, the worker re-tests
    the shutdown flag after the pop -/
theorem C15_model_side_conditions :
    Generated.waitsHavePredicate = true ∧ Generated.pushNotifies = true ∧
    Generated.wakeNotifiesAll = true ∧ Generated.workerRetestsFlag = true := by decide

/-- **At most once, in each producer's dispatch order (one worker).** For every producer the
    items handed to the handler, then those discarded during shutdown, then the one in the
    worker's hands, then the queued ones are exactly what it dispatched, in order: no item is
    handled twice, none out of order. -/
theorem C15_at_most_once_fifo (sf : Bool) (s : St) (h : Reachable sf totals 1 s) (p : Nat) :
    ofP p s.begun ++ ofP p s.dropped ++ ofP p (held s) ++ ofP p s.queue
      = (List.range (s.next p)).map (fun i => (p, i)) := by
  have inv := reachable_inv sf totals 1 s h
  have hn : s.nworkers ≤ 1 := by
    obtain ⟨ls, hr⟩ := h
    have := run_nworkers sf ls _ _ hr
    simp [init] at this; omega
  exact inv.chain hn p

theorem C15_handled_is_prefix (sf : Bool) (s : St) (h : Reachable sf totals 1 s) (p : Nat) :
    ofP p s.begun <+: (List.range (s.next p)).map (fun i => (p, i)) := by
  rw [← C15_at_most_once_fifo totals sf s h p, List.append_assoc, List.append_assoc]
  exact List.prefix_append _ _

/-- **Never two at a time (one worker)**: two handler calls in progress are the same call. -/
theorem C15_never_two_at_a_time (sf : Bool) (s : St) (h : Reachable sf totals 1 s)
    (w₁ w₂ : Nat) (i₁ i₂ : Item) (h₁ : s.workers w₁ = .handling i₁) (h₂ : s.workers w₂ = .handling i₂) :
    w₁ = w₂ ∧ i₁ = i₂ := by
  have inv := reachable_inv sf totals 1 s h
  have hn : s.nworkers = 1 := by
    obtain ⟨ls, hr⟩ := h
    have := run_nworkers sf ls _ _ hr
    simpa [init] using this
  have e₁ : w₁ = 0 := by
    apply Classical.byContradiction; intro hc
    have := inv.wOut w₁ (by omega)
    rw [h₁] at this; cases this
  have e₂ : w₂ = 0 := by
    apply Classical.byContradiction; intro hc
    have := inv.wOut w₂ (by omega)
    rw [h₂] at this; cases this
  subst e₁ e₂
  rw [h₁] at h₂
  exact ⟨rfl, by injection h₂⟩

/-- **While the dispatcher is alive every worker can always move on** unless it is waiting
    on an empty queue (so a dispatched item is never stuck). -/
theorem C15_alive_progress (sf : Bool) (s : St) (w : Nat) (hw : w < s.nworkers)
    (hq : s.queue ≠ [] ∨ s.workers w ≠ .popping) (hne : s.workers w ≠ .exited) :
    (step sf s (.wCheck w)).isSome ∨ (step sf s (.wPop w)).isSome ∨ (step sf s (.wTest w)).isSome ∨ (step sf s (.wEnd w)).isSome := by
  cases hp : s.workers w with
  | top => left; simp [step, hw, hp]
  | popping =>
    right; left
    have : s.queue ≠ [] := by
      rcases hq with hq | hq
      · exact hq
      · exact absurd hp hq
    cases hqq : s.queue with
    | nil => exact absurd hqq this
    | cons a b => simp [step, hw, hp, hqq]
  | got it =>
    right; right; left
    cases it with
    | none => simp [step, hw, hp]
    | some x => by_cases hs : s.shutting = true <;> simp [step, hw, hp, hs]
  | handling it => right; right; right; simp [step, hw, hp]
  | exited => exact absurd hp hne

/-- **While the dispatcher is alive every dispatched item is eventually handled (one worker).**
    Bounded response: if `it` is queued at position `k` (or already in the worker's hands),
    then in *every* continuation during which destruction has not begun and in which the
    worker is scheduled at least `4·k + 5` times — whatever the producers do in between — the
    handler call for `it` has begun.  (`need` is that bound; under any fair scheduler the
    worker is scheduled that often, and `C15_alive_progress` shows its step is enabled.) -/
theorem C15_eventually_handled (sf : Bool) (s s' : St) (h : Reachable sf totals 1 s)
    (ls : List Label) (hr : run sf s ls = some s') (hal : s'.destroyer = .alive)
    (it : Item) (n : Nat) (hneed : need s it = some n) (hfair : n ≤ wsteps ls) : it ∈ s'.begun := by
  have inv := reachable_inv sf totals 1 s h
  have hn : s.nworkers = 1 := by
    obtain ⟨l0, hr0⟩ := h
    have := run_nworkers sf l0 _ _ hr0
    simpa [init] using this
  obtain ⟨n', hn', hle⟩ := run_need sf ls s s' it n inv hn hr hal hneed
  have : n' = 0 := by omega
  subst this
  rcases need_cases s' it 0 hn' with ⟨h1, _⟩ | ⟨_, _, h⟩ | ⟨_, _, _, h⟩
  · exact h1
  · cases h
  · omega

/-- every queued item has such a bound -/
theorem C15_need_of_queued (s : St) (it : Item) (h : it ∈ s.queue) : ∃ n, need s it = some n ∧ n ≤ 4 * s.queue.length + 5 := by
  unfold need
  by_cases h1 : it ∈ s.begun
  · exact ⟨0, by rw [if_pos h1], by omega⟩
  · rw [if_neg h1]
    by_cases h2 : s.workers 0 = .got (some it)
    · exact ⟨1, by rw [if_pos h2], by omega⟩
    · rw [if_neg h2, if_pos h]
      refine ⟨_, rfl, ?_⟩
      have := List.idxOf_lt_length_of_mem h
      have : dist (s.workers 0) ≤ 4 := by
        cases s.workers 0 with
        | got o => cases o <;> simp [dist]
        | _ => simp [dist]
      omega

/-! ### shutdown -/

def rank : WPhase → Nat
  | .handling _ => 4
  | .popping => 3
  | .got _ => 2
  | .top => 1
  | .exited => 0

/-- **After wake-up every waiting consumer is released and every worker runs down to exit**:
    once the flag is set and the queue woken, every step of a worker strictly lowers its
    rank, and a worker that has not exited always has an enabled step. -/
theorem C15_wake_releases_all_waiters (sf : Bool) (s : St) (w : Nat) (hw : w < s.nworkers)
    (hst : s.stopped = true) (hne : s.workers w ≠ .exited) :
    (step sf s (.wCheck w)).isSome ∨ (step sf s (.wPop w)).isSome ∨ (step sf s (.wTest w)).isSome ∨ (step sf s (.wEnd w)).isSome := by
  cases hp : s.workers w with
  | top => left; simp [step, hw, hp]
  | popping =>
    right; left
    cases hqq : s.queue with
    | nil => simp [step, hw, hp, hqq, hst]
    | cons a b => simp [step, hw, hp, hqq]
  | got it =>
    right; right; left
    cases it with
    | none => simp [step, hw, hp]
    | some x => by_cases hs : s.shutting = true <;> simp [step, hw, hp, hs]
  | handling it => right; right; right; simp [step, hw, hp]
  | exited => exact absurd hp hne

theorem C15_worker_rank_decreases (sf : Bool) (s s' : St) (w : Nat) (l : Label)
    (hl : l = .wCheck w ∨ l = .wPop w ∨ l = .wTest w ∨ l = .wEnd w)
    (hsd : s.shutting = true) (hs : step sf s l = some s') :
    rank (s'.workers w) < rank (s.workers w) ∧ ∀ x, x ≠ w → s'.workers x = s.workers x := by
  rcases hl with rfl | rfl | rfl | rfl <;> simp only [step] at hs
  · split at hs
    · rename_i hg
      simp only [Option.some.injEq] at hs; subst hs
      refine ⟨by simp [setW_same, hg.2, rank], fun x hx => setW_other _ _ _ _ hx⟩
    · cases hs
  · split at hs
    · rename_i hg
      cases hq : s.queue with
      | nil =>
        rw [hq] at hs; simp only [Option.some.injEq] at hs; subst hs
        exact ⟨by simp [setW_same, hg.2.1, rank], fun x hx => setW_other _ _ _ _ hx⟩
      | cons a b =>
        rw [hq] at hs; simp only [Option.some.injEq] at hs; subst hs
        exact ⟨by simp [setW_same, hg.2.1, rank], fun x hx => setW_other _ _ _ _ hx⟩
    · cases hs
  · split at hs
    · cases hph : s.workers w with
      | got it =>
        rw [hph] at hs
        cases it with
        | none =>
          simp only [Option.some.injEq] at hs; subst hs
          exact ⟨by simp [setW_same, rank], fun x hx => setW_other _ _ _ _ hx⟩
        | some it =>
          simp only [hsd, Option.some.injEq] at hs; subst hs
          exact ⟨by simp [setW_same, rank], fun x hx => setW_other _ _ _ _ hx⟩
      | top => rw [hph] at hs; cases hs
      | popping => rw [hph] at hs; cases hs
      | handling it => rw [hph] at hs; cases hs
      | exited => rw [hph] at hs; cases hs
    · cases hs
  · split at hs
    · split at hs
      · rename_i it hph
        simp only [Option.some.injEq] at hs; subst hs
        exact ⟨by simp [setW_same, hph, rank], fun x hx => setW_other _ _ _ _ hx⟩
      · cases hs
    · cases hs

/-- **Destroying always terminates**: in every reachable state in which destruction has
    begun, the destroyer can proceed or some worker can (and worker steps are bounded by the
    rank), and once all workers have exited `join` returns. -/
theorem C15_destroy_terminates (sf : Bool) (s : St) (nw : Nat) (h : Reachable sf totals nw s) :
    (s.destroyer = .flagSet → (step sf s .dWake).isSome) ∧
    (s.destroyer = .woken → (∀ w, w < s.nworkers → s.workers w = .exited) → (step sf s .dJoin).isSome) ∧
    (s.destroyer = .woken → ∀ w, w < s.nworkers → s.workers w ≠ .exited →
        (step sf s (.wCheck w)).isSome ∨ (step sf s (.wPop w)).isSome ∨ (step sf s (.wTest w)).isSome ∨ (step sf s (.wEnd w)).isSome) := by
  have inv := reachable_inv sf totals nw s h
  refine ⟨?_, ?_, ?_⟩
  · intro hd; simp [step, hd]
  · intro hd hall; simp only [step, hd, true_and]; rw [if_pos hall]; rfl
  · intro hd w hw hne
    exact C15_wake_releases_all_waiters sf s w hw (inv.st.2 (Or.inl hd)) hne

/-- **No hand-off to a dead object**: with the destruction order the generated code uses
    (stop() first), once the derived part of the object is gone every worker has exited — no
    handler call is running or can begin. -/
theorem C15_no_handoff_to_dead_object (s : St) (nw : Nat) (h : Reachable true totals nw s)
    (hd : s.derivedAlive = false) : ∀ w, s.workers w = .exited := by
  have inv := reachable_inv true totals nw s h
  exact inv.joined (Or.inr (inv.dead rfl hd))

/-- without that order the obligation fails: a handler call can begin on a dead object -/
theorem C15_old_order_counterexample :
    ∃ s, Reachable false (fun _ => 1) 1 s ∧ s.derivedAlive = false ∧ s.workers 0 = .handling (0, 0) :=
  ⟨_, ⟨[.push 0, .wCheck 0, .wPop 0, .dDestroyDerived, .wTest 0], rfl⟩, by decide, by decide⟩

/-- **Lockset discipline**: every pair of conflicting accesses to a shared variable by two
    threads is either on an atomic variable or made under the queue's mutex by both. -/
theorem C15_lockset_race_free : ∀ a ∈ accesses, ∀ b ∈ accesses, raceFreePair a b = true := by decide

/-! non-vacuity: two producers, one worker, destruction while an item is queued -/
section Example
def exRun : List Label :=
  [.push 0, .push 1, .wCheck 0, .wPop 0, .wTest 0, .push 0, .wEnd 0, .wCheck 0, .wPop 0, .dSet, .wTest 0, .dWake, .wCheck 0, .dJoin, .dDestroyDerived]
example : (run true (init (fun _ => 2) 1) exRun).map (fun s => (s.begun, s.dropped, s.queue, s.derivedAlive)) =
    some ([(0, 0)], [(1, 0)], [(0, 1)], false) := by decide
end Example

end KojenVerif.C15
