import KojenVerif.Model.EmitPy
import KojenVerif.Lemmas.Table
/-
  C08 — the generated Python state machine executes exactly the transition table.

  `EmitPy.emit t` is the process region generated for table `t` (shipped template after
  fixes 43d1454 / 9066068), `EmitPy.process` interprets it, `Table.stepRef` is the reference
  semantics: guards of the current state's rows for the event in table order, first row
  whose guard is absent or true fires (exit, action, entry, state change — the action alone
  without target), otherwise the no-transition hook.
-/
namespace KojenVerif.C08
open Table EmitPy

theorem execBody_emitBlock (r : Row) (cur : Str) :
    execBody (emitBlock r).body cur = (effects r, target r cur, true) := by
  unfold emitBlock effects target
  cases hn : r.next <;> cases ha : r.action <;> simp [execBody]

/-- the emitted guard blocks behave like trying the rows in order -/
theorem runBlocks_emit (val : Str → Bool) (fb : List Cb) (cur : Str) (rows : List Row) :
    tryRows val fb cur rows =
      match runBlocks val cur (rows.map emitBlock) with
      | (tr, some s) => (s, tr)
      | (tr, none) => (cur, tr ++ fb) := by
  induction rows with
  | nil => simp [tryRows, runBlocks]
  | cons r rows ih =>
    simp only [List.map_cons, tryRows, runBlocks]
    have hg : (emitBlock r).guard = r.guard := rfl
    rw [hg]
    cases hgd : r.guard with
    | none => simp [execBody_emitBlock]
    | some g =>
      by_cases hv : val g = true
      · simp [hv, execBody_emitBlock]
      · have hv' : val g = false := by simpa using hv
        simp only [hv', Bool.false_eq_true, if_false]
        rw [ih]
        cases h : runBlocks val cur (rows.map emitBlock) with
        | mk tr o => cases o <;> simp

/-- event blocks with pairwise distinct events: only the block of the event matters -/
theorem runEvs_emit (val : Str → Bool) (cur e : Str) (mk : Str → List Block) (es : List Str)
    (hnd : es.Nodup) :
    runEvs val cur e (es.map (fun e' => ⟨e', mk e'⟩)) =
      if e ∈ es then runBlocks val cur (mk e) else ([], none) := by
  induction es with
  | nil => simp [runEvs]
  | cons x es ih =>
    simp only [List.nodup_cons] at hnd
    simp only [List.map_cons, runEvs]
    by_cases hx : x = e
    · subst hx
      simp only [if_true, List.mem_cons, true_or]
      rw [ih hnd.2]
      simp only [hnd.1, if_false]
      cases h : runBlocks val cur (mk x) with
      | mk tr o => cases o <;> simp
    · have hx' : ¬ e = x := fun h => hx h.symm
      simp only [hx, if_false, List.mem_cons, hx', false_or]
      exact ih hnd.2

/-- refinement for an arbitrary fallback (shared by the Python and the C# back end) -/
theorem refines_with (fb : List Cb) (t : List Row) (cur e : Str) (val : Str → Bool)
    (hcur : cur ∈ states t ∨ cur ∈ sourceStates t) :
    processWith fb (emit t) cur e val = tryRows val fb cur (rowsFor t cur e) := by
  have hkey : cur ∈ perStateKeys t := by
    rw [mem_perStateKeys]; rcases hcur with h | h
    · exact Or.inr h
    · exact Or.inl h
  unfold processWith emit
  simp only
  rw [find?_map_key (perStateKeys t)
    (fun s => (⟨s, (eventsOf t s).map (fun e => ⟨e, (rowsFor t s e).map emitBlock⟩)⟩ : StateFn))
    (fun fn => fn.state) (fun _ => rfl) cur]
  simp only [hkey, if_true, runFnWith]
  rw [runEvs_emit val cur e (fun e' => (rowsFor t cur e').map emitBlock) (eventsOf t cur) (nodup_eventsOf t cur)]
  by_cases he : e ∈ eventsOf t cur
  · simp only [he, if_true]
    rw [runBlocks_emit]
    cases h : runBlocks val cur ((rowsFor t cur e).map emitBlock) with
    | mk tr o => cases o <;> simp
  · simp only [he, if_false]
    rw [rowsFor_nil_of_not_mem t cur e he]
    simp [tryRows]

/-- **Refinement.** In every state of the table the generated `process` does exactly what the
    table says, for every event and every guard valuation: same callbacks in the same order
    (guards evaluated in table order), same next state, `NoTransition` when nothing fires. -/
theorem C08_refines_table (t : List Row) (cur e : Str) (val : Str → Bool)
    (hcur : cur ∈ states t ∨ cur ∈ sourceStates t) :
    process (emit t) cur e val = stepRef t cur e val :=
  refines_with [Cb.noTransition] t cur e val hcur

/-- the state reached by a step is again a state of the table -/
theorem tryRows_state (val : Str → Bool) (fb : List Cb) (cur : Str) (rows : List Row) (S : Str → Prop)
    (hcur : S cur) (hrows : ∀ r ∈ rows, ∀ n, r.next = some n → S n) :
    S (tryRows val fb cur rows).1 := by
  induction rows with
  | nil => exact hcur
  | cons r rows ih =>
    have hr := hrows r (by simp)
    have ht : S (target r cur) := by
      unfold target
      cases hn : r.next with
      | none => exact hcur
      | some n => exact hr n hn
    simp only [tryRows]
    cases r.guard with
    | none => exact ht
    | some g =>
      by_cases hv : val g = true
      · simp only [hv, if_true]; exact ht
      · have hv' : val g = false := by simpa using hv
        simp only [hv', Bool.false_eq_true, if_false]
        exact ih (fun r' hr' => hrows r' (by simp [hr']))

theorem mem_states_foldl (t : List Row) (init : List Str) (n : Str) :
    n ∈ t.foldl statesStep init ↔
    n ∈ init ∨ ∃ r ∈ t, r.src = n ∨ r.next = some n := by
  induction t generalizing init with
  | nil => simp
  | cons x t ih =>
    simp only [List.foldl_cons]
    rw [ih]
    constructor
    · rintro (h | ⟨r, hr, h⟩)
      · unfold statesStep at h
        cases hx : x.next with
        | none =>
          rw [hx] at h
          simp only [mem_addUniq] at h
          rcases h with h | h
          · exact Or.inl h
          · exact Or.inr ⟨x, by simp, Or.inl h.symm⟩
        | some m =>
          rw [hx] at h
          simp only [mem_addUniq] at h
          rcases h with (h | h) | h
          · exact Or.inl h
          · exact Or.inr ⟨x, by simp, Or.inl h.symm⟩
          · exact Or.inr ⟨x, by simp, Or.inr (by rw [hx, h])⟩
      · exact Or.inr ⟨r, by simp [hr], h⟩
    · rintro (h | ⟨r, hr, h⟩)
      · left
        unfold statesStep
        cases x.next <;> simp [mem_addUniq, h]
      · simp only [List.mem_cons] at hr
        rcases hr with rfl | hr
        · left
          unfold statesStep
          rcases h with h | h
          · cases r.next <;> simp [mem_addUniq, h]
          · rw [h]; simp [mem_addUniq]
        · exact Or.inr ⟨r, hr, h⟩

theorem mem_states_of_next (t : List Row) (r : Row) (hr : r ∈ t) (n : Str) (hn : r.next = some n) : n ∈ states t := by
  unfold states
  rw [mem_states_foldl]
  exact Or.inr ⟨r, hr, Or.inr hn⟩

/-- **Sequences.** Any event sequence with a (possibly different) guard valuation per event:
    the generated machine and the table agree on the whole callback trace and final state. -/
def runGen (t : List Row) : Str → List (Str × (Str → Bool)) → Str × List Cb
  | cur, [] => (cur, [])
  | cur, (e, val) :: rest =>
    let r := process (emit t) cur e val
    let r' := runGen t r.1 rest
    (r'.1, r.2 ++ r'.2)

theorem C08_sequences (t : List Row) (cur : Str) (evs : List (Str × (Str → Bool)))
    (hcur : cur ∈ states t ∨ cur ∈ sourceStates t) :
    runGen t cur evs = runRef t cur evs := by
  induction evs generalizing cur with
  | nil => rfl
  | cons ev evs ih =>
    obtain ⟨e, val⟩ := ev
    simp only [runGen, runRef]
    rw [C08_refines_table t cur e val hcur]
    have hnext : (stepRef t cur e val).1 ∈ states t ∨ (stepRef t cur e val).1 ∈ sourceStates t := by
      unfold stepRef
      apply tryRows_state val _ cur _ (fun s => s ∈ states t ∨ s ∈ sourceStates t) hcur
      intro r hr n hn
      have hrt : r ∈ t := (List.mem_filter.1 hr).1
      exact Or.inl (mem_states_of_next t r hrt n hn)
    rw [ih _ hnext]

/-- **Initial state.** The constructor calls the entry callback of the first row's start
    state and starts there. -/
theorem C08_initial (r : Row) (t : List Row) :
    construct (emit (r :: t)) = some (r.src, [Cb.entry r.src]) := by
  simp [construct, emit, initial]

theorem initial_mem_sourceStates (r : Row) (t : List Row) : r.src ∈ sourceStates (r :: t) := by
  rw [mem_sourceStates]; exact ⟨r, by simp, rfl⟩

/-! ### the module imports: indentation structure of the emitted text -/

def S4 : List Nat := [4, 0]
def S16 : List Nat := [16, 12, 8, 4, 0]

theorem body_ok (n : Nat) (rest : List PyLine) (h : indentOK S16 false rest = true) :
    indentOK S16 false (List.replicate n (⟨16, false⟩ : PyLine) ++ rest) = true := by
  induction n with
  | zero => simpa using h
  | succ n ih =>
    simp only [List.replicate_succ, List.cons_append]
    simpa [indentOK, S16, List.dropWhile] using ih

theorem blockLines_eq (b : Block) :
    blockLines b = ⟨12, true⟩ :: List.replicate b.body.length (⟨16, false⟩ : PyLine) := by
  simp [blockLines, List.map_const']

/-- a guard block right after `if isinstance(…):` -/
theorem block_ok_first (b : Block) (hb : b.body ≠ []) (rest : List PyLine)
    (h : indentOK S16 false rest = true) :
    indentOK [8, 4, 0] true (blockLines b ++ rest) = true := by
  obtain ⟨n, hn⟩ : ∃ n, b.body.length = n + 1 := by
    cases hbody : b.body with
    | nil => exact absurd hbody hb
    | cons x xs => exact ⟨xs.length, by simp⟩
  rw [blockLines_eq, hn]
  have := body_ok n rest h
  simpa [indentOK, S16, List.replicate_succ, List.dropWhile] using this

/-- a guard block after the body of the previous one -/
theorem block_ok_next (b : Block) (hb : b.body ≠ []) (rest : List PyLine)
    (h : indentOK S16 false rest = true) :
    indentOK S16 false (blockLines b ++ rest) = true := by
  obtain ⟨n, hn⟩ : ∃ n, b.body.length = n + 1 := by
    cases hbody : b.body with
    | nil => exact absurd hbody hb
    | cons x xs => exact ⟨xs.length, by simp⟩
  rw [blockLines_eq, hn]
  have := body_ok n rest h
  simpa [indentOK, S16, List.replicate_succ, List.dropWhile] using this

theorem blocks_ok_next (bs : List Block) (hbs : ∀ b ∈ bs, b.body ≠ []) (rest : List PyLine)
    (h : indentOK S16 false rest = true) :
    indentOK S16 false ((bs.map blockLines).flatten ++ rest) = true := by
  induction bs with
  | nil => simpa using h
  | cons b bs ih =>
    simp only [List.map_cons, List.flatten_cons, List.append_assoc]
    exact block_ok_next b (hbs b (by simp)) _ (ih (fun x hx => hbs x (by simp [hx])))

def EvOK (eb : EvBlock) : Prop := eb.blocks ≠ [] ∧ ∀ b ∈ eb.blocks, b.body ≠ []

theorem ev_ok_from16 (eb : EvBlock) (hok : EvOK eb) (rest : List PyLine)
    (h : indentOK S16 false rest = true) :
    indentOK S16 false (evLines eb ++ rest) = true := by
  obtain ⟨b, bs, hbs⟩ : ∃ b bs, eb.blocks = b :: bs := by
    cases hb : eb.blocks with
    | nil => exact absurd hb hok.1
    | cons b bs => exact ⟨b, bs, rfl⟩
  have hbody := hok.2
  rw [hbs] at hbody
  simp only [evLines, hbs, List.map_cons, List.flatten_cons, List.cons_append, List.append_assoc]
  have h2 := blocks_ok_next bs (fun x hx => hbody x (by simp [hx])) rest h
  have h1 := block_ok_first b (hbody b (by simp)) _ h2
  simpa [indentOK, S16, List.dropWhile] using h1

theorem ev_ok_first (eb : EvBlock) (hok : EvOK eb) (rest : List PyLine)
    (h : indentOK S16 false rest = true) :
    indentOK S4 true (evLines eb ++ rest) = true := by
  obtain ⟨b, bs, hbs⟩ : ∃ b bs, eb.blocks = b :: bs := by
    cases hb : eb.blocks with
    | nil => exact absurd hb hok.1
    | cons b bs => exact ⟨b, bs, rfl⟩
  have hbody := hok.2
  rw [hbs] at hbody
  simp only [evLines, hbs, List.map_cons, List.flatten_cons, List.cons_append, List.append_assoc]
  have h2 := blocks_ok_next bs (fun x hx => hbody x (by simp [hx])) rest h
  have h1 := block_ok_first b (hbody b (by simp)) _ h2
  simpa [indentOK, S4] using h1

theorem evs_ok_from16 (evs : List EvBlock) (hok : ∀ eb ∈ evs, EvOK eb) (rest : List PyLine)
    (h : indentOK S16 false rest = true) :
    indentOK S16 false ((evs.map evLines).flatten ++ rest) = true := by
  induction evs with
  | nil => simpa using h
  | cons eb evs ih =>
    simp only [List.map_cons, List.flatten_cons, List.append_assoc]
    exact ev_ok_from16 eb (hok eb (by simp)) _ (ih (fun x hx => hok x (by simp [hx])))

theorem fn_ok (fn : StateFn) (hok : ∀ eb ∈ fn.evs, EvOK eb) :
    indentOK S4 false (fnLines fn) = true := by
  have htail : indentOK S16 false [⟨8, false⟩, ⟨8, false⟩] = true := by decide
  unfold fnLines
  cases hevs : fn.evs with
  | nil => decide
  | cons eb evs =>
    rw [hevs] at hok
    simp only [List.map_cons, List.flatten_cons, List.cons_append, List.append_assoc]
    have h2 := evs_ok_from16 evs (fun x hx => hok x (by simp [hx])) _ htail
    have h1 := ev_ok_first eb (hok eb (by simp)) _ h2
    simpa [indentOK, S4, List.dropWhile] using h1

/-- **The generated module imports**, for every table: each emitted process function obeys
    CPython's indentation rule (every `if …:` is followed by a deeper line — in particular a
    row without guard keeps its own `if True:` block — and every dedent returns to an
    enclosing level). -/
theorem C08_imports (t : List Row) : ∀ fn ∈ (emit t).fns, indentOK S4 false (fnLines fn) = true := by
  intro fn hfn
  apply fn_ok
  simp only [emit, List.mem_map] at hfn
  obtain ⟨s, _, rfl⟩ := hfn
  intro eb heb
  simp only [List.mem_map] at heb
  obtain ⟨e, he, rfl⟩ := heb
  constructor
  · simp only [ne_eq, List.map_eq_nil_iff]
    intro hnil
    obtain ⟨r, hr, hs, hev⟩ := (mem_eventsOf t s e).1 he
    have : r ∈ rowsFor t s e := by
      simp [rowsFor, hr, hs, hev]
    rw [hnil] at this; cases this
  · intro b hb
    simp only [List.mem_map] at hb
    obtain ⟨r, _, rfl⟩ := hb
    simp [emitBlock]

/-! non-vacuity: guarded row with unguarded fallback, unguarded before guarded, target-only state -/
section Example
open Str
def exT : List Row :=
  [⟨ofString "S1", ofString "EvA", some (ofString "S2"), some (ofString "ActA"), some (ofString "G1"), false⟩,
   ⟨ofString "S1", ofString "EvA", some (ofString "S3"), some (ofString "ActB"), none, false⟩,
   ⟨ofString "S2", ofString "EvA", none, some (ofString "ActA"), none, false⟩,
   ⟨ofString "S2", ofString "EvA", some (ofString "S1"), none, some (ofString "G1"), false⟩]
example : ofString "S3" ∈ states exT ∧ ofString "S3" ∉ sourceStates exT := by decide
example : process (emit exT) (ofString "S1") (ofString "EvA") (fun _ => false)
    = (ofString "S3", [Cb.guard (ofString "G1"), Cb.exit (ofString "S1"), Cb.action (ofString "ActB") (ofString "EvA"), Cb.entry (ofString "S3")]) := by decide
example : process (emit exT) (ofString "S3") (ofString "EvA") (fun _ => true) = (ofString "S3", [Cb.noTransition]) := by decide
end Example

end KojenVerif.C08
