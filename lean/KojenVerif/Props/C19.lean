import KojenVerif.Lemmas.Uml
import KojenVerif.Lemmas.UmlInc
import KojenVerif.Model.UmlTypes
/-
  C19 — UML class generation is complete, namespace-faithful and self-consistent.

  `Uml` models which files `umlgen.py` produces for the elements of a class diagram and where
  it puts them, and the nested-namespace wrapper; it is compared every run with the file list
  the real generator reports (shipped diagrams and SQL-level mutants, both back ends, folders
  on / off).  Proved about the model, with the template file names and the file-name
  replacements regenerated from the sources:
  an element is expanded from exactly one template set, decided by its flags (`C19_kind`);
  with the shipped C++ templates a concrete class yields exactly `Name.h` and `Name.cpp`, an
  interface / enumeration / struct exactly `Name.h`, anything else nothing
  (`C19_one_header_plus_source`); with namespace folders the file lies in the folder chain of
  the package namespace, without them (or without a package) at the top (`C19_folder_chain`);
  the wrapper opens and closes exactly the namespace's components, in order
  (`C19_namespace_wrapper`); distinct names give distinct files (`C19_distinct_names`).
  The include lines of a C++ header (`Model/UmlInc`, after the fixes 64466e3 / f2d600b, compared with
  `LanguageCPP.GetNotForwardDeclarableHeaderIncludes` on every class of every generated diagram): the
  own namespace is removed as a leading qualification only (`C19_own_namespace_prefix_only`), and the path
  written for a type is the place of that type's header, seen from the including file's folder or from
  the output root (`C19_include_entry`, `C19_includes_namespace_faithful`).
  Decided on the real output only (not modelled): declaration / definition pairing, overrides of
  realised pure-virtual interfaces, acceptance by g++ (partial; see the check).
-/
namespace KojenVerif.C19
open Uml Str

/-- the regenerated file-name replacements are the ones the model uses -/
theorem C19_facts :
    Generated.umlKindKeys = [(S "Class", S "ClassTemplate"), (S "Interface", S "InterfaceTemplate"),
                             (S "Enum", S "EnumTemplate"), (S "Struct", S "StructTemplate")] ∧
    Generated.umlNameTail = [(S ".ty", S ".py"), (S ".t", S ".h"), (S ".hpp", S ".cpp")] := by decide

/-- **Kind.** Exactly one of: class, interface, enumeration, struct, nothing — by the flags. -/
theorem C19_kind (e : Elem) :
    (kindOf e = .cls ↔ (e.isEnum = false ∧ e.isStruct = false ∧ e.autogen = false ∧ e.pvi = false)) ∧
    (kindOf e = .iface ↔ (e.isEnum = false ∧ e.isStruct = false ∧ e.autogen = false ∧ e.pvi = true)) ∧
    (kindOf e = .enum ↔ (e.isEnum = true ∧ e.isStruct = false)) ∧
    (kindOf e = .struct ↔ (e.isEnum = false ∧ e.isStruct = true)) := by
  obtain ⟨n, ns, a, b, c, d⟩ := e
  cases a <;> cases b <;> cases c <;> cases d <;> simp [kindOf]

theorem outName_single (key name : Str) (k : Nat) (ks : Str) (hk : key = k :: ks) (h46 : k ≠ 46) (h116 : k ≠ 116)
    (h : NoChar 46 name) : outName key name (key ++ S ".t") = name ++ S ".h" := by
  unfold outName
  simp only [Uml.applySubst, List.foldl_cons]
  rw [key_at_start key name _ (by rw [hk]; simp)]
  have k1 : pyReplace key name (S ".t") = S ".t" := by
    rw [hk]
    have hn : NoChar k (S ".t") := by
      intro x hx
      have : S ".t" = [46, 116] := by decide
      rw [this] at hx
      simp at hx
      rcases hx with e | e
      · subst e; exact fun e => h46 e.symm
      · subst e; exact fun e => h116 e.symm
    have := pyReplace_nochar k ks name (S ".t") [] (fun x hx => (hn x hx))
    simpa [pyReplace, replaceAux] using this
  rw [k1]
  exact tail_h name h

/-- **Exactly one header, plus one source file for a concrete class** (shipped C++ templates). -/
theorem C19_one_header_plus_source (e : Elem) (h : NoChar 46 e.name) :
    filesOf Generated.umlTemplatesCPP false e =
      match kindOf e with
      | .cls => [e.name ++ S ".h", e.name ++ S ".cpp"]
      | .iface | .enum | .struct => [e.name ++ S ".h"]
      | .none => [] := by
  unfold filesOf
  cases hk : kindOf e with
  | cls =>
    have hs : selected Generated.umlTemplatesCPP (S "Class") = [S "ClassTemplate.t", S "ClassTemplate.tpp"] := by decide
    simp only [filterKey, hs, List.map_cons, List.map_nil, placed_flat]
    rw [(outName_class e.name h).1, (outName_class e.name h).2]
  | iface =>
    have hs : selected Generated.umlTemplatesCPP (S "Interface") = [S "InterfaceTemplate.t"] := by decide
    simp only [filterKey, hs, List.map_cons, List.map_nil, placed_flat]
    have e1 : S "InterfaceTemplate.t" = S "InterfaceTemplate" ++ S ".t" := by decide
    rw [e1, outName_single (S "InterfaceTemplate") e.name 73 (S "nterfaceTemplate") (by decide) (by decide) (by decide) h]
  | enum =>
    have hs : selected Generated.umlTemplatesCPP (S "Enum") = [S "EnumTemplate.t"] := by decide
    simp only [filterKey, hs, List.map_cons, List.map_nil, placed_flat]
    have e1 : S "EnumTemplate.t" = S "EnumTemplate" ++ S ".t" := by decide
    rw [e1, outName_single (S "EnumTemplate") e.name 69 (S "numTemplate") (by decide) (by decide) (by decide) h]
  | struct =>
    have hs : selected Generated.umlTemplatesCPP (S "Struct") = [S "StructTemplate.t"] := by decide
    simp only [filterKey, hs, List.map_cons, List.map_nil, placed_flat]
    have e1 : S "StructTemplate.t" = S "StructTemplate" ++ S ".t" := by decide
    rw [e1, outName_single (S "StructTemplate") e.name 83 (S "tructTemplate") (by decide) (by decide) (by decide) h]
  | none => simp [filterKey]

/-- **Folder chain.** With namespace folders a file of an element in package `A::B::…` lies in
    `A/B/…/`; without them, or outside any package, at the top of the output directory. -/
theorem C19_folder_chain (comps : List Str) (fname : Str) (hc : ∀ c ∈ comps, NoChar 58 c)
    (hnz : joinPath comps ≠ []) (hl : (joinPath comps).getLast? ≠ some 47) :
    placed true (joinNs comps) fname = joinPath comps ++ [47] ++ fname ∧
    placed false (joinNs comps) fname = fname ∧ placed true [] fname = fname := by
  have hf := folder_chain comps hc
  refine ⟨?_, placed_flat _ _, placed_no_package _ _⟩
  rw [placed_folders (joinNs comps) fname (by rw [hf]; exact hnz) (by rw [hf]; exact hl), hf]

/-- **Namespace wrapper.** The wrapper is built from exactly the components of the package
    namespace, in order: one `namespace c {` per component and as many closing braces. -/
theorem C19_namespace_wrapper (comps : List Str) (hne : comps ≠ []) (hc : ∀ c ∈ comps, NoChar 58 c) :
    nsBegin (joinNs comps) = lstripChars [SP] ((comps.map (fun n => S " namespace " ++ n ++ S " { ")).flatten) ∧
    nsEnd (joinNs comps) = lstrip ((comps.map (fun _ => S " } ")).flatten) := by
  unfold nsBegin nsEnd
  rw [split_joinNs comps hne hc]
  exact ⟨rfl, rfl⟩

/-- **Distinct names, distinct files** (same folder): the header names of two elements coincide
    only if the elements' names do. -/
theorem C19_distinct_names (dir a b ext : Str) (h : dir ++ (a ++ ext) = dir ++ (b ++ ext)) : a = b :=
  List.append_cancel_right (List.append_cancel_left h)

/-- **Own namespace: a leading qualification only.** -/
theorem C19_own_namespace_prefix_only (f ns : Str) :
    stripOwn f ns = f ∨ (ns ≠ [] ∧ f = ns ++ S "::" ++ stripOwn f ns) := stripOwn_prefix_only f ns

/-- **One include entry**: for a holder in namespace `hns` and a type `tns::name` (components free of ':'),
    the path is the folder chain of the components that remain after the holder's own namespace has been
    removed from the front, the file is `name.h`. -/
theorem C19_include_entry (hns tns : List Str) (name : Str)
    (hh : ∀ c ∈ hns, NoChar 58 c ∧ c ≠ []) (ht : ∀ c ∈ tns ++ [name], NoChar 58 c) :
    incEntry (joinNs hns) (joinNs (tns ++ [name])) = (joinDirs ((relComps hns tns name).dropLast), name) :=
  incEntry_comps hns tns name hh ht

/-- **Includes are namespace-faithful.**  With namespace folders on, the include written for a type names the
    file the generator produces for that type (`C19_folder_chain`): relative to the including header's own
    folder when the type lies in (a sub-namespace of) the holder's namespace, relative to the output root
    otherwise — for all namespaces and names, in particular for package names that end or begin alike and for
    packages named after one of their classes. -/
theorem C19_includes_namespace_faithful (hns tns : List Str) (name : Str)
    (hh : ∀ c ∈ hns, NoChar 58 c ∧ c ≠ []) (ht : ∀ c ∈ tns, c ≠ [] ∧ NoChar 47 c ∧ NoChar 58 c) (hn : NoChar 58 name) :
    placed true (joinNs tns) (name ++ S ".h") =
      (if inOwn hns tns name then joinDirs hns else []) ++
        (incEntry (joinNs hns) (joinNs (tns ++ [name]))).1 ++ (incEntry (joinNs hns) (joinNs (tns ++ [name]))).2 ++ S ".h" :=
  include_is_placement hns tns name hh ht hn

/-- **Declared before use.**  Every non-primitive type a class mentions — as a base, in an attribute, a parameter
    or a return value, through a composition, an aggregation or an association — is either among the types its header
    includes or among those it forward declares (`Model/UmlTypes`, the set logic of
    `GetNotForwardDeclarable… / GetForwardDeclarableNonPrimitiveTypesLinkedToThis`, compared with the real functions on
    every class of every generated diagram), whatever `IsTypePrimitive`, `IsTypePointerOrRef` and the enumeration test answer. -/
theorem C19_declared_before_use (prim ptr enum : Str → Bool) (c : UmlTypes.Cls) (t : Str)
    (ht : t ∈ UmlTypes.mentioned c) (hp : prim t = false) :
    t ∈ UmlTypes.notFwd prim ptr enum c ∨ t ∈ UmlTypes.fwd prim ptr enum c :=
  UmlTypes.declared_before_use prim ptr enum c t ht hp

/-- a forward declared type is never an enumeration reached through an attribute / parameter / return value
    (fix 14b3b42): those are included -/
theorem C19_enum_never_forward_declared (prim ptr enum : Str → Bool) (c : UmlTypes.Cls) (t : Str)
    (h : t ∈ UmlTypes.fwd prim ptr enum c) :
    (∃ u ∈ c.uses, u.type = t ∧ enum t = false ∧ ptr u.modifier = true) ∨ t ∈ c.pointers :=
  UmlTypes.fwd_not_enum_by_use prim ptr enum c t h

/-! non-vacuity: the shipped diagram's shape -/
section Example
def exElems : List Elem :=
  [ { name := S "CChildClass", ns := S "XRel", isEnum := false, isStruct := false, autogen := false, pvi := false },
    { name := S "ISuperClass", ns := S "XRel", isEnum := false, isStruct := false, autogen := false, pvi := true },
    { name := S "EColor", ns := S "XTypes::Inner", isEnum := true, isStruct := false, autogen := false, pvi := false },
    { name := S "sPacked", ns := [], isEnum := false, isStruct := true, autogen := false, pvi := false },
    { name := S "CGenerated", ns := S "XRel", isEnum := false, isStruct := false, autogen := true, pvi := false } ]
example : fileList Generated.umlTemplatesCPP true (S "D") exElems [S "XRel", S "XTypes::Inner", []] =
    [S "XRel/CChildClass.h", S "XRel/CChildClass.cpp", S "XRel/ISuperClass.h", S "XTypes/Inner/EColor.h", S "sPacked.h"] := by decide
example : nsBegin (S "XTypes::Inner") = S "namespace XTypes {  namespace Inner { " ∧ nsEnd (S "XTypes::Inner") = S "}  } " := by decide
/-! the three shapes the fixes are about: names that end alike, a package named after its class, a sub-namespace -/
example : includes true (S "Types") [S "Types::Local", S "XTypes::sMyStruct", S "sMyStructs::sMyStruct", S "Types::Sub::Deep"]
      [S "Local", S "sMyStruct", S "Deep"] =
    S "#include \"Local.h\"\n#include \"XTypes/sMyStruct.h\"\n#include \"sMyStructs/sMyStruct.h\"\n#include \"Sub/Deep.h\"\n" := by decide
end Example

end KojenVerif.C19
