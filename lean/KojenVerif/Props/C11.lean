import KojenVerif.Lemmas.PyQueue
/-
  C11 — threaded Python state machine: exactly-once FIFO, run-to-completion, stop() ends.

  Model: `Model/PyQueue` (template after fix 8102b3d).  "All interleavings of N producer
  threads, the worker and the stopping thread, with events triggered from inside callbacks"
  = all label sequences from `init`; every theorem below is for every reachable state.
  Real time plays no role any more (the fixed template has no time-out).
-/
namespace KojenVerif.C11
open PyQueue

variable (totals : Nat → Nat) (cbTotal : Nat)

/-- **Exactly once, in each producer's trigger order.** The `process` calls that have begun
    for events of one source (a producer thread, or the callbacks on the worker) are a
    prefix of that source's trigger order: none twice, none out of order, none invented.
    Together with the queue and the events waiting for synchronous processing they are
    *all* events triggered so far (nothing is lost). -/
theorem C11_exactly_once_fifo (s : St) (h : Reachable totals cbTotal s) (src : Src) :
    begunOf src s ++ queueOf src s ++ pendingOf src s = (List.range (triggered src s)).map (fun i => (src, i)) :=
  (reachable_inv totals cbTotal s h).chain src

theorem C11_fifo_prefix (s : St) (h : Reachable totals cbTotal s) (src : Src) :
    begunOf src s <+: (List.range (triggered src s)).map (fun i => (src, i)) := by
  rw [← C11_exactly_once_fifo totals cbTotal s h src, List.append_assoc]
  exact List.prefix_append _ _

/-- **Run to completion**: never two `process` bodies active — the worker is not processing
    while some thread processes synchronously, and at most one thread does that. -/
theorem C11_run_to_completion (s : St) (h : Reachable totals cbTotal s) :
    (s.syncOwner ≠ none → s.cur = none) ∧
    (∀ p q i j, (s.prods p).phase = .syncProc i → (s.prods q).phase = .syncProc j → p = q) := by
  have inv := reachable_inv totals cbTotal s h
  constructor
  · intro ho
    exact (inv.dead (inv.syncDead ho)).2.2
  · intro p q i j hp hq
    have h1 := (inv.lock p).1 ⟨i, hp⟩
    have h2 := (inv.lock q).1 ⟨j, hq⟩
    rw [h1] at h2
    exact Option.some.inj h2

/-- **stop() returns only after everything queued has been processed**: when it has
    returned, the queue is empty, the worker has left `run()` and is not inside `process`. -/
theorem C11_stop_postcondition (s : St) (h : Reachable totals cbTotal s) (hr : s.stopper = .returned) :
    s.alive = false ∧ s.queue = [] ∧ s.cur = none ∧ ∀ src, queueOf src s = [] := by
  have inv := reachable_inv totals cbTotal s h
  have hd := inv.returned hr
  obtain ⟨hq, _, hc⟩ := inv.dead hd
  exact ⟨hd, hq, hc, fun src => by simp [queueOf, hq, evsOf]⟩

/-- **No event is processed by the worker after stop() has returned**: no worker step is
    enabled any more (and never will be: `alive` is never set again). -/
theorem C11_nothing_after_stop (s : St) (h : Reachable totals cbTotal s) (hr : s.stopper = .returned) :
    step s .wGet = none ∧ step s .wCb = none ∧ step s .wEnd = none := by
  have hd := (C11_stop_postcondition totals cbTotal s h hr).1
  simp [step, hd]

theorem alive_never_returns (s s' : St) (l : Label) (hs : step s l = some s') (hd : s.alive = false) : s'.alive = false := by
  cases l <;> simp only [step] at hs
  · split at hs
    · split at hs <;> (simp only [Option.some.injEq] at hs; subst hs; exact hd)
    · cases hs
  · split at hs
    · split at hs
      · simp only [Option.some.injEq] at hs; subst hs; exact hd
      · cases hs
    · cases hs
  · split at hs
    · split at hs
      · simp only [Option.some.injEq] at hs; subst hs; exact hd
      · cases hs
    · cases hs
  · simp [hd] at hs
  · simp [hd] at hs
  · simp [hd] at hs
  · split at hs
    · split at hs <;> (simp only [Option.some.injEq] at hs; subst hs; exact hd)
    · cases hs
  · split at hs
    · simp only [Option.some.injEq] at hs; subst hs; exact hd
    · cases hs

/-- **No deadlock in stop()**: while stop() waits, the worker can always take a step, or it
    is gone and stop() can return. -/
theorem C11_no_deadlock (s : St) (h : Reachable totals cbTotal s) (hj : s.stopper = .joining) :
    (step s .wGet).isSome ∨ (step s .wEnd).isSome ∨ (step s .stopJoin).isSome := by
  have inv := reachable_inv totals cbTotal s h
  cases ha : s.alive with
  | false => right; right; simp [step, hj, ha]
  | true =>
    have hflag : s.flag = false := by
      cases hf : s.flag with
      | false => rfl
      | true => have := inv.flagStop.1 hf; rw [hj] at this; cases this
    cases hc : s.cur with
    | some e => right; left; simp [step, ha, hc]
    | none =>
      left
      have hm := inv.marker hflag ha
      cases hq : s.queue with
      | nil => rw [hq] at hm; cases hm
      | cons x rest =>
        cases x with
        | some e => simp [step, ha, hc, hq]
        | none => cases rest <;> simp [step, ha, hc, hq]

/-! ### termination of stop(): a variant that every worker step decreases -/

def queuedEvents : List (Option Ev) → Nat
  | [] => 0
  | none :: q => queuedEvents q
  | some _ :: q => queuedEvents q + 1

def headMarker : List (Option Ev) → Nat
  | none :: _ :: _ => 1
  | _ => 0

def markers : List (Option Ev) → Nat
  | [] => 0
  | none :: q => markers q + 1
  | some _ :: q => markers q

/-- work the worker still has before it can leave `run()` -/
def measure (s : St) : Nat :=
  if s.alive then 1 + 6 * (s.cbTotal - s.cbNext) + 4 * queuedEvents s.queue + (if s.cur = none then 0 else 2) + headMarker s.queue
  else 0

theorem queuedEvents_append (a b : List (Option Ev)) : queuedEvents (a ++ b) = queuedEvents a + queuedEvents b := by
  induction a with
  | nil => simp [queuedEvents]
  | cons x a ih => cases x <;> simp [queuedEvents, ih] <;> omega

theorem markers_append (a b : List (Option Ev)) : markers (a ++ b) = markers a + markers b := by
  induction a with
  | nil => simp [markers]
  | cons x a ih => cases x <;> simp [markers, ih] <;> omega

/-- at most one stop marker is ever in the queue -/
theorem markers_le_one (s : St) (h : Reachable totals cbTotal s) : markers s.queue ≤ 1 ∧ (s.flag = true → markers s.queue = 0) := by
  obtain ⟨ls, hr⟩ := h
  suffices H : ∀ (ls : List Label) (s0 : St), (markers s0.queue ≤ 1 ∧ (s0.flag = true → markers s0.queue = 0)) →
      run s0 ls = some s → (markers s.queue ≤ 1 ∧ (s.flag = true → markers s.queue = 0)) from
    H ls _ (by simp [init, markers]) hr
  intro ls
  induction ls with
  | nil => intro s0 h0 hr; simp [run] at hr; subst hr; exact h0
  | cons l ls ih =>
    intro s0 h0 hr
    simp only [run] at hr
    cases hst : step s0 l with
    | none => rw [hst] at hr; cases hr
    | some s1 =>
      rw [hst] at hr
      apply ih s1 _ hr
      cases l <;> simp only [step] at hst
      · split at hst
        · by_cases hf : s0.flag = true
          · rw [if_pos hf] at hst; simp only [Option.some.injEq] at hst; subst hst
            have := h0.2 hf
            simp [markers_append, markers, this, hf]
          · rw [if_neg hf] at hst; simp only [Option.some.injEq] at hst; subst hst; exact h0
        · cases hst
      · split at hst
        · split at hst
          · simp only [Option.some.injEq] at hst; subst hst; exact h0
          · cases hst
        · cases hst
      · split at hst
        · split at hst
          · simp only [Option.some.injEq] at hst; subst hst; exact h0
          · cases hst
        · cases hst
      · split at hst
        · cases hq : s0.queue with
          | nil => rw [hq] at hst; cases hst
          | cons x rest =>
            rw [hq] at hst
            rw [hq] at h0
            cases x with
            | some e =>
              simp only [Option.some.injEq] at hst; subst hst
              simpa [markers] using h0
            | none =>
              cases rest with
              | nil => simp only [Option.some.injEq] at hst; subst hst; simp [markers]
              | cons y r =>
                simp only [Option.some.injEq] at hst; subst hst
                simp only [markers, markers_append] at h0 ⊢
                constructor
                · have := h0.1; cases y <;> simp [markers] at this ⊢ <;> omega
                · intro hf; have := h0.2 hf; omega
        · cases hst
      · split at hst
        · simp only [Option.some.injEq] at hst; subst hst
          simp only [markers_append, markers]
          exact ⟨by have := h0.1; omega, fun hf => by have := h0.2 hf; omega⟩
        · cases hst
      · split at hst
        · simp only [Option.some.injEq] at hst; subst hst; exact h0
        · cases hst
      · split at hst
        · by_cases hf : s0.flag = true
          · rw [if_pos hf] at hst; simp only [Option.some.injEq] at hst; subst hst
            have := h0.2 hf
            simp [markers_append, markers, this]
          · rw [if_neg hf] at hst; simp only [Option.some.injEq] at hst; subst hst; exact h0
        · cases hst
      · split at hst
        · simp only [Option.some.injEq] at hst; subst hst; exact h0
        · cases hst

/-- **Every worker step strictly decreases the variant** (in any reachable state). -/
theorem C11_worker_step_decreases (s s' : St) (h : Reachable totals cbTotal s) (l : Label)
    (hl : l = .wGet ∨ l = .wCb ∨ l = .wEnd) (hs : step s l = some s') : measure s' < measure s := by
  have hm := (markers_le_one totals cbTotal s h).1
  rcases hl with rfl | rfl | rfl <;> simp only [step] at hs
  · by_cases hg : s.alive = true ∧ s.cur = none
    · rw [if_pos hg] at hs
      cases hq : s.queue with
      | nil => rw [hq] at hs; cases hs
      | cons x rest =>
        rw [hq] at hs hm
        cases x with
        | some e =>
          simp only [Option.some.injEq] at hs; subst hs
          have h1 : headMarker rest ≤ 1 := by
            cases rest with
            | nil => simp [headMarker]
            | cons a r => cases a <;> cases r <;> simp [headMarker]
          have h2 : headMarker (some e :: rest) = 0 := by simp [headMarker]
          have hms : measure s = 1 + 6 * (s.cbTotal - s.cbNext) + 4 * (queuedEvents rest + 1) + 0 + 0 := by
            simp only [measure, hg.1, hg.2, if_true, hq, queuedEvents, h2]
          have hms' : measure { s with queue := rest, cur := some e, begun := s.begun ++ [e] }
              = 1 + 6 * (s.cbTotal - s.cbNext) + 4 * queuedEvents rest + 2 + headMarker rest := by
            simp [measure, hg.1]
          rw [hms, hms']; omega
        | none =>
          cases rest with
          | nil =>
            simp only [Option.some.injEq] at hs; subst hs
            have hms' : measure { s with queue := [], alive := false } = 0 := by simp [measure]
            have hms : 0 < measure s := by simp only [measure, hg.1, if_true]; omega
            rw [hms']; exact hms
          | cons y r =>
            simp only [Option.some.injEq] at hs; subst hs
            cases y with
            | none => simp [markers] at hm
            | some e =>
              have h2 : headMarker (some e :: (r ++ [none])) = 0 := by simp [headMarker]
              have h3 : headMarker (none :: some e :: r) = 1 := by simp [headMarker]
              have hms : measure s = 1 + 6 * (s.cbTotal - s.cbNext) + 4 * (queuedEvents r + 1) + 0 + 1 := by
                simp only [measure, hg.1, hg.2, if_true, hq, queuedEvents, h3]
              have hms' : measure { s with queue := some e :: r ++ [none] }
                  = 1 + 6 * (s.cbTotal - s.cbNext) + 4 * (queuedEvents r + 1) + 0 + 0 := by
                have : (some e :: r ++ [none] : List (Option Ev)) = some e :: (r ++ [none]) := rfl
                simp only [measure, hg.1, hg.2, if_true, this, queuedEvents, queuedEvents_append, h2]
              rw [hms, hms']; omega
    · rw [if_neg hg] at hs; cases hs
  · split at hs
    · rename_i hg
      simp only [Option.some.injEq] at hs; subst hs
      simp only [measure, hg.1, if_true, queuedEvents_append, queuedEvents]
      have hcur : ¬ s.cur = none := hg.2.1
      have hh : headMarker (s.queue ++ [some (none, s.cbNext)]) ≤ headMarker s.queue + 1 := by
        cases hq : s.queue with
        | nil => simp [headMarker]
        | cons a r => cases a <;> cases r <;> simp [headMarker]
      simp only [hcur, if_false]
      have := hg.2.2.1
      omega
    · cases hs
  · split at hs
    · rename_i hg
      simp only [Option.some.injEq] at hs; subst hs
      have hcur : ¬ s.cur = none := hg.2
      simp [measure, hg.1, hcur]
    · cases hs

/-- **Once stop() has been called no other thread adds work**: a step of a producer or of
    the stopper leaves the variant unchanged when the flag is down. -/
theorem C11_other_step_keeps_measure (s s' : St) (l : Label) (hf : s.flag = false)
    (hl : (∃ p, l = .trig p) ∨ (∃ p, l = .syncBegin p) ∨ (∃ p, l = .syncEnd p) ∨ l = .stopJoin)
    (hs : step s l = some s') : measure s' = measure s := by
  rcases hl with ⟨p, rfl⟩ | ⟨p, rfl⟩ | ⟨p, rfl⟩ | rfl <;> simp only [step] at hs
  · split at hs
    · simp only [hf, Bool.false_eq_true, if_false, Option.some.injEq] at hs; subst hs; rfl
    · cases hs
  · split at hs
    · split at hs
      · simp only [Option.some.injEq] at hs; subst hs; rfl
      · cases hs
    · cases hs
  · split at hs
    · split at hs
      · simp only [Option.some.injEq] at hs; subst hs; rfl
      · cases hs
    · cases hs
  · split at hs
    · simp only [Option.some.injEq] at hs; subst hs; rfl
    · cases hs

/-! non-vacuity: two producers, a callback-triggered event, stop() with a non-empty queue -/
section Example
def exLabels : List Label :=
  [.trig 0, .trig 1, .trig 0, .wGet, .stopCall, .trig 1, .wCb, .wEnd, .wGet, .wEnd, .wGet, .wEnd, .wGet, .wGet, .wEnd, .wGet,
   .stopJoin, .syncBegin 1, .syncEnd 1]
example : (run (init (fun _ => 2) 1) exLabels).map (fun s => s.begun) =
    some [(some 0, 0), (some 1, 0), (some 0, 1), (none, 0), (some 1, 1)] := by decide
example : (run (init (fun _ => 2) 1) exLabels).map (fun s => (s.alive, s.queue.length)) = some (false, 0) := by decide
end Example

end KojenVerif.C11
