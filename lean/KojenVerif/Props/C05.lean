import KojenVerif.Lemmas.OutStage
import KojenVerif.Lemmas.OutStageRun
/-
  C05 — interrupted generation never destroys an existing file (per-file atomicity).

  `script` is the output stage after fix e585c69, one `Op` per system-level operation;
  `crashAt ops k cut` is process death after `k` operations with an arbitrary prefix of the
  buffered data on disk; `errorAt ops k` is an exception raised by operation `k` (the
  handler removes the temporary file).  Expansion and preservation perform no writes at
  all: in `Model/Pipeline.regen` they are pure functions producing the code model that
  `script` consumes (validated against the real run by the I/O tracer in the check).
  Assumed: POSIX `rename` is atomic; distinct path strings of the script denote distinct
  files.
-/
namespace KojenVerif.C05
open Str

theorem script_tmp (outdir : Str) (cm : CodeModel) :
    ∀ op ∈ script outdir cm, ∀ t, op.tmpOf = some t → ∃ kv ∈ cm, t = Path.join outdir kv.1 ++ tmpSuffix := by
  intro op hop t ht
  simp only [script, List.mem_flatten, List.mem_map] at hop
  obtain ⟨ops, ⟨kv, hkv, rfl⟩, hop⟩ := hop
  refine ⟨kv, hkv, ?_⟩
  rw [entryOps_eq] at hop
  simp only [List.mem_append, List.mem_singleton] at hop
  rcases hop with h | h
  · exact entryPre_tmp _ _ op h t ht
  · subst h; simp [Op.tmpOf] at ht; exact ht.symm

/-- **Process death at any operation.** For every operation index `k` of the output stage
    and every amount `cut` of buffered data that reached the disk, every path that is not
    one of the stage's own temporary names holds either its previous content or the
    complete newly generated content. -/
theorem C05_per_file_atomic (outdir : Str) (cm : CodeModel) (fs₀ : FS) (k cut : Nat) (q : Str)
    (hq : NotTmp outdir cm q) :
    SafeAt outdir cm fs₀ (crashAt (script outdir cm) k cut fs₀) q := by
  have base := script_prefix_safe outdir cm fs₀ cm (fun _ h => h) fs₀ (fun _ _ => Or.inl rfl) k q hq
  unfold crashAt
  cases hlast : ((script outdir cm).take k).getLast? with
  | none => simpa [hlast] using base
  | some op =>
    cases op with
    | write t s =>
      simp only
      have hmem : Op.write t s ∈ script outdir cm :=
        List.mem_of_mem_take (List.mem_of_getLast? hlast)
      obtain ⟨kv, hkv, ht⟩ := script_tmp outdir cm _ hmem t rfl
      have hne : ¬ t = q := fun e => hq kv hkv (e ▸ ht)
      unfold SafeAt at base ⊢
      rw [ODict.get?_set]
      simp only [hne, if_false]
      exact base
    | mkdirs d => simpa using base
    | openTmp t => simpa using base
    | close t => simpa using base
    | copymode p t => simpa using base
    | replace t p => simpa using base

/-- **Raised error at any operation** (full disk, encoding error, …): after the handler has
    removed the temporary file, the same holds. -/
theorem C05_raised_error (outdir : Str) (cm : CodeModel) (fs₀ : FS) (k : Nat) (q : Str)
    (hq : NotTmp outdir cm q) :
    SafeAt outdir cm fs₀ (errorAt (script outdir cm) k fs₀) q := by
  have base := script_prefix_safe outdir cm fs₀ cm (fun _ h => h) fs₀ (fun _ _ => Or.inl rfl) k q hq
  unfold errorAt
  cases hop : (script outdir cm)[k]? with
  | none => simpa [hop] using base
  | some op =>
    have hmem : op ∈ script outdir cm := List.mem_of_getElem? hop
    have key : ∀ t, op.tmpOf = some t → SafeAt outdir cm fs₀ (FS.erase (execOps ((script outdir cm).take k) fs₀) t) q := by
      intro t ht
      obtain ⟨kv, hkv, htt⟩ := script_tmp outdir cm op hmem t ht
      have hne : ¬ t = q := fun e => hq kv hkv (e ▸ htt)
      unfold SafeAt at base ⊢
      rw [FS.get?_erase]
      simp only [hne, if_false]
      exact base
    cases op with
    | mkdirs d => simpa using base
    | openTmp t => exact key t rfl
    | write t s => exact key t rfl
    | close t => exact key t rfl
    | copymode p t => exact key t rfl
    | replace t p => exact key t rfl

/-- Files the stage has not reached yet are untouched: before the first rename completes,
    nothing but temporary files has changed. -/
theorem C05_nothing_touched_before_first_rename (outdir : Str) (kv : Str × List Str) (cm : CodeModel)
    (fs₀ : FS) (k : Nat) (hk : k < (entryOps (Path.join outdir kv.1) kv.2).length) (q : Str)
    (hq : q ≠ Path.join outdir kv.1 ++ tmpSuffix) :
    ODict.get? (execOps ((script outdir (kv :: cm)).take k) fs₀) q = ODict.get? fs₀ q := by
  rw [take_script_cons]
  simp only [hk, if_true]
  rw [entryOps_eq] at hk ⊢
  have hk' : k ≤ (entryPre (Path.join outdir kv.1) kv.2).length := by
    simp only [List.length_append, List.length_cons, List.length_nil] at hk; omega
  rw [List.take_append_of_le_length hk']
  exact entryPre_take_get? _ _ k fs₀ q hq


/-! ### the whole run: output stage followed by the copy of the support sources (`FileCopyUtil` after fix 32442d3)

  kojen's default (`copyotherfiles=True`) copies the shipped support sources below `<out>/allplatforms` after the
  output stage.  `runBlocks outdir cm calls` is the run as a list of blocks (directories and files put through their
  temporary file), `prog` its operations; `prog (runBlocks outdir cm []) = script outdir cm`. -/
/-- **The whole run, support copy included: process death at any operation.** -/
theorem C05_whole_run_atomic (outdir : Str) (cm : CodeModel) (calls : List CopyCall) (fs₀ : FS) (k cut : Nat) (q : Str)
    (hq : NotTmpB (runBlocks outdir cm calls) q) :
    SafeB (runBlocks outdir cm calls) fs₀ (crashAt (prog (runBlocks outdir cm calls)) k cut fs₀) q :=
  run_crash_safe _ fs₀ k cut q hq

theorem C05_whole_run_raised_error (outdir : Str) (cm : CodeModel) (calls : List CopyCall) (fs₀ : FS) (k : Nat) (q : Str)
    (hq : NotTmpB (runBlocks outdir cm calls) q) :
    SafeB (runBlocks outdir cm calls) fs₀ (errorAt (prog (runBlocks outdir cm calls)) k fs₀) q :=
  run_error_safe _ fs₀ k q hq

/-- the "complete new content" of a path of the run is a generated file or a shipped support file -/
theorem C05_whole_run_contents (outdir : Str) (cm : CodeModel) (calls : List CopyCall) (p : Str) (chunks : List Str) (m : Str)
    (h : Blk.put p chunks m ∈ runBlocks outdir cm calls) :
    (∃ kv ∈ cm, p = Path.join outdir kv.1 ∧ chunks.flatten = outputContent kv.2) ∨
    (∃ c ∈ calls, ∃ f ∈ c.files, p = Path.join c.dirTo f.1 ∧ chunks.flatten = f.2.2) := by
  simp only [runBlocks, List.mem_append, List.mem_flatMap] at h
  rcases h with h | ⟨c, hc, h⟩
  · left
    simp only [stageBlocks, List.mem_flatMap, List.mem_cons, List.not_mem_nil, or_false] at h
    obtain ⟨kv, hkv, h⟩ := h
    rcases h with h | h
    · cases h
    · cases h
      exact ⟨kv, hkv, rfl, rfl⟩
  · right
    simp only [copyBlocks, List.mem_cons, List.mem_map] at h
    rcases h with h | ⟨f, hf, h⟩
    · cases h
    · cases h
      exact ⟨c, hc, f, hf, rfl, by simp⟩

/-- without copies the run is the output stage of `C05_per_file_atomic` -/
theorem C05_run_without_copies (outdir : Str) (cm : CodeModel) : prog (runBlocks outdir cm []) = script outdir cm := by
  simp [runBlocks, script_eq_prog]

def exCM2 : CodeModel := [(ofString "A.h", [ofString "a\n", ofString "\tb\n"])]
def exCalls : List CopyCall := [⟨ofString "out/allplatforms", [(ofString "basetypes.h", ofString "/pkg/basetypes.h", ofString "#pragma once\n\tint x;\n")]⟩]
def exFS2 : FS := [(ofString "out/A.h", ofString "old user code\n"), (ofString "out/allplatforms/basetypes.h", ofString "stale\n")]
-- 7 operations of the output stage, then mkdirs, openTmp, write, close, copymode, replace (6)
example : (prog (runBlocks (ofString "out") exCM2 exCalls)).length = 13 := by decide +kernel
example : ODict.get? (crashAt (prog (runBlocks (ofString "out") exCM2 exCalls)) 11 3 exFS2) (ofString "out/allplatforms/basetypes.h") = some (ofString "stale\n") := by
  decide +kernel
example : ODict.get? (crashAt (prog (runBlocks (ofString "out") exCM2 exCalls)) 13 0 exFS2) (ofString "out/allplatforms/basetypes.h") = some (ofString "#pragma once\n\tint x;\n") := by
  decide +kernel

/-! non-vacuity: two files, one pre-existing with user code; crash inside the second write -/
section Example
def exCM : CodeModel := [(ofString "A.h", [ofString "a\n", ofString "\tb\n"]), (ofString "B.h", [ofString "c\n"])]
def exFS : FS := [(ofString "out/A.h", ofString "old user code\n")]
example : NotTmp (ofString "out") exCM (ofString "out/A.h") := by
  intro kv hkv
  simp only [exCM, List.mem_cons, List.not_mem_nil, or_false] at hkv
  rcases hkv with rfl | rfl <;> decide +kernel
example : ODict.get? (crashAt (script (ofString "out") exCM) 3 1 exFS) (ofString "out/A.h") = some (ofString "old user code\n") := by
  decide +kernel
example : ODict.get? (crashAt (script (ofString "out") exCM) 9 0 exFS) (ofString "out/A.h") = some (ofString "a\n    b\n") := by
  decide +kernel
end Example

end KojenVerif.C05
