import KojenVerif.Lemmas.OutStage
/-
  C05 — interrupted generation never destroys an existing file (per-file atomicity).

  `script` is the output stage after fix e585c69, one `Op` per system-level operation;
  `crashAt ops k cut` is process death after `k` operations with an arbitrary prefix of the
  buffered data on disk; `errorAt ops k` is an exception raised by operation `k` (the
  handler removes the temporary file).  Expansion and preservation perform no writes at
  all: in `Model/Pipeline.regen` they are pure functions producing the code model that
  `script` consumes (validated against the real run by the I/O tracer in the check).
  Assumed: POSIX `rename` is atomic; distinct path strings of the script denote distinct
  files.
-/
namespace KojenVerif.C05
open Str

theorem script_tmp (outdir : Str) (cm : CodeModel) :
    ∀ op ∈ script outdir cm, ∀ t, op.tmpOf = some t → ∃ kv ∈ cm, t = Path.join outdir kv.1 ++ tmpSuffix := by
  intro op hop t ht
  simp only [script, List.mem_flatten, List.mem_map] at hop
  obtain ⟨ops, ⟨kv, hkv, rfl⟩, hop⟩ := hop
  refine ⟨kv, hkv, ?_⟩
  rw [entryOps_eq] at hop
  simp only [List.mem_append, List.mem_singleton] at hop
  rcases hop with h | h
  · exact entryPre_tmp _ _ op h t ht
  · subst h; simp [Op.tmpOf] at ht; exact ht.symm

/-- **Process death at any operation.** For every operation index `k` of the output stage
    and every amount `cut` of buffered data that reached the disk, every path that is not
    one of the stage's own temporary names holds either its previous content or the
    complete newly generated content. -/
theorem C05_per_file_atomic (outdir : Str) (cm : CodeModel) (fs₀ : FS) (k cut : Nat) (q : Str)
    (hq : NotTmp outdir cm q) :
    SafeAt outdir cm fs₀ (crashAt (script outdir cm) k cut fs₀) q := by
  have base := script_prefix_safe outdir cm fs₀ cm (fun _ h => h) fs₀ (fun _ _ => Or.inl rfl) k q hq
  unfold crashAt
  cases hlast : ((script outdir cm).take k).getLast? with
  | none => simpa [hlast] using base
  | some op =>
    cases op with
    | write t s =>
      simp only
      have hmem : Op.write t s ∈ script outdir cm :=
        List.mem_of_mem_take (List.mem_of_getLast? hlast)
      obtain ⟨kv, hkv, ht⟩ := script_tmp outdir cm _ hmem t rfl
      have hne : ¬ t = q := fun e => hq kv hkv (e ▸ ht)
      unfold SafeAt at base ⊢
      rw [ODict.get?_set]
      simp only [hne, if_false]
      exact base
    | mkdirs d => simpa using base
    | openTmp t => simpa using base
    | close t => simpa using base
    | copymode p t => simpa using base
    | replace t p => simpa using base

/-- **Raised error at any operation** (full disk, encoding error, …): after the handler has
    removed the temporary file, the same holds. -/
theorem C05_raised_error (outdir : Str) (cm : CodeModel) (fs₀ : FS) (k : Nat) (q : Str)
    (hq : NotTmp outdir cm q) :
    SafeAt outdir cm fs₀ (errorAt (script outdir cm) k fs₀) q := by
  have base := script_prefix_safe outdir cm fs₀ cm (fun _ h => h) fs₀ (fun _ _ => Or.inl rfl) k q hq
  unfold errorAt
  cases hop : (script outdir cm)[k]? with
  | none => simpa [hop] using base
  | some op =>
    have hmem : op ∈ script outdir cm := List.mem_of_getElem? hop
    have key : ∀ t, op.tmpOf = some t → SafeAt outdir cm fs₀ (FS.erase (execOps ((script outdir cm).take k) fs₀) t) q := by
      intro t ht
      obtain ⟨kv, hkv, htt⟩ := script_tmp outdir cm op hmem t ht
      have hne : ¬ t = q := fun e => hq kv hkv (e ▸ htt)
      unfold SafeAt at base ⊢
      rw [FS.get?_erase]
      simp only [hne, if_false]
      exact base
    cases op with
    | mkdirs d => simpa using base
    | openTmp t => exact key t rfl
    | write t s => exact key t rfl
    | close t => exact key t rfl
    | copymode p t => exact key t rfl
    | replace t p => exact key t rfl

/-- Files the stage has not reached yet are untouched: before the first rename completes,
    nothing but temporary files has changed. -/
theorem C05_nothing_touched_before_first_rename (outdir : Str) (kv : Str × List Str) (cm : CodeModel)
    (fs₀ : FS) (k : Nat) (hk : k < (entryOps (Path.join outdir kv.1) kv.2).length) (q : Str)
    (hq : q ≠ Path.join outdir kv.1 ++ tmpSuffix) :
    ODict.get? (execOps ((script outdir (kv :: cm)).take k) fs₀) q = ODict.get? fs₀ q := by
  rw [take_script_cons]
  simp only [hk, if_true]
  rw [entryOps_eq] at hk ⊢
  have hk' : k ≤ (entryPre (Path.join outdir kv.1) kv.2).length := by
    simp only [List.length_append, List.length_cons, List.length_nil] at hk; omega
  rw [List.take_append_of_le_length hk']
  exact entryPre_take_get? _ _ k fs₀ q hq

/-! non-vacuity: two files, one pre-existing with user code; crash inside the second write -/
section Example
def exCM : CodeModel := [(ofString "A.h", [ofString "a\n", ofString "\tb\n"]), (ofString "B.h", [ofString "c\n"])]
def exFS : FS := [(ofString "out/A.h", ofString "old user code\n")]
example : NotTmp (ofString "out") exCM (ofString "out/A.h") := by
  intro kv hkv
  simp only [exCM, List.mem_cons, List.not_mem_nil, or_false] at hkv
  rcases hkv with rfl | rfl <;> decide +kernel
example : ODict.get? (crashAt (script (ofString "out") exCM) 3 1 exFS) (ofString "out/A.h") = some (ofString "old user code\n") := by
  decide +kernel
example : ODict.get? (crashAt (script (ofString "out") exCM) 9 0 exFS) (ofString "out/A.h") = some (ofString "a\n    b\n") := by
  decide +kernel
end Example

end KojenVerif.C05
