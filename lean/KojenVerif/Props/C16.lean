import KojenVerif.Lemmas.EngineInner
import KojenVerif.Lemmas.Table
import KojenVerif.Lemmas.EngineFilter
import KojenVerif.Lemmas.EngineSig
import KojenVerif.Lemmas.EnginePgt
import KojenVerif.Lemmas.EngineNestedWF
import KojenVerif.Lemmas.EngineProto
import KojenVerif.Lemmas.EngineSecondWF
import KojenVerif.Lemmas.EngineSecondClosed
import KojenVerif.Lemmas.Str
/-
  C16 — template engine: per-element blocks expand once per element, in model order.

  `Engine` is the string-level transliteration of `cgen.py` / `smgen.py` (checked against the
  real code every run), `Spec` the token-level statement of what a block, a counter and a
  name tag mean.  Proved here, for every template and model within the grammar:
  the pair expander replaces every block in place and passes the rest through
  (`C16_blocks_in_place`); a state / event / action / guard block is expanded once per element, in the
  order of the model's list, name tags by the element's name in the tag's case, `NUM` by the
  zero-based index and `ALPH` by the letter (`C16_once_per_element_in_order`, `C16_case_variants`,
  `C16_counters`, `C16_letter_cycle`); a per-action-signature block once per (action, event) pair
  (`C16_action_signature_block`); the blank-line filter (`C16_blank_lines`) and the TAB
  filter (`C16_tab_filter`).
  The innermost level of the nested transition expansion — one per-guard-transition block for the
  transitions of one (state, event) pair — is proved too: once per transition in table order, every
  line through the rule "present transition tags take the row's value; a line that still mentions
  an absent one is dropped, or replaced by the alternative text of its single tag at the line's
  indentation" (`C16_transition_block`, `C16_transition_line`, and the rule spelled out in
  `C16_transition_keeps / _drops / _alternative / _alternative_unused / _values`).
  The two outer levels are proved on top of it (`C16_nested_transitions`, `C16_per_event_level`): the
  per-state-transition block is expanded once per state (source states in table order, then
  target-only states), inside once per event of that state in first-appearance order, inside once per
  transition of the pair, the state's and the event's names substituted on the way down.
  Struct / protocol-message / message blocks whose lines carry name and counter tags are covered by
  `C16_struct_message_block`.
  All of it composed over a whole file: `C16_second_filtering` — `expand_secondfiltering` on a file
  of items (lines, blocks of every kind, nested transition blocks, and the conditionals / loops of
  C17 passing through) puts the initial state's name in place and replaces every block, in place, by
  its expansion; everything else is left as written.
  Claimed through the correspondence and the reference expander only, not yet proved: lines with
  signature / member / documentation / attribute / payload tags (their text comes from the language
  back ends, C09 / C10 / C12) (see DESIGN.md 6/C16 staging).

  Hypotheses are decidable conditions on the concrete template and model, evaluated by the
  driver on every generated case: `Chunk.OK` (a line is a delimiter of the pass exactly when
  the chunking says so), `BodyLineOK` (angle-free literals / names / defaults and values, no
  signature / member / documentation / attribute tag after substitution), `EnvTotal`
  (the language back end answers for member instantiation / declaration).
-/
namespace KojenVerif.C16
open Engine Str

/-- **Blocks in place, everything else untouched.** For any pass (start/end keyword) and any
    file cut into chunks — runs of lines that are no delimiter of this pass, and blocks —
    the pair expander returns the runs as they are and, in place of each block, what the
    expansion function makes of the block's body (the delimiter lines disappear). -/
theorem C16_blocks_in_place (startTag endTag : Str) (f : List Line → Str → Option (List Line)) (cs : List Chunk)
    (h : ∀ c ∈ cs, c.OK (cleanTag startTag) (cleanTag endTag)) :
    pairExpand startTag endTag f ((cs.map Chunk.lines).flatten) = concatOpt (cs.map (chunkOut f)) :=
  pairExpand_chunks startTag endTag f cs h

/-- **Once per element, in model order.** The body of a per-state / per-event / per-action /
    per-guard block for the element list `items`: for each element in list order — and for no
    other — every body line with its name tags replaced by the element's name in the tag's
    case, `NUM` by its zero-based index, `ALPH` by its letter; white-space-only lines dropped. -/
theorem C16_once_per_element_in_order (env : Env) (ht : EnvTotal env) (items : List Str) (body : List Spec.BItem)
    (h : ∀ p ∈ enumFrom 0 items, ∀ i ∈ body, BodyLineOK p.2 p.1 i) :
    innerExpand env false items (body.map Spec.BItem.render) [] =
      some ((((enumFrom 0 items).map (fun p => Spec.bodyFor (elemDict p.2 p.1) body)).flatten).map Spec.bitemText) :=
  innerExpand_names env ht items body h

/-- **Per-struct / per-protocol-message / per-message block.**  The same rule for the interface's
    element lists: once per element in list order, `STRUCTNAME` / `MSGNAME` / `PROTOMSGNAME` (and their
    camel-case variants) replaced by the element's name, counters as above. -/
theorem C16_struct_message_block (env : Env) (ht : EnvTotal env) (items : List Str) (body : List Spec.BItem)
    (h : ∀ p ∈ enumFrom 0 items, ∀ i ∈ body, BodyLineOKP p.2 p.1 i) :
    innerExpand env true items (body.map Spec.BItem.render) [] =
      some ((((enumFrom 0 items).map (fun p => Spec.bodyFor (protoDict p.2 p.1) body)).flatten).map Spec.bitemText) :=
  innerExpand_proto env ht items body h

/-- **Per-action-signature block.** Once per (action, event) pair, in the given order — the
    table's pairs in order of first appearance (`Table.actionSigs`, duplicate-free) —, every
    body line kept, ACTIONNAME / EVENTNAME in their case variants and the counters replaced; an
    absent event is written `NONE`. -/
theorem C16_action_signature_block (sigs : List (Str × Str)) (body : List Spec.BItem)
    (hb : ∀ i ∈ body, match i with | .line l => LineOK l | .blank t => Clean t)
    (hc : ∀ p ∈ enumFrom 0 sigs, ChainOK (sigDict p.2.1 p.2.2 p.1)) :
    sigExpand sigs (body.map Spec.BItem.render) [] =
      some ((((enumFrom 0 sigs).map (fun p => body.map (Spec.BItem.subst (Spec.byDict (sigDict p.2.1 p.2.2 p.1))))).flatten).map Spec.bitemText) :=
  sigExpand_eq sigs body hb hc

/-- the elements are numbered 0, 1, 2, … in list order -/
theorem C16_enum (items : List Str) : (enumFrom 0 items).map (·.1) = List.range items.length := by
  have : ∀ (k : Nat) (l : List Str), (enumFrom k l).map (·.1) = (List.range' k l.length) := by
    intro k l
    induction l generalizing k with
    | nil => rfl
    | cons a l ih => simp [enumFrom, ih, List.range'_succ]
  rw [this, List.range_eq_range']

theorem C16_enum_items (items : List Str) : (enumFrom 0 items).map (·.2) = items := by
  have : ∀ (k : Nat) (l : List Str), (enumFrom k l).map (·.2) = l := by
    intro k l
    induction l generalizing k with
    | nil => rfl
    | cons a l ih => simp [enumFrom, ih]
  exact this 0 items

/-- **Case variants.** -/
theorem C16_case_variants (name : Str) (idx : Nat) :
    Spec.lookupS (elemDict name idx) (T "STATENAME") = some name ∧
    Spec.lookupS (elemDict name idx) (T "stateName") = some (camelSmall name) ∧
    Spec.lookupS (elemDict name idx) (T "STATE_NAME") = some (snakeCase name) ∧
    Spec.lookupS (elemDict name idx) (T "EVENTNAME") = some name ∧
    Spec.lookupS (elemDict name idx) (T "eventName") = some (camelSmall name) ∧
    Spec.lookupS (elemDict name idx) (T "EVENT_NAME") = some (snakeCase name) ∧
    Spec.lookupS (elemDict name idx) (T "ACTIONNAME") = some name ∧
    Spec.lookupS (elemDict name idx) (T "actionName") = some (camelSmall name) ∧
    Spec.lookupS (elemDict name idx) (T "ACTION_NAME") = some (snakeCase name) ∧
    Spec.lookupS (elemDict name idx) (T "GUARDNAME") = some name ∧
    Spec.lookupS (elemDict name idx) (T "guardName") = some (camelSmall name) ∧
    Spec.lookupS (elemDict name idx) (T "GUARD_NAME") = some (snakeCase name) := by
  refine ⟨rfl, rfl, rfl, rfl, rfl, rfl, rfl, rfl, rfl, rfl, rfl, rfl⟩

/-- **Counters.** -/
theorem C16_counters (name : Str) (idx : Nat) :
    Spec.lookupS (elemDict name idx) (T "NUM") = some (natToStr idx) ∧
    Spec.lookupS (elemDict name idx) (T "ALPH") = some [alphaOf idx] := ⟨rfl, rfl⟩

/-- the letter of index `n`: a…z, then A…Z, then again from a -/
theorem C16_letter_cycle (n : Nat) : alphaOf n = if n % 52 < 26 then 97 + n % 52 else 65 + (n % 52 - 26) :=
  alphaOf_eq n

/-- **Blank lines.** The loader's filter empties exactly the lines that consist of spaces
    only and directly follow such a line; every other line is unchanged, in place. -/
theorem C16_blank_lines (ls : List Line) : filterNewlines ls = collapseRef false ls := filterNewlines_eq ls

/-- **TAB filter** of the output stage: idempotent replacement of every TAB by four spaces. -/
theorem C16_tab_filter (s : Str) : expandTabs (expandTabs s) = expandTabs s := expandTabs_idem s

/-! ### transitions lacking a guard, action or target -/

/-- **One per-guard-transition block.**  For the transitions `rows` of one (state, event) pair, in
    table order, the engine emits for every transition every body line through the line rule of the
    specification (`Spec.pgtLine` with the row's dictionary `Spec.transTags`).  Grammar (`PgtItemOK`,
    decidable, evaluated by the driver on every generated case): angle-free literals, names and
    alternatives; tag names without '='; either no tag of the line has an alternative text or the
    line's only tag has one; literal runs, alternative texts and foreign tag names mention none of
    the fifteen transition keywords, also after the row's values are in place. -/
theorem C16_transition_block (rows : List Table.Row) (body : List Spec.BItem) (hr : ∀ r ∈ rows, RowOK r)
    (hb : ∀ r ∈ rows, ∀ i ∈ body, PgtItemOK (Spec.transTags r) i) :
    pgtExpand rows (body.map Spec.BItem.render) [] =
      some (((rows.map (fun r => (body.map (Spec.pgtLine (Spec.transTags r))).flatten)).flatten).map Spec.BItem.render) :=
  pgtExpand_eq rows body hr hb

/-- one line, one transition -/
theorem C16_transition_line (r : Table.Row) (hr : RowOK r) (l : Spec.SLine) (h : PgtLineOK (Spec.transTags r) l) :
    pgtLine (transDict r) (Spec.renderLine l) = (Spec.pgtLine (Spec.transTags r) (.line l)).map Spec.BItem.render := by
  rw [transDict_eq]; exact pgtLine_line _ (transTags_chain r hr) (transTags_keys r) l h

/-- the row's dictionary: action, guard and target names exactly when the row has them (the source
    state under `STATENAMEIFNEXTSTATE` exactly when there is a target) -/
theorem C16_transition_values (r : Table.Row) :
    Spec.lookupS (Spec.transTags r) (T "ACTIONNAME") = r.action ∧
    Spec.lookupS (Spec.transTags r) (T "GUARDNAME") = r.guard ∧
    Spec.lookupS (Spec.transTags r) (T "NEXTSTATENAME") = r.next ∧
    Spec.lookupS (Spec.transTags r) (T "STATENAMEIFNEXTSTATE") = r.next.map (fun _ => r.src) := transTags_values r

/-- the rule, case 1: every transition tag of the line is answered by the row — the line is emitted,
    values in place -/
theorem C16_transition_keeps (d : List (Str × Str)) (l : Spec.SLine)
    (h : ∀ p ∈ tagsOf l, p.1 ∈ names15 → (Spec.lookupS d p.1).isSome = true) :
    Spec.pgtLine d (.line l) = [.line (Spec.substLine (Spec.transSubst d) l)] := spec_pgt_keeps d l h

/-- case 2: a line without alternative texts that mentions a transition tag the row lacks is dropped -/
theorem C16_transition_drops (d : List (Str × Str)) (l : Spec.SLine) (hd : NoDflt l) (X : Str) (hX : X ∈ names15)
    (hin : (X, none) ∈ tagsOf l) (hab : Spec.lookupS d X = none) : Spec.pgtLine d (.line l) = [] :=
  spec_pgt_drops d l hd X hX hin hab

/-- case 3: the line's single tag is a transition tag the row lacks and carries an alternative text —
    the alternative, at the line's indentation, replaces the line -/
theorem C16_transition_alternative (d : List (Str × Str)) (l : Spec.SLine) (X alt : Str)
    (ht : tagsOf l = [(X, some alt)]) (hX : X ∈ names15) (hab : Spec.lookupS d X = none) :
    Spec.pgtLine d (.line l) = [.line [.lit (indentOf l ++ alt)]] := spec_pgt_alternative d l X alt ht hX hab

/-- case 4: … and when the row has the element, its value is used and the alternative is not -/
theorem C16_transition_alternative_unused (d : List (Str × Str)) (l : Spec.SLine) (X alt v : Str)
    (ht : tagsOf l = [(X, some alt)]) (hv : Spec.lookupS d X = some v) :
    Spec.pgtLine d (.line l) = [.line (setTag l v)] := spec_pgt_alternative_unused d l X alt v ht hv

/-- **The per-event level**: for one state, the body of a per-event-transition block is emitted once
    per event of that state in first-appearance order, the event's name in place, every
    per-guard-transition block inside expanded over the transitions of the (state, event) pair. -/
theorem C16_per_event_level (t : List Table.Row) (s : Str) (body : List Spec.PetItem) (h : PetOK t s body) :
    petExpand t s ((body.map Spec.PetItem.render).flatten) [] = some ((Spec.expandPet t s body).map Spec.BItem.render) :=
  petExpand_eq t s body h

/-- **The nested transition expansion, all three levels.**  For every table and every block body of
    the grammar (`PstOK`, decidable: `pstOKB_sound`), the engine's expansion of a
    per-state-transition block is the specification's `Spec.expandPst`. -/
theorem C16_nested_transitions (t : List Table.Row) (body : List Spec.PstItem) (h : PstOK t body) :
    pstExpand t ((body.map Spec.PstItem.render).flatten) [] = some ((Spec.expandPst t body).map Spec.BItem.render) :=
  pstExpand_eq t body h

/-- **The second filtering of a whole file.**  For every model and every file of items inside the
    grammar (`SecondOK`, decidable: `secondOKB_sound`; it asks of every pass that the file - as the
    earlier passes left it - contains no stray delimiter of that pass and that the pass's own blocks
    lie inside the grammar of the block theorems above), the engine's `expand_secondfiltering`
    yields the file with `STATE_0` / `state_0` replaced by the initial state's name and every block
    replaced in place by the specification's expansion (`Spec.expandBlock`, `Spec.expandPst`), in
    the order of the nine passes; lines outside blocks, conditionals and loops are untouched. -/
theorem C16_second_filtering (env : Env) (ht : EnvTotal env) (m : Spec.Model) (items : List Spec.Item)
    (h : SecondOK m items) :
    expandSecond env (toSm m) (Spec.renderFile items) = some (Spec.renderFile (secondOut m items)) :=
  expandSecond_items env ht m items h

/-- **the second filtering in closed form**: the nine passes together replace the initial state's tag and
    every block - per-element block or nested transition block - by its expansion, in place, and leave every
    other item exactly as it is -/
theorem C16_second_filtering_closed (env : Env) (ht : EnvTotal env) (m : Spec.Model) (items : List Spec.Item)
    (h : SecondOK m items) :
    expandSecond env (toSm m) (Spec.renderFile items) =
      some (Spec.renderFile ((items.map (Spec.Item.subst (Spec.byDict (st0Keys m)))).flatMap (fun it =>
        match it with
        | .block k _ body => (Spec.expandBlock m k body).map .b
        | .pst _ body => (Spec.expandPst m.table body).map .b
        | it => [it]))) := by
  rw [expandSecond_items env ht m items h, secondOut_closed]
  rfl

/-- what is left after the second filtering contains no block any more: only lines, conditionals, loops -/
theorem C16_second_filtering_flat (m : Spec.Model) (items : List Spec.Item) :
    ∀ it ∈ secondOut m items, match it with | .block _ _ _ => False | .pst _ _ => False | _ => True := by
  -- every pass removes its own kind and introduces only plain lines
  have keep : ∀ (ps : List Pass) (its : List Spec.Item) (it : Spec.Item), it ∈ runPasses m ps its →
      (match it with
       | .block k _ _ => Pass.kind k ∉ ps ∧ ∃ ws b, Spec.Item.block k ws b ∈ its
       | .pst _ _ => Pass.pst ∉ ps ∧ ∃ ws b, Spec.Item.pst ws b ∈ its
       | _ => True) := by
    intro ps
    induction ps with
    | nil =>
      intro its it hit
      cases it with
      | block k ws b => exact ⟨by simp, ws, b, hit⟩
      | pst ws b => exact ⟨by simp, ws, b, hit⟩
      | b i => trivial
      | cond ws brs els => trivial
      | loop ws pr body => trivial
    | cons p ps ih =>
      intro its it hit
      have := ih (its.flatMap (passOut m p)) it hit
      cases it with
      | b i => trivial
      | cond ws brs els => trivial
      | loop ws pr body => trivial
      | block k ws b =>
        obtain ⟨hn, ws', b', hm⟩ := this
        rw [List.mem_flatMap] at hm
        obtain ⟨src, hsrc, hout⟩ := hm
        cases src with
        | block k2 ws2 b2 =>
          simp only [passOut] at hout
          by_cases hp : p = .kind k2
          · simp only [hp, if_true, List.mem_map] at hout
            obtain ⟨x, _, hx⟩ := hout; cases hx
          · simp only [hp, if_false, List.mem_singleton] at hout
            cases hout
            refine ⟨?_, _, _, hsrc⟩
            simp only [List.mem_cons, not_or]
            exact ⟨fun e => hp e.symm, hn⟩
        | pst ws2 b2 =>
          simp only [passOut] at hout
          by_cases hp : p = .pst
          · simp only [hp, if_true, List.mem_map] at hout
            obtain ⟨x, _, hx⟩ := hout; cases hx
          · simp only [hp, if_false, List.mem_singleton] at hout; cases hout
        | b i => simp [passOut] at hout
        | cond ws2 brs els => simp [passOut] at hout
        | loop ws2 pr body => simp [passOut] at hout
      | pst ws b =>
        obtain ⟨hn, ws', b', hm⟩ := this
        rw [List.mem_flatMap] at hm
        obtain ⟨src, hsrc, hout⟩ := hm
        cases src with
        | pst ws2 b2 =>
          simp only [passOut] at hout
          by_cases hp : p = .pst
          · simp only [hp, if_true, List.mem_map] at hout
            obtain ⟨x, _, hx⟩ := hout; cases hx
          · simp only [hp, if_false, List.mem_singleton] at hout
            cases hout
            refine ⟨?_, _, _, hsrc⟩
            simp only [List.mem_cons, not_or]
            exact ⟨fun e => hp e.symm, hn⟩
        | block k2 ws2 b2 =>
          simp only [passOut] at hout
          by_cases hp : p = .kind k2
          · simp only [hp, if_true, List.mem_map] at hout
            obtain ⟨x, _, hx⟩ := hout; cases hx
          · simp only [hp, if_false, List.mem_singleton] at hout; cases hout
        | b i => simp [passOut] at hout
        | cond ws2 brs els => simp [passOut] at hout
        | loop ws2 pr body => simp [passOut] at hout
  intro it hit
  have := keep passOrder _ it hit
  cases it with
  | b i => trivial
  | cond ws brs els => trivial
  | loop ws pr body => trivial
  | block k ws b =>
    obtain ⟨hn, _⟩ := this
    exact hn (by cases k <;> simp [passOrder])
  | pst ws b =>
    obtain ⟨hn, _⟩ := this
    exact hn (by simp [passOrder])

/-! non-vacuity: a state block over two states, with a blank line, counters and three cases -/
section Example
def exEnv : Env :=
  { sig := fun _ _ => some [], memberInst := fun _ _ _ _ => some [], memberDecl := fun _ _ _ => some [], aggInit := fun _ => some [],
    doc := fun _ => none, members := fun _ => none, msgId := fun _ => none }
def exBody : List Spec.BItem :=
  [.line [.lit (T "  s "), .tag (T "STATENAME") none, .lit (T " "), .tag (T "stateName") none, .lit (T " "), .tag (T "STATE_NAME") none,
          .lit (T " "), .tag (T "NUM") none, .tag (T "ALPH") none], .blank (T "  ")]
def exFile : List Line :=
  [T "head\n", T "<<<PER_STATE_BEGIN>>>\n"] ++ exBody.map Spec.BItem.render ++ [T "<<<PER_STATE_END>>>\n", T "tail\n"]
example : pairExpand (T "<<<PER_STATE_BEGIN>>>") (T "<<<PER_STATE_END>>>") (innerExpand exEnv false [T "IdleNow", T "Run"]) exFile =
    some [T "head\n", T "  s IdleNow idleNow idle_now 0a\n", T "  s Run run run 1b\n", T "tail\n"] := by decide
def exProtoBody : List Spec.BItem :=
  [.line [.lit (T "struct "), .tag (T "STRUCTNAME") none, .lit (T " "), .tag (T "structName") none, .lit (T "; // "), .tag (T "NUM") none],
   .blank (T " ")]
example : ∀ p ∈ enumFrom 0 [T "Point", T "Size"], ∀ i ∈ exProtoBody, BodyLineOKP p.2 p.1 i :=
  blockOKPB_sound _ _ (by decide)
example : innerExpand exEnv true [T "Point", T "Size"] (exProtoBody.map Spec.BItem.render) [] =
    some [T "struct Point point; // 0\n", T "struct Size size; // 1\n"] := by decide
example : filterNewlines [T "a\n", T "\n", T "  \n", T "\t\n", T "\n", T " \n", T "b\n"] =
    [T "a\n", T "\n", [], T "\t\n", T "\n", [], T "b\n"] := by decide

/-! non-vacuity of the transition rule: a guarded row with action and target, and a bare row -/
def exRows : List Table.Row :=
  [ { src := T "Idle", ev := T "Go", next := some (T "Run"), action := some (T "Start"), guard := some (T "IsReady") },
    { src := T "Idle", ev := T "Go", next := none, action := none, guard := none } ]
def exPgt : List Spec.BItem :=
  [ .line [.lit (T "  if ("), .tag (T "GUARDNAME") none, .lit (T "()) {")],
    .line [.lit (T "    "), .tag (T "ACTIONNAME") (some (T "/* nothing to do */"))],
    .line [.lit (T "    next = "), .tag (T "NEXTSTATENAME") none, .lit (T ";")],
    .blank (T "  "),
    .line [.lit (T "  done")] ]
example : (∀ r ∈ exRows, RowOK r) ∧ (∀ r ∈ exRows, ∀ i ∈ exPgt, PgtItemOK (Spec.transTags r) i) := by
  constructor
  · intro r hr; exact rowOKB_sound r (by revert r hr; decide)
  · intro r hr i hi; exact pgtItemOKB_sound _ i (by revert i hi; revert r hr; decide)
example : pgtExpand exRows (exPgt.map Spec.BItem.render) [] =
    some [T "  if (IsReady()) {\n", T "    Start\n", T "    next = Run;\n", T "  \n", T "  done\n",
          T "    /* nothing to do */\n", T "  \n", T "  done\n"] := by decide

/-! non-vacuity of the nested expansion: two states, one with two events, a guarded and a bare row -/
def exTable : List Table.Row :=
  [ { src := T "Idle", ev := T "Go", next := some (T "Run"), action := some (T "Start"), guard := some (T "IsReady") },
    { src := T "Idle", ev := T "Go", next := none, action := none, guard := none },
    { src := T "Idle", ev := T "Off", next := some (T "Run"), action := none, guard := none } ]
def exPst : List Spec.PstItem :=
  [ .b (.line [.lit (T "state "), .tag (T "STATENAME") none]),
    .pet (T "  ") [ .b (.line [.lit (T " on "), .tag (T "EVENTNAME") none, .lit (T " in "), .tag (T "stateName") none]),
                    .pgt (T "    ") exPgt ] ]
example : PstOK exTable exPst := pstOKB_sound _ _ (by decide)
example : pstExpand exTable ((exPst.map Spec.PstItem.render).flatten) [] =
    some [T "state Idle\n",
          T " on Go in idle\n",
          T "  if (IsReady()) {\n", T "    Start\n", T "    next = Run;\n", T "  \n", T "  done\n",
          T "    /* nothing to do */\n", T "  \n", T "  done\n",
          T " on Off in idle\n",
          T "    /* nothing to do */\n", T "    next = Run;\n", T "  \n", T "  done\n",
          T "state Run\n"] := by decide

/-! rows without an event (the event cell is '' / None / none): the row registers its states - `Boot`, whose first row
    has no event, comes first - its action and guard, and belongs to no event -/
def exTableNoEv : List Table.Row :=
  [ { src := T "Boot", ev := T "None", next := some (T "Idle"), action := some (T "Init"), guard := none, noEv := true },
    { src := T "Idle", ev := T "Go", next := some (T "Run"), action := none, guard := none },
    { src := T "Boot", ev := T "Go", next := none, action := none, guard := some (T "IsCold") } ]
example : Table.perStateKeys exTableNoEv = [T "Boot", T "Idle", T "Run"] ∧ Table.events exTableNoEv = [T "Go"] ∧
    Table.eventsOf exTableNoEv (T "Boot") = [T "Go"] ∧ Table.actions exTableNoEv = [T "Init"] ∧
    (Table.rowsFor exTableNoEv (T "Boot") (T "None")).length = 0 := by decide
example : pstExpand exTableNoEv ((exPst.map Spec.PstItem.render).flatten) [] =
    some [T "state Boot\n",
          T " on Go in boot\n",
          T "  if (IsCold()) {\n", T "    /* nothing to do */\n", T "  \n", T "  done\n",
          T "state Idle\n",
          T " on Go in idle\n",
          T "    /* nothing to do */\n", T "    next = Run;\n", T "  \n", T "  done\n",
          T "state Run\n"] := by decide

/-- a row without an event belongs to no event of its state, whatever it is called -/
theorem C16_rows_without_event (t : List Table.Row) (s e : Str) :
    e ∈ Table.eventsOf t s ↔ ∃ r ∈ t, r.noEv = false ∧ r.src = s ∧ r.ev = e :=
  KojenVerif.Table.mem_eventsOf t s e

/-! non-vacuity of the whole-file theorem: lines, a state block, the nested transition block, a guard block -/
def exModel : Spec.Model := { table := exTable, structNames := [], protoNames := [], msgNames := [] }
def exItems : List Spec.Item :=
  [ .b (.line [.lit (T "// starts in "), .tag (T "STATE_0") none]),
    .block .ps (T "  ") exBody,
    .b (.blank (T "")),
    .pst (T "") exPst,
    .block .pg (T "") [.line [.lit (T "bool "), .tag (T "GUARDNAME") none, .lit (T "();")]],
    .b (.line [.lit (T "// end")]) ]
set_option maxRecDepth 100000 in
example : SecondOK exModel exItems := secondOKB_sound _ _ (by decide)
set_option maxRecDepth 100000 in
example : expandSecond exEnv (toSm exModel) (Spec.renderFile exItems) =
    some ([T "// starts in Idle\n", T "  s Idle idle idle 0a\n", T "  s Run run run 1b\n", T "\n",
           T "state Idle\n", T " on Go in idle\n",
           T "  if (IsReady()) {\n", T "    Start\n", T "    next = Run;\n", T "  \n", T "  done\n",
           T "    /* nothing to do */\n", T "  \n", T "  done\n",
           T " on Off in idle\n", T "    /* nothing to do */\n", T "    next = Run;\n", T "  \n", T "  done\n",
           T "state Run\n", T "bool IsReady();\n", T "// end\n"]) := by decide
end Example

end KojenVerif.C16
