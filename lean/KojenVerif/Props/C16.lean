import KojenVerif.Lemmas.EngineInner
import KojenVerif.Lemmas.EngineFilter
import KojenVerif.Lemmas.EngineSig
import KojenVerif.Lemmas.Str
/-
  C16 — template engine: per-element blocks expand once per element, in model order.

  `Engine` is the string-level transliteration of `cgen.py` / `smgen.py` (checked against the
  real code every run), `Spec` the token-level statement of what a block, a counter and a
  name tag mean.  Proved here, for every template and model within the grammar:
  the pair expander replaces every block in place and passes the rest through
  (`C16_blocks_in_place`); a state / event / action / guard block is expanded once per element, in the
  order of the model's list, name tags by the element's name in the tag's case, `NUM` by the
  zero-based index and `ALPH` by the letter (`C16_once_per_element_in_order`, `C16_case_variants`,
  `C16_counters`, `C16_letter_cycle`); a per-action-signature block once per (action, event) pair
  (`C16_action_signature_block`); the blank-line filter (`C16_blank_lines`) and the TAB
  filter (`C16_tab_filter`).
  Claimed through the correspondence and the reference expander only, not yet proved: the
  nested per-state / per-event / per-guard transition expansion with alternative texts,
  struct / message blocks, signature / member / documentation /
  attribute lines (see DESIGN.md 6/C16 staging).

  Hypotheses are decidable conditions on the concrete template and model, evaluated by the
  driver on every generated case: `Chunk.OK` (a line is a delimiter of the pass exactly when
  the chunking says so), `BodyLineOK` (angle-free literals / names / defaults and values, no
  signature / member / documentation / attribute tag after substitution), `EnvTotal`
  (the language back end answers for member instantiation / declaration).
-/
namespace KojenVerif.C16
open Engine Str

/-- **Blocks in place, everything else untouched.** For any pass (start/end keyword) and any
    file cut into chunks — runs of lines that are no delimiter of this pass, and blocks —
    the pair expander returns the runs as they are and, in place of each block, what the
    expansion function makes of the block's body (the delimiter lines disappear). -/
theorem C16_blocks_in_place (startTag endTag : Str) (f : List Line → Str → Option (List Line)) (cs : List Chunk)
    (h : ∀ c ∈ cs, c.OK (cleanTag startTag) (cleanTag endTag)) :
    pairExpand startTag endTag f ((cs.map Chunk.lines).flatten) = concatOpt (cs.map (chunkOut f)) :=
  pairExpand_chunks startTag endTag f cs h

/-- **Once per element, in model order.** The body of a per-state / per-event / per-action /
    per-guard block for the element list `items`: for each element in list order — and for no
    other — every body line with its name tags replaced by the element's name in the tag's
    case, `NUM` by its zero-based index, `ALPH` by its letter; white-space-only lines dropped. -/
theorem C16_once_per_element_in_order (env : Env) (ht : EnvTotal env) (items : List Str) (body : List Spec.BItem)
    (h : ∀ p ∈ enumFrom 0 items, ∀ i ∈ body, BodyLineOK p.2 p.1 i) :
    innerExpand env false items (body.map Spec.BItem.render) [] =
      some ((((enumFrom 0 items).map (fun p => Spec.bodyFor (elemDict p.2 p.1) body)).flatten).map Spec.bitemText) :=
  innerExpand_names env ht items body h

/-- **Per-action-signature block.** Once per (action, event) pair, in the given order — the
    table's pairs in order of first appearance (`Table.actionSigs`, duplicate-free) —, every
    body line kept, ACTIONNAME / EVENTNAME in their case variants and the counters replaced; an
    absent event is written `NONE`. -/
theorem C16_action_signature_block (sigs : List (Str × Str)) (body : List Spec.BItem)
    (hb : ∀ i ∈ body, match i with | .line l => LineOK l | .blank t => Clean t)
    (hc : ∀ p ∈ enumFrom 0 sigs, ChainOK (sigDict p.2.1 p.2.2 p.1)) :
    sigExpand sigs (body.map Spec.BItem.render) [] =
      some ((((enumFrom 0 sigs).map (fun p => body.map (Spec.BItem.subst (Spec.byDict (sigDict p.2.1 p.2.2 p.1))))).flatten).map Spec.bitemText) :=
  sigExpand_eq sigs body hb hc

/-- the elements are numbered 0, 1, 2, … in list order -/
theorem C16_enum (items : List Str) : (enumFrom 0 items).map (·.1) = List.range items.length := by
  have : ∀ (k : Nat) (l : List Str), (enumFrom k l).map (·.1) = (List.range' k l.length) := by
    intro k l
    induction l generalizing k with
    | nil => rfl
    | cons a l ih => simp [enumFrom, ih, List.range'_succ]
  rw [this, List.range_eq_range']

theorem C16_enum_items (items : List Str) : (enumFrom 0 items).map (·.2) = items := by
  have : ∀ (k : Nat) (l : List Str), (enumFrom k l).map (·.2) = l := by
    intro k l
    induction l generalizing k with
    | nil => rfl
    | cons a l ih => simp [enumFrom, ih]
  exact this 0 items

/-- **Case variants.** -/
theorem C16_case_variants (name : Str) (idx : Nat) :
    Spec.lookupS (elemDict name idx) (T "STATENAME") = some name ∧
    Spec.lookupS (elemDict name idx) (T "stateName") = some (camelSmall name) ∧
    Spec.lookupS (elemDict name idx) (T "STATE_NAME") = some (snakeCase name) ∧
    Spec.lookupS (elemDict name idx) (T "EVENTNAME") = some name ∧
    Spec.lookupS (elemDict name idx) (T "eventName") = some (camelSmall name) ∧
    Spec.lookupS (elemDict name idx) (T "EVENT_NAME") = some (snakeCase name) ∧
    Spec.lookupS (elemDict name idx) (T "ACTIONNAME") = some name ∧
    Spec.lookupS (elemDict name idx) (T "actionName") = some (camelSmall name) ∧
    Spec.lookupS (elemDict name idx) (T "ACTION_NAME") = some (snakeCase name) ∧
    Spec.lookupS (elemDict name idx) (T "GUARDNAME") = some name ∧
    Spec.lookupS (elemDict name idx) (T "guardName") = some (camelSmall name) ∧
    Spec.lookupS (elemDict name idx) (T "GUARD_NAME") = some (snakeCase name) := by
  refine ⟨rfl, rfl, rfl, rfl, rfl, rfl, rfl, rfl, rfl, rfl, rfl, rfl⟩

/-- **Counters.** -/
theorem C16_counters (name : Str) (idx : Nat) :
    Spec.lookupS (elemDict name idx) (T "NUM") = some (natToStr idx) ∧
    Spec.lookupS (elemDict name idx) (T "ALPH") = some [alphaOf idx] := ⟨rfl, rfl⟩

/-- the letter of index `n`: a…z, then A…Z, then again from a -/
theorem C16_letter_cycle (n : Nat) : alphaOf n = if n % 52 < 26 then 97 + n % 52 else 65 + (n % 52 - 26) :=
  alphaOf_eq n

/-- **Blank lines.** The loader's filter empties exactly the lines that consist of spaces
    only and directly follow such a line; every other line is unchanged, in place. -/
theorem C16_blank_lines (ls : List Line) : filterNewlines ls = collapseRef false ls := filterNewlines_eq ls

/-- **TAB filter** of the output stage: idempotent replacement of every TAB by four spaces. -/
theorem C16_tab_filter (s : Str) : expandTabs (expandTabs s) = expandTabs s := expandTabs_idem s

/-! non-vacuity: a state block over two states, with a blank line, counters and three cases -/
section Example
def exEnv : Env :=
  { sig := fun _ _ => some [], memberInst := fun _ _ _ _ => some [], memberDecl := fun _ _ _ => some [], aggInit := fun _ => some [],
    doc := fun _ => none, members := fun _ => none, msgId := fun _ => none }
def exBody : List Spec.BItem :=
  [.line [.lit (T "  s "), .tag (T "STATENAME") none, .lit (T " "), .tag (T "stateName") none, .lit (T " "), .tag (T "STATE_NAME") none,
          .lit (T " "), .tag (T "NUM") none, .tag (T "ALPH") none], .blank (T "  ")]
def exFile : List Line :=
  [T "head\n", T "<<<PER_STATE_BEGIN>>>\n"] ++ exBody.map Spec.BItem.render ++ [T "<<<PER_STATE_END>>>\n", T "tail\n"]
example : pairExpand (T "<<<PER_STATE_BEGIN>>>") (T "<<<PER_STATE_END>>>") (innerExpand exEnv false [T "IdleNow", T "Run"]) exFile =
    some [T "head\n", T "  s IdleNow idleNow idle_now 0a\n", T "  s Run run run 1b\n", T "tail\n"] := by decide
example : filterNewlines [T "a\n", T "\n", T "  \n", T "\t\n", T "\n", T " \n", T "b\n"] =
    [T "a\n", T "\n", [], T "\t\n", T "\n", [], T "b\n"] := by decide
end Example

end KojenVerif.C16
