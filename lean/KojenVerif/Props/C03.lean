import KojenVerif.Lemmas.Lost
import KojenVerif.Lemmas.Pipeline
import KojenVerif.Props.C02
/-
  C03 — no silent loss: code under vanished tags goes to `<file>.LostCode.txt` next to its
  file and is reported; undecodable files are not clobbered.

  The decode clause: since the fix `f7ef881` files are read and written with
  `errors='surrogateescape'`, which makes decoding total and byte-faithful; bytes that are
  invalid in the platform encoding arrive in the model as ordinary code points
  (U+DC80–U+DCFF) and are covered by C01/C02, whose theorems quantify over *all* lines
  (`List Nat`).  The byte-level tie is the correspondence (files written in binary by the
  harness).  The codec itself is trusted, not modelled.
-/
namespace KojenVerif.C03
open Str
variable {L K : Type} [DecidableEq K]

/-- **Complete, and nothing spurious.** The LostCode entries are exactly the old file's
    tags, in file order, that the new expansion lacks and whose body is non-empty, each with
    all its body lines in order.  Surviving tags and empty tags produce no entry. -/
theorem C03_lost_complete (c : Cfg L K) (norm : L → L) (hn : NormOK c norm)
    (B : K → List L) (hB : UserOK c B) (F₀ F₁ : List (Item L))
    (hF₀ : FreshDoc c norm F₀) (hF₁ : FreshDoc c norm F₁) :
    lostEntries (collect c (render (onDisk c norm B F₀)))
        (used c (collect c (render (onDisk c norm B F₀))) (render F₁))
      = ((blockKeys c F₀).filter (fun k => !(decide (k ∈ blockKeys c F₁)) && !(B k).isEmpty)).map
          (fun k => (k, B k)) :=
  lost_onDisk c norm hn B hB F₀ F₁ hF₀ hF₁

theorem C03_no_spurious_entry (c : Cfg L K) (norm : L → L) (hn : NormOK c norm)
    (B : K → List L) (hB : UserOK c B) (F₀ F₁ : List (Item L))
    (hF₀ : FreshDoc c norm F₀) (hF₁ : FreshDoc c norm F₁) (k : K) (b : List L)
    (hmem : (k, b) ∈ lostEntries (collect c (render (onDisk c norm B F₀)))
        (used c (collect c (render (onDisk c norm B F₀))) (render F₁))) :
    k ∈ blockKeys c F₀ ∧ k ∉ blockKeys c F₁ ∧ b = B k ∧ b ≠ [] := by
  rw [lost_onDisk c norm hn B hB F₀ F₁ hF₀ hF₁] at hmem
  simp only [List.mem_map, List.mem_filter, Bool.and_eq_true, Bool.not_eq_true',
    decide_eq_false_iff_not, Prod.mk.injEq] at hmem
  obtain ⟨k', ⟨hk0, hk1, hne⟩, rfl, rfl⟩ := hmem
  refine ⟨hk0, hk1, rfl, ?_⟩
  intro e
  rw [e] at hne
  simp at hne

/-- the lines of one entry: source file, tag label, every body line, tag label, separator -/
theorem C03_entry_layout (outputfile tag : Str) (body : List Str) :
    lostLines outputfile tag body
      = [outputfile ++ [NL], tag ++ [NL]] ++ body.map (· ++ [NL]) ++ [tag ++ [NL], lostSeparator] := rfl

/-- **Location.** The name the output stage opens for lost code of `outdir/fn` is the
    absolute, normalised name of that file plus `.LostCode.txt` — for every spelling of the
    output directory (relative, trailing separator, `..`) and every working directory. -/
theorem C03_location (w : World) (outdir fn : Str) (hc : Path.isAbs w.cwd = true) :
    Path.join outdir (lostKey w (Path.join outdir fn))
      = Path.abspath w.cwd (Path.join outdir fn) ++ lostSuffix := by
  unfold lostKey
  exact Path.join_abs _ _ (Path.isAbs_append _ _ (Path.isAbs_abspath _ _ hc))

/-- **Listed.** If regenerating file `fn` loses something, its LostCode name is in the list
    the generator returns. -/
theorem C03_listed_in_result (w : World) (outdir : Str) (cm : CodeModel)
    (hnd : (ODict.keys cm).Nodup) (hnc : NoClash w outdir (ODict.keys cm))
    (fn : Str) (lines : List Str) (hfn : ODict.get? cm fn = some lines)
    (hl : (ownLost w (Path.join outdir fn) fn lines).isEmpty = false) :
    lostKey w (Path.join outdir fn) ∈ (regen w outdir cm).2 := by
  unfold regen createOutput
  exact preservePass_lost_listed w outdir cm hnd hnc fn lines hfn hl

/-! non-vacuity: model change C01.exF → C02.exF1 drops tag A, which holds text -/
section Example
example : lostEntries (collect strCfg (render (onDisk strCfg expandTabs C01.exB C01.exF)))
      (used strCfg (collect strCfg (render (onDisk strCfg expandTabs C01.exB C01.exF))) (render C02.exF1))
    = [(ofString "{{{USER_A", C01.exB (ofString "{{{USER_A"))] := by decide +kernel
example : Path.join (ofString "rel/out") (lostKey ⟨ofString "/w", []⟩ (Path.join (ofString "rel/out") (ofString "X.h")))
    = ofString "/w/rel/out/X.h.LostCode.txt" := by decide +kernel
end Example

end KojenVerif.C03
