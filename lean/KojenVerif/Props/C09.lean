import KojenVerif.Model.EmitSml
import KojenVerif.Props.C10
/-
  C09 — the generated C++ (boost::sml) encodes exactly the table and is self-consistent.

  The behaviour of boost::sml itself is not modelled (the library is not even present in
  the sandbox); what is proved is the *encoding*: which rows the generator writes.  That
  the units type-check together is decided per sampled table by `g++ -fsyntax-only` against
  an interface-only stub of the library (support, not proof).
-/
namespace KojenVerif.C09
open Table EmitSml

theorem filter_go (t : List Row) (first : Bool) (seen : List Str) :
    (go t first seen).filter isTrans =
      match t with
      | [] => []
      | r :: rs => transOf first r :: rs.map (transOf false) := by
  induction t generalizing first seen with
  | nil => rfl
  | cons r rs ih =>
    simp only [go, List.filter_cons, transOf, isTrans, if_true]
    congr 1
    split
    · rw [ih false seen]; cases rs <;> rfl
    · simp only [List.filter_cons, isTrans, Bool.false_eq_true, if_false]
      rw [ih false (seen ++ [r.src])]; cases rs <;> rfl

theorem filter_tail (ss : List Str) :
    ((ss.map (fun s => [SmlRow.entry s, SmlRow.exit s])).flatten).filter isTrans = [] := by
  induction ss with
  | nil => rfl
  | cons s ss ih => simp [isTrans, ih]

/-- **One row per table line, in order, same fields**; only the first carries the initial
    marker `*`; rows without target stay internal; absent guards / actions become `gnone` /
    `none`. -/
theorem C09_rows_in_order (r : Row) (t : List Row) :
    (rows (r :: t)).filter isTrans = transOf true r :: t.map (transOf false) := by
  unfold rows
  rw [List.filter_append, filter_go, filter_tail]
  simp

theorem C09_rows_empty : (rows []).filter isTrans = [] := by
  simp [rows, go, states, sourceStates]

theorem C09_initial (r : Row) (t : List Row) :
    ∀ row ∈ (rows (r :: t)).filter isTrans,
      (∃ s e g a n, row = SmlRow.trans true s e g a n) → row = transOf true r ∨ row ∈ t.map (transOf false) := by
  intro row hrow _
  rw [C09_rows_in_order] at hrow
  simpa using hrow

theorem entryStates_go (t : List Row) (first : Bool) (seen : List Str) :
    seen ++ entryStates (go t first seen) = t.foldl (fun acc r => addUniq acc r.src) seen ∧
    seen ++ exitStates (go t first seen) = t.foldl (fun acc r => addUniq acc r.src) seen := by
  induction t generalizing first seen with
  | nil => simp [go, entryStates, exitStates]
  | cons r rs ih =>
    simp only [go, List.foldl_cons]
    by_cases hc : seen.contains r.src = true
    · have hm : r.src ∈ seen := by simpa using hc
      have hadd : addUniq seen r.src = seen := by simp [addUniq, hm]
      simp only [hc, if_true, hadd, entryStates, exitStates, transOf]
      exact ih false seen
    · have hc' : seen.contains r.src = false := by simpa using hc
      have hm : r.src ∉ seen := by simpa using hc'
      have hadd : addUniq seen r.src = seen ++ [r.src] := by simp [addUniq, hm]
      simp only [hc', Bool.false_eq_true, if_false, hadd, entryStates, exitStates, transOf]
      have := ih false (seen ++ [r.src])
      constructor
      · rw [← this.1]; simp
      · rw [← this.2]; simp

theorem entryStates_append (a b : List SmlRow) : entryStates (a ++ b) = entryStates a ++ entryStates b := by
  induction a with
  | nil => rfl
  | cons x a ih => cases x <;> simp [entryStates, ih]

theorem exitStates_append (a b : List SmlRow) : exitStates (a ++ b) = exitStates a ++ exitStates b := by
  induction a with
  | nil => rfl
  | cons x a ih => cases x <;> simp [exitStates, ih]

theorem entryStates_tail (ss : List Str) :
    entryStates ((ss.map (fun s => [SmlRow.entry s, SmlRow.exit s])).flatten) = ss ∧
    exitStates ((ss.map (fun s => [SmlRow.entry s, SmlRow.exit s])).flatten) = ss := by
  induction ss with
  | nil => exact ⟨rfl, rfl⟩
  | cons s ss ih => simp [entryStates, exitStates, ih.1, ih.2]

/-- the states that get an entry hook (and an exit hook), in order of the generated table -/
theorem entry_exit_states (t : List Row) :
    entryStates (rows t) = perStateKeys t ∧ exitStates (rows t) = perStateKeys t := by
  unfold rows perStateKeys
  rw [entryStates_append, exitStates_append]
  have h := entryStates_go t true []
  have ht := entryStates_tail ((states t).filter (fun s => !(sourceStates t).contains s))
  simp only [List.nil_append] at h
  rw [h.1, h.2, ht.1, ht.2]
  exact ⟨rfl, rfl⟩

theorem nodup_perStateKeys (t : List Row) : (perStateKeys t).Nodup := by
  unfold perStateKeys
  rw [List.nodup_append]
  refine ⟨nodup_foldl_addUniq (fun r => r.src) t [] (by simp), (C10.nodup_states t).filter _, ?_⟩
  intro a ha b hb e
  subst e
  simp only [List.mem_filter, Bool.not_eq_true', List.contains_eq_mem, decide_eq_false_iff_not] at hb
  exact hb.2 ha

/-- **Exactly one entry and one exit hook for every state of the table** — states that are
    only targets included — and for nothing else. -/
theorem C09_entry_exit_every_state (t : List Row) (s : Str) :
    (s ∈ states t ∨ s ∈ sourceStates t ↔ s ∈ entryStates (rows t)) ∧
    (entryStates (rows t)).Nodup ∧ exitStates (rows t) = entryStates (rows t) := by
  have h := entry_exit_states t
  rw [h.1, h.2]
  refine ⟨?_, nodup_perStateKeys t, rfl⟩
  rw [mem_perStateKeys]
  constructor
  · rintro (h | h)
    · exact Or.inr h
    · exact Or.inl h
  · rintro (h | h)
    · exact Or.inr h
    · exact Or.inl h

/-- **Declared exactly once**: every state, guard and (action, event) pair a row refers to is
    in the corresponding first-appearance list from which the controller / state-machine
    declarations are expanded, and those lists have no duplicates. -/
theorem C09_declared_once (t : List Row) (r : Row) (hr : r ∈ t) :
    r.src ∈ perStateKeys t ∧ (∀ n, r.next = some n → n ∈ states t) ∧
    (∀ g, r.guard = some g → g ∈ guards t) ∧ (∀ a, r.action = some a → (a, r.ev) ∈ actionSigs t) ∧
    (guards t).Nodup ∧ (actionSigs t).Nodup ∧ (states t).Nodup := by
  refine ⟨(C10.C10_every_enterable_state_has_class t r hr).1,
          fun n hn => C08.mem_states_of_next t r hr n hn,
          fun g hg => (C10.mem_guards t g).2 ⟨r, hr, hg⟩,
          fun a ha => (C10.mem_actionSigs t a r.ev).2 ⟨r, hr, ha, rfl⟩,
          C10.nodup_guards t, C10.nodup_actionSigs t, C10.nodup_states t⟩

/-! non-vacuity -/
section Example
open Str
example : rows C08.exT =
    [ SmlRow.trans true (ofString "S1") (ofString "EvA") (ofString "g1") (ofString "actA") (some (ofString "S2")),
      SmlRow.entry (ofString "S1"), SmlRow.exit (ofString "S1"),
      SmlRow.trans false (ofString "S1") (ofString "EvA") (ofString "gnone") (ofString "actB") (some (ofString "S3")),
      SmlRow.trans false (ofString "S2") (ofString "EvA") (ofString "gnone") (ofString "actA") none,
      SmlRow.entry (ofString "S2"), SmlRow.exit (ofString "S2"),
      SmlRow.trans false (ofString "S2") (ofString "EvA") (ofString "g1") (ofString "none") (some (ofString "S1")),
      SmlRow.entry (ofString "S3"), SmlRow.exit (ofString "S3") ] := by decide
end Example

end KojenVerif.C09
