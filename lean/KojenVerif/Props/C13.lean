import KojenVerif.Model.Dispatch
import KojenVerif.Props.C12
import KojenVerif.Props.C14
/-
  C13 — protocol round trip: a transmitted message reaches exactly the matching handler.

  Composition of three models: the factory bytes (C12, `Model/Wire`), the connection layer
  under arbitrary re-chunking by the transport (C14, `Model/Conn`), the generated `switch`
  and retry loop (`Model/Dispatch`).
-/
namespace KojenVerif.C13
open Dispatch Conn

theorem findIdx?_of_nodup (ids : List Nat) (i : Nat) (hi : i < ids.length) (hnd : ids.Nodup) (v : Nat)
    (hv : ids[i] = v) : ids.findIdx? (· == v) = some i := by
  induction ids generalizing i with
  | nil => simp at hi
  | cons x xs ih =>
    simp only [List.nodup_cons] at hnd
    cases i with
    | zero =>
      simp only [List.getElem_cons_zero] at hv
      simp [List.findIdx?_cons, hv]
    | succ i =>
      simp only [List.getElem_cons_succ] at hv
      simp only [List.length_cons] at hi
      have hne : ¬ x = v := by
        intro e; apply hnd.1; rw [e, ← hv]; exact List.getElem_mem _
      simp [List.findIdx?_cons, hne, ih i (by omega) hnd.2 hv]

/-- **Exactly the matching handler.** With pairwise distinct type ids a message whose id is
    the `i`-th reaches handler `i` and no other. -/
theorem C13_dispatch_exact (ids : List Nat) (hnd : ids.Nodup) (i : Nat) (hi : i < ids.length)
    (msg : Wire.Bytes) (hid : typeIdOf msg = ids[i]) : dispatch ids msg = .handler i := by
  unfold dispatch
  rw [findIdx?_of_nodup ids i hi hnd (typeIdOf msg) hid.symm]

/-- an id the interface does not define reaches only the not-handled hook -/
theorem C13_undefined_id_not_handled (ids : List Nat) (msg : Wire.Bytes) (h : typeIdOf msg ∉ ids) :
    dispatch ids msg = .notHandled := by
  unfold dispatch
  have : ids.findIdx? (· == typeIdOf msg) = none := by
    rw [List.findIdx?_eq_none_iff]
    intro x hx
    have : ¬ x = typeIdOf msg := fun e => h (e ▸ hx)
    simpa using this
  rw [this]

/-- the factory result of message `m` carries `m`'s type id -/
theorem C13_factory_dispatch (ids : List Nat) (hnd : ids.Nodup) (i : Nat) (hi : i < ids.length)
    (m : Wire.Msg) (hwf : Wire.WFList m.payload) (hid : m.typeId = ids[i]) (hlt : m.typeId < 65536) :
    dispatch ids m.factoryDefault = .handler i := by
  apply C13_dispatch_exact ids hnd i hi
  unfold typeIdOf
  rw [C12.C12_factory_type_id m hwf hlt, hid]

/-- **Round trip under any fragmentation.** A sequence of well-formed messages sent back to
    back, re-chunked arbitrarily by the transport: the receiver's handlers are invoked once
    per message, in order, with the identical bytes — hence (by `C13_dispatch_exact`) each
    in the handler of its own type. -/
theorem C13_roundtrip_any_chunking (c : Cfg) (msgs : List Wire.Bytes) (hm : ∀ m ∈ msgs, IsMsg c m)
    (chunks : List Wire.Bytes) (hcut : chunks.flatten = msgs.flatten) (ids : List Nat) :
    (feedAll c St.init chunks).2.map (dispatch ids) = msgs.map (dispatch ids) := by
  have hflat : ∀ ms : List Wire.Bytes, flatS (ms.map (fun m => ([], m))) [] = ms.flatten := by
    intro ms
    induction ms with
    | nil => rfl
    | cons m ms ih => simp [flatS, ih]
  have hwf : WFSegs c (msgs.map (fun m => ([], m))) [] := by
    refine ⟨?_, by simp⟩
    intro fm hfm
    simp only [List.mem_map] at hfm
    obtain ⟨m, hmm, rfl⟩ := hfm
    exact ⟨by simp, hm m hmm⟩
  have := C14.C14_reassembly c (msgs.map (fun m => ([], m))) [] chunks hwf (by rw [hflat]; exact hcut)
  rw [this]
  simp [msgsOf, List.map_map, Function.comp_def]

/-! ### transmitter retry loop -/

theorem transmitLoop_spec (accepts : Nat → Bool) (n k : Nat) :
    ((transmitLoop accepts n k).1 = true ↔ ∃ j, j < n ∧ accepts (k + j) = true) ∧
    (transmitLoop accepts n k).2 ≤ k + n ∧ k ≤ (transmitLoop accepts n k).2 ∧
    ((transmitLoop accepts n k).1 = true →
        accepts ((transmitLoop accepts n k).2 - 1) = true ∧
        ∀ j, k ≤ j → j < (transmitLoop accepts n k).2 - 1 → accepts j = false) ∧
    ((transmitLoop accepts n k).1 = false → (transmitLoop accepts n k).2 = k + n) := by
  induction n generalizing k with
  | zero => simp [transmitLoop]
  | succ n ih =>
    by_cases ha : accepts k = true
    · simp only [transmitLoop, ha, if_true]
      refine ⟨⟨fun _ => ⟨0, by omega, by simpa using ha⟩, fun _ => trivial⟩, by omega, by omega, ?_, by simp⟩
      intro _
      refine ⟨by simpa using ha, ?_⟩
      intro j h1 h2
      simp at h2; omega
    · have ha' : accepts k = false := by simpa using ha
      simp only [transmitLoop, ha', Bool.false_eq_true, if_false]
      obtain ⟨h1, h2, h3, h4, h5⟩ := ih (k + 1)
      refine ⟨?_, by omega, by omega, ?_, ?_⟩
      · rw [h1]
        constructor
        · rintro ⟨j, hj, hacc⟩
          exact ⟨j + 1, by omega, by rw [← hacc]; congr 1; omega⟩
        · rintro ⟨j, hj, hacc⟩
          cases j with
          | zero => simp [ha'] at hacc
          | succ j => exact ⟨j, by omega, by rw [← hacc]; congr 1; omega⟩
      · intro hok
        obtain ⟨hl, hr⟩ := h4 hok
        refine ⟨hl, ?_⟩
        intro j hj1 hj2
        by_cases hjk : j = k
        · subst hjk; exact ha'
        · exact hr j (by omega) hj2
      · intro hno
        rw [h5 hno]; omega

/-- **Success exactly when accepted within the allowed attempts**: with `retries ≥ 0` the
    transmitter makes at most `retries + 1` calls and reports success iff one of them was
    accepted. -/
theorem C13_retry_success_iff (accepts : Nat → Bool) (retries : Nat) :
    (transmit accepts retries).1 = true ↔ ∃ j, j ≤ retries ∧ accepts j = true := by
  have h := (transmitLoop_spec accepts (retries + 1) 0).1
  have : ¬ ((retries : Int) < 0) := by omega
  simp only [transmit, this, if_false, Int.toNat_natCast]
  rw [h]
  constructor
  · rintro ⟨j, hj, ha⟩; exact ⟨j, by omega, by simpa using ha⟩
  · rintro ⟨j, hj, ha⟩; exact ⟨j, by omega, by simpa using ha⟩

/-- **Never sends again after an accepted attempt**; on success the last call is the accepted
    one and every earlier call was rejected; on failure exactly `retries + 1` calls were made. -/
theorem C13_retry_calls (accepts : Nat → Bool) (retries : Nat) :
    (transmit accepts retries).2 ≤ retries + 1 ∧
    ((transmit accepts retries).1 = true →
        accepts ((transmit accepts retries).2 - 1) = true ∧
        ∀ j, j < (transmit accepts retries).2 - 1 → accepts j = false) ∧
    ((transmit accepts retries).1 = false → (transmit accepts retries).2 = retries + 1) := by
  have h := transmitLoop_spec accepts (retries + 1) 0
  have hn : ¬ ((retries : Int) < 0) := by omega
  simp only [transmit, hn, if_false, Int.toNat_natCast]
  obtain ⟨_, h2, _, h4, h5⟩ := h
  refine ⟨by omega, ?_, ?_⟩
  · intro hok
    obtain ⟨hl, hr⟩ := h4 hok
    exact ⟨hl, fun j hj => hr j (by omega) hj⟩
  · intro hno; have := h5 hno; omega

/-- a negative retry count sends nothing and reports failure -/
theorem C13_retry_negative (accepts : Nat → Bool) (retries : Int) (h : retries < 0) :
    transmit accepts retries = (false, 0) := by
  simp [transmit, h]

/-! non-vacuity -/
section Example
example : dispatch [5, 9, 1] [0xAD, 0xDE, 9, 0, 0, 0, 0, 0] = .handler 1 := by decide
example : dispatch [5, 9, 1] [0xAD, 0xDE, 7, 1, 0, 0, 0, 0] = .notHandled := by decide
example : transmit (fun k => k == 2) 5 = (true, 3) ∧ transmit (fun k => k == 7) 5 = (false, 6)
    ∧ transmit (fun k => k == 5) 5 = (true, 6) := by decide
end Example

end KojenVerif.C13
