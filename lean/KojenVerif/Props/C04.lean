import KojenVerif.Lemmas.Pipeline
import KojenVerif.Props.C02
/-
  C04 — user code stays confined to its own file and tag.

  `preservePass` is the model of `CGenerator.preserve_usercode_in_files` after fix 6a0a321.
  Isolation holds for *all* file names (suffix, prefix, substring, nested folders) — the
  only hypotheses are that code-model keys are pairwise distinct (it is a dictionary) and
  that no generated file is itself named like a LostCode pseudo-file of another.
-/
namespace KojenVerif.C04
open Str

/-- **Isolation.** The lines written for file `fn` are a function of `fn`'s own previous
    content and its own fresh expansion only. -/
theorem C04_isolation (w : World) (outdir : Str) (cm : CodeModel)
    (hnd : (ODict.keys cm).Nodup) (hnc : NoClash w outdir (ODict.keys cm))
    (fn : Str) (lines : List Str) (hfn : ODict.get? cm fn = some lines) :
    ODict.get? (preservePass w outdir cm) fn = some (ownLines w (Path.join outdir fn) fn lines) :=
  preservePass_get? w outdir cm hnd hnc fn lines hfn

/-- the own-file step is the single-file regeneration of C01/C02 (or the fresh lines when
    there is no previous file) -/
theorem C04_ownLines_eq (w : World) (outdir fn : Str) (lines : List Str) :
    ownLines w (Path.join outdir fn) fn lines =
      match w.read (Path.join outdir fn) with
      | none => lines
      | some content =>
        if contains fn (Path.join outdir fn) then
          emplace strCfg (collect strCfg (splitLines content)) lines
        else lines := by
  unfold ownLines
  cases w.read (Path.join outdir fn) <;> rfl

/-- **A file that does not exist yet starts clean**: when nothing can be read at `outdir/fn`, the
    pass writes exactly `fn`'s fresh expansion - whatever else the tree holds (a like-named file in
    another folder, say `Alpha/Widget.h` when `Beta/Widget.h` is new). -/
theorem C04_new_file_starts_clean (w : World) (outdir : Str) (cm : CodeModel)
    (hnd : (ODict.keys cm).Nodup) (hnc : NoClash w outdir (ODict.keys cm))
    (fn : Str) (lines : List Str) (hfn : ODict.get? cm fn = some lines)
    (hnew : w.read (Path.join outdir fn) = none) :
    ODict.get? (preservePass w outdir cm) fn = some lines := by
  rw [C04_isolation w outdir cm hnd hnc fn lines hfn, C04_ownLines_eq, hnew]

/-- other files do not matter: two worlds that agree on `outdir/fn` give `fn` the same lines -/
theorem C04_other_files_irrelevant (w w' : World) (outdir : Str) (cm : CodeModel)
    (hnd : (ODict.keys cm).Nodup) (hnc : NoClash w outdir (ODict.keys cm))
    (hnc' : NoClash w' outdir (ODict.keys cm))
    (fn : Str) (lines : List Str) (hfn : ODict.get? cm fn = some lines)
    (hsame : w.read (Path.join outdir fn) = w'.read (Path.join outdir fn)) :
    ODict.get? (preservePass w outdir cm) fn = ODict.get? (preservePass w' outdir cm) fn := by
  rw [preservePass_get? w outdir cm hnd hnc fn lines hfn,
      preservePass_get? w' outdir cm hnd hnc' fn lines hfn]
  unfold ownLines
  rw [hsame]

/-- the expansion of *other* files does not matter either -/
theorem C04_other_expansions_irrelevant (w : World) (outdir : Str) (cm cm' : CodeModel)
    (hnd : (ODict.keys cm).Nodup) (hnc : NoClash w outdir (ODict.keys cm))
    (hnd' : (ODict.keys cm').Nodup) (hnc' : NoClash w outdir (ODict.keys cm'))
    (fn : Str) (lines : List Str) (hfn : ODict.get? cm fn = some lines) (hfn' : ODict.get? cm' fn = some lines) :
    ODict.get? (preservePass w outdir cm) fn = ODict.get? (preservePass w outdir cm') fn := by
  rw [preservePass_get? w outdir cm hnd hnc fn lines hfn,
      preservePass_get? w outdir cm' hnd' hnc' fn lines hfn']

/-! non-vacuity: the name pair of the shipped Python templates (X.py ⊑ TestX.py) -/
section Example
def exW : World := ⟨ofString "/w", [(ofString "/w/out/TestX.py", ofString "# {{{USER_IMPORTS}}}\nimport mytest\n# {{{USER_IMPORTS}}}\n")]⟩
def exCM : CodeModel := [(ofString "TestX.py", [ofString "# {{{USER_IMPORTS}}}\n", ofString "# {{{USER_IMPORTS}}}\n"]),
                         (ofString "X.py", [ofString "# {{{USER_IMPORTS}}}\n", ofString "# {{{USER_IMPORTS}}}\n"])]
example : preservePass exW (ofString "out") exCM =
    [(ofString "TestX.py", [ofString "# {{{USER_IMPORTS}}}\n", ofString "import mytest\n", ofString "# {{{USER_IMPORTS}}}\n"]),
     (ofString "X.py", [ofString "# {{{USER_IMPORTS}}}\n", ofString "# {{{USER_IMPORTS}}}\n"])] := by decide +kernel
end Example

end KojenVerif.C04
