import KojenVerif.Model.Wire
import KojenVerif.Lemmas.Conn
/-
  C12 — protocol structs are padding-free; factories yield the declared header and defaults.

  `Model/Wire`: packed layout (declaration order, size = sum of member sizes) is the
  specification the compiled probe checks `sizeof`/`offsetof` against; what is *proved* is
  that the default-argument text the generator renders (`_processDefaults`, nested to any
  depth), fed through C++ aggregate initialisation, produces exactly the declared defaults
  (zero where none), that the factory header makes every factory result a well-formed
  message in the sense of the connection layer (C14's `IsMsg`), and that arguments land in
  the member of the same position/name.  "The generated C++ compiles" is decided per
  sampled interface by g++ and clang++ in the check, not by proof.
-/
namespace KojenVerif.C12
open Wire

mutual
  theorem declared_length : ∀ f : Fld, f.WF → f.declared.length = f.size
    | .prim n none, _ => by simp [Fld.declared, Fld.size, zeros]
    | .prim n (some img), h => by simpa [Fld.declared, Fld.size, Fld.WF] using h
    | .nested fs, h => by
        simp only [Fld.declared, Fld.size]
        exact declaredList_length fs (by simpa [Fld.WF] using h)
  theorem declaredList_length : ∀ fs : List Fld, WFList fs → (declaredList fs).length = sizeList fs
    | [], _ => rfl
    | f :: fs, h => by
        simp only [WFList] at h
        simp [declaredList, sizeList, declared_length f h.1, declaredList_length fs h.2]
end

mutual
  /-- **Defaults at any depth.** Rendering the default argument and initialising the member
      from it (C++ aggregate initialisation) gives the declared default, zero where none. -/
  theorem init_render : ∀ f : Fld, f.WF → f.init f.render = f.declared
    | .prim n none, _ => by simp [Fld.render, Fld.init, Fld.declared]
    | .prim n (some img), h => by
        have : img.length = n := by simpa [Fld.WF] using h
        simp [Fld.render, Fld.init, Fld.declared, this]
    | .nested [], _ => by simp [Fld.render, Fld.init, Fld.declared, declaredList, sizeList, zeros]
    | .nested (f :: fs), h => by
        have h' : f.WF ∧ WFList fs := by simpa [Fld.WF, WFList] using h
        simp only [Fld.render, Fld.init, initList, Fld.declared, declaredList]
        rw [init_render f h'.1, initList_render fs h'.2]
  theorem initList_render : ∀ fs : List Fld, WFList fs → initList fs (renderList fs) = declaredList fs
    | [], _ => rfl
    | f :: fs, h => by
        simp only [WFList] at h
        simp only [renderList, initList, declaredList]
        rw [init_render f h.1, initList_render fs h.2]
end

/-- members are laid out in declaration order without padding: offset i is the start
    offset plus the sizes of the members before it -/
theorem C12_offsets_declaration_order (fs : List Fld) (off i : Nat) (hi : i < fs.length) :
    (offsets fs off)[i]? = some (off + sizeList (fs.take i)) := by
  induction fs generalizing off i with
  | nil => simp at hi
  | cons f fs ih =>
    cases i with
    | zero => simp [offsets, sizeList]
    | succ i =>
      simp only [List.length_cons] at hi
      simp only [offsets, List.getElem?_cons_succ, List.take_succ_cons, sizeList]
      rw [ih (off + f.size) i (by omega)]
      congr 1; omega

/-- the size of a struct is the sum of its members' sizes (no tail padding either) -/
theorem C12_size_is_sum (fs : List Fld) : sizeList fs = (fs.map Fld.size).sum := by
  induction fs with
  | nil => rfl
  | cons f fs ih => simp [sizeList, ih]

/-- **Factory without arguments**: preamble, type id, payload size = sizeof(msg) − 8, then
    every field — through any depth of nested structs — its declared default. -/
theorem C12_factory_defaults_any_depth (m : Msg) (h : WFList m.payload) :
    m.factoryDefault = le16 m.preamble ++ le16 m.typeId ++ le32 (m.size - 8) ++ declaredList m.payload := by
  unfold Msg.factoryDefault
  rw [initList_render m.payload h]

theorem C12_factory_length (m : Msg) (h : WFList m.payload) : m.factoryDefault.length = m.size := by
  rw [C12_factory_defaults_any_depth m h]
  simp [le16, le32, declaredList_length m.payload h, Msg.size]
  omega

/-- **Header.** Every factory result is a well-formed message for the connection layer:
    starts with the two preamble bytes, and its size field equals the bytes that follow. -/
theorem C12_factory_header (m : Msg) (h : WFList m.payload)
    (hsz : m.size < 4294967296) :
    Conn.IsMsg ⟨m.preamble % 256, m.preamble / 256 % 256⟩ m.factoryDefault := by
  have hlen := C12_factory_length m h
  have hs : 8 ≤ m.size := by simp [Msg.size]
  refine ⟨by omega, ?_, ?_, ?_⟩
  · rw [C12_factory_defaults_any_depth m h]; simp [le16]
  · rw [C12_factory_defaults_any_depth m h]; simp [le16]
  · rw [hlen, C12_factory_defaults_any_depth m h]
    simp only [Conn.payloadSize, le16, le32, List.cons_append, List.nil_append,
      List.getD_cons_succ, List.getD_cons_zero]
    omega

/-- type id as the receiver reads it (bytes 2 and 3, little endian) -/
theorem C12_factory_type_id (m : Msg) (h : WFList m.payload) (hid : m.typeId < 65536) :
    m.factoryDefault.getD 2 0 + 256 * m.factoryDefault.getD 3 0 = m.typeId := by
  rw [C12_factory_defaults_any_depth m h]
  simp only [le16, le32, List.cons_append, List.nil_append, List.getD_cons_succ, List.getD_cons_zero]
  omega

theorem flatten_slice (args : List Bytes) (i : Nat) (hi : i < args.length) :
    (args.flatten.drop (args.take i).flatten.length).take (args[i]).length = args[i] := by
  induction args generalizing i with
  | nil => simp at hi
  | cons a as ih =>
    cases i with
    | zero => simp
    | succ i =>
      simp only [List.length_cons] at hi
      simp only [List.take_succ_cons, List.flatten_cons, List.length_append, List.getElem_cons_succ]
      rw [List.drop_append]
      have h0 : List.drop (a.length + (as.take i).flatten.length) a = [] := by
        apply List.drop_eq_nil_of_le; omega
      have h1 : a.length + (as.take i).flatten.length - a.length = (as.take i).flatten.length := by omega
      rw [h0, h1, List.nil_append]
      exact ih i (by omega)

/-- **Arguments by name.** Argument `i` of the factory (named like member `i`) occupies
    exactly the bytes of member `i`: it starts right behind the header and the arguments
    before it. -/
theorem C12_factory_args_by_name (m : Msg) (args : List Bytes) (i : Nat) (hi : i < args.length) :
    ((m.factoryWith args).drop (8 + (args.take i).flatten.length)).take (args[i]).length = args[i] := by
  unfold Msg.factoryWith
  have hhdr : (le16 m.preamble ++ le16 m.typeId ++ le32 (m.size - 8)).length = 8 := by simp [le16, le32]
  rw [List.drop_append, hhdr]
  have h0 : List.drop (8 + (args.take i).flatten.length) (le16 m.preamble ++ le16 m.typeId ++ le32 (m.size - 8)) = [] := by
    apply List.drop_eq_nil_of_le; omega
  have h1 : 8 + (args.take i).flatten.length - 8 = (args.take i).flatten.length := by omega
  rw [h0, h1, List.nil_append]
  exact flatten_slice args i hi

/-! non-vacuity: the example interface of the repository (nested two deep, defaults at every level) -/
section Example
def another : Fld := .nested [.prim 2 (some [6, 0]), .prim 2 (some [7, 0]), .prim 4 (some [8, 0, 0, 0])]
def nestedS : Fld := .nested [.prim 2 (some [3, 0]), .prim 2 none, .prim 4 (some [5, 0, 0, 0]), another]
def exMsg : Msg := ⟨0xDEAD, 2, [nestedS, .prim 1 (some [3]), .prim 8 none, .nested []]⟩
example : WFList exMsg.payload := by
  simp [exMsg, nestedS, another, WFList, Fld.WF]
example : exMsg.factoryDefault = [0xAD, 0xDE, 2, 0, 25, 0, 0, 0, 3, 0, 0, 0, 5, 0, 0, 0, 6, 0, 7, 0, 8, 0, 0, 0, 3, 0, 0, 0, 0, 0, 0, 0, 0] := by
  decide
end Example

end KojenVerif.C12
