import KojenVerif.Lemmas.Regen
import KojenVerif.Lemmas.Str
import KojenVerif.Lemmas.DocCheck
import KojenVerif.Generated.Templates
/-
  C01 — regenerating an unchanged model is a fixed point that keeps all user code.

  Model: `Model/Preserv` (collect / emplace, line by line after preservative.py),
  `regenLines` = collect old file, emplace into the fresh expansion, output filter.
  `F` is the fresh expansion of one file (any `FreshDoc`: that every real output is one is
  checked on every generated file by the driver's `wfFresh`, whose soundness is
  `wfFresh_sound`); `B` is an arbitrary assignment of user text to tag keys.
-/
namespace KojenVerif.C01
open Str

variable {L K : Type} [DecidableEq K]

/-- TAB expansion is an admissible output filter for the shipped tag prefix: it neither
    creates nor destroys a tag line, and is idempotent. -/
theorem normOK_expandTabs : NormOK strCfg expandTabs :=
  ⟨fun l => contains_expandTabs Generated.userPrefix (by decide) (by decide) l, expandTabs_idem⟩

/-- First regeneration over a hand-edited file: the result is the edited file with the
    output filter applied to its lines, nothing else (abstract form). -/
theorem C01_tab_normalisation_only (c : Cfg L K) (norm : L → L) (hn : NormOK c norm)
    (B : K → List L) (hB : UserOK c B) (F : List (Item L)) (hF : FreshDoc c norm F) :
    regenLines c norm (render F) (render (onDisk c norm B F))
      = (render (onDisk c norm B F)).map norm :=
  regen_onDisk c norm hn B hB F hF

/-- **Fixed point.** Once the user text on disk is already in output form (which it is
    after any regeneration), regenerating changes nothing. -/
theorem C01_fixed_point (c : Cfg L K) (norm : L → L) (hn : NormOK c norm)
    (B : K → List L) (hB : UserOK c B) (hBn : ∀ k, (B k).map norm = B k)
    (F : List (Item L)) (hF : FreshDoc c norm F) :
    regenLines c norm (render F) (render (onDisk c norm B F)) = render (onDisk c norm B F) := by
  rw [regen_onDisk c norm hn B hB F hF, map_norm_onDisk c norm hn]
  congr 2
  funext k
  exact hBn k

/-- Any number (≥ 1) of successive regenerations gives what the first one gave. -/
theorem C01_iterate (c : Cfg L K) (norm : L → L) (hn : NormOK c norm)
    (B : K → List L) (hB : UserOK c B) (F : List (Item L)) (hF : FreshDoc c norm F) (n : Nat) :
    Nat.repeat (regenLines c norm (render F)) (n + 1) (render (onDisk c norm B F))
      = render (onDisk c norm (fun k => (B k).map norm) F) := by
  have hB' : UserOK c (fun k => (B k).map norm) := by
    intro k x hx
    simp only [List.mem_map] at hx
    obtain ⟨y, hy, rfl⟩ := hx
    rw [hn.tag]; exact hB k y hy
  have hBn' : ∀ k, ((fun k => (B k).map norm) k).map norm = (fun k => (B k).map norm) k := by
    intro k; simp [hn.idem]
  induction n with
  | zero =>
    simp only [Nat.repeat]
    rw [regen_onDisk c norm hn B hB F hF, map_norm_onDisk c norm hn]
  | succ n ih =>
    rw [Nat.repeat, ih]
    exact C01_fixed_point c norm hn _ hB' hBn' F hF

/-- Each user block occurs exactly once, under its own tag, lines in order: the blocks of
    the regenerated file are exactly `(k, B k)` for the (pairwise distinct) tag keys of
    `F`, in file order. -/
theorem C01_each_block_once_in_order (c : Cfg L K) (norm : L → L)
    (B : K → List L) (F : List (Item L)) (hF : FreshDoc c norm F) :
    blocksOf c (onDisk c norm B F) = (blockKeys c F).map (fun k => (k, B k))
      ∧ (blockKeys c F).Nodup := by
  refine ⟨?_, hF.nodup⟩
  rw [blocksOf_onDisk c norm B F hF.items]
  simp [blockKeys, Tags.keys, List.map_map, Function.comp_def]

/-- Instance for the real configuration: `{{{USER_` prefix, `CleanUpLine`, TAB filter. -/
theorem C01_fixed_point_str (B : Str → List Str) (hB : UserOK strCfg B)
    (hBn : ∀ k, (B k).map expandTabs = B k) (F : List (Item Str))
    (hF : FreshDoc strCfg expandTabs F) :
    regenLines strCfg expandTabs (render F) (render (onDisk strCfg expandTabs B F))
      = render (onDisk strCfg expandTabs B F) :=
  C01_fixed_point strCfg expandTabs normOK_expandTabs B hB hBn F hF

/-- A shipped-template line carrying the USER prefix is immediately followed by its closing
    twin: same cleaned key, both TAB-stable, no backslash (so `CleanUpLine` commutes with
    the TAB filter on them). -/
def templateTagsOK : List Str → Bool
  | [] => true
  | [l] => !isUserTag l
  | l :: l' :: rest =>
    if isUserTag l then
      isUserTag l' && cleanUp l' == cleanUp l && cleanUp (expandTabs l) == cleanUp l
        && cleanUp (expandTabs l') == cleanUp l && !l.any (· == 92) && !l'.any (· == 92)
        && templateTagsOK rest
    else templateTagsOK (l' :: rest)

/-- Every shipped template (regenerated from the tree on every run) keeps its USER tags as
    adjacent, equal, TAB-stable pairs. -/
theorem C01_shipped_templates_wf :
    Generated.allTemplateSets.all (fun set => set.all (fun f => templateTagsOK f.2)) = true := by
  decide +kernel

/-! non-vacuity: a concrete file with two tag pairs, tabbed user text, and the hypotheses met -/
section Example
def exF : List (Item Str) :=
  [.text (ofString "#include <x>\n"),
   .block (ofString "\t/// {{{USER_A}}}\n") (ofString "\t/// {{{USER_A}}}\n") [],
   .text (ofString "int f();\n"),
   .block (ofString "// {{{USER_B_on_entry}}}\n") (ofString "// {{{USER_B_on_entry}}}\n") []]
def exB : Str → List Str := fun k =>
  if k = ofString "{{{USER_A" then [ofString "\tint x; // <<<IF y>>>\n", ofString "\n"] else []

example : FreshDoc strCfg expandTabs exF := freshDocB_sound exF (by decide +kernel)
example : UserOK strCfg exB := by
  intro k x hx
  unfold exB at hx
  split at hx
  · simp only [List.mem_cons, List.not_mem_nil, or_false] at hx
    rcases hx with rfl | rfl <;> decide +kernel
  · cases hx
example : regenLines strCfg expandTabs (render exF) (render (onDisk strCfg expandTabs exB exF))
    = (render (onDisk strCfg expandTabs exB exF)).map expandTabs := by decide +kernel
end Example

end KojenVerif.C01
