import KojenVerif.Model.EmitCs
import KojenVerif.Props.C08
/-
  C10 — the generated C# state machine implements exactly the transition table.
-/
namespace KojenVerif.C10
open Table EmitPy EmitCs

/-- **Handlers.** The handler of (state, event): guards in table order, first row whose guard
    is absent or true performs exit, action, enter, state change (the action alone without
    target) and returns; pairs the table does not list — or whose guards all fail — are
    ignored (no callback, no state change). -/
theorem C10_handler_refines_table (t : List Row) (cur e : Str) (val : Str → Bool)
    (hcur : cur ∈ states t ∨ cur ∈ sourceStates t) :
    dispatch (emit t) cur e val = stepRefSilent t cur e val :=
  C08.refines_with [] t cur e val hcur

theorem C10_unlisted_pair_ignored (t : List Row) (cur e : Str) (val : Str → Bool)
    (hcur : cur ∈ states t ∨ cur ∈ sourceStates t) (h : rowsFor t cur e = []) :
    dispatch (emit t) cur e val = (cur, []) := by
  rw [C10_handler_refines_table t cur e val hcur]
  simp [stepRefSilent, h, tryRows]

/-! ### declarations -/

theorem mem_guards (t : List Row) (g : Str) : g ∈ guards t ↔ ∃ r ∈ t, r.guard = some g := by
  unfold guards
  suffices H : ∀ init, g ∈ t.foldl guardsStep init ↔
      g ∈ init ∨ ∃ r ∈ t, r.guard = some g by simpa using H []
  induction t with
  | nil => intro init; simp
  | cons x t ih =>
    intro init
    simp only [List.foldl_cons]
    rw [ih]
    unfold guardsStep
    cases hx : x.guard with
    | none =>
      constructor
      · rintro (h | ⟨r, hr, h⟩)
        · exact Or.inl h
        · exact Or.inr ⟨r, by simp [hr], h⟩
      · rintro (h | ⟨r, hr, h⟩)
        · exact Or.inl h
        · simp only [List.mem_cons] at hr
          rcases hr with rfl | hr
          · rw [hx] at h; cases h
          · exact Or.inr ⟨r, hr, h⟩
    | some g' =>
      simp only [mem_addUniq]
      constructor
      · rintro ((h | h) | ⟨r, hr, h⟩)
        · exact Or.inl h
        · exact Or.inr ⟨x, by simp, by rw [hx, h]⟩
        · exact Or.inr ⟨r, by simp [hr], h⟩
      · rintro (h | ⟨r, hr, h⟩)
        · exact Or.inl (Or.inl h)
        · simp only [List.mem_cons] at hr
          rcases hr with rfl | hr
          · rw [hx] at h; exact Or.inl (Or.inr (by simpa using h.symm))
          · exact Or.inr ⟨r, hr, h⟩

theorem mem_actionSigs (t : List Row) (a e : Str) :
    (a, e) ∈ actionSigs t ↔ ∃ r ∈ t, r.action = some a ∧ r.ev = e := by
  unfold actionSigs
  suffices H : ∀ init : List (Str × Str), (a, e) ∈ t.foldl sigsStep init ↔
      (a, e) ∈ init ∨ ∃ r ∈ t, r.action = some a ∧ r.ev = e by simpa using H []
  induction t with
  | nil => intro init; simp
  | cons x t ih =>
    intro init
    simp only [List.foldl_cons]
    rw [ih]
    unfold sigsStep
    cases hx : x.action with
    | none =>
      constructor
      · rintro (h | ⟨r, hr, h⟩)
        · exact Or.inl h
        · exact Or.inr ⟨r, by simp [hr], h⟩
      · rintro (h | ⟨r, hr, h⟩)
        · exact Or.inl h
        · simp only [List.mem_cons] at hr
          rcases hr with rfl | hr
          · rw [hx] at h; cases h.1
          · exact Or.inr ⟨r, hr, h⟩
    | some a' =>
      simp only
      constructor
      · rintro (h | ⟨r, hr, h⟩)
        · split at h
          · exact Or.inl h
          · simp only [List.mem_append, List.mem_singleton, Prod.mk.injEq] at h
            rcases h with h | ⟨h1, h2⟩
            · exact Or.inl h
            · exact Or.inr ⟨x, by simp, by rw [hx, h1], h2.symm⟩
        · exact Or.inr ⟨r, by simp [hr], h⟩
      · rintro (h | ⟨r, hr, h⟩)
        · left; split
          · exact h
          · simp [h]
        · simp only [List.mem_cons] at hr
          rcases hr with rfl | hr
          · left
            rw [hx] at h
            have ha : a' = a := by simpa using h.1
            subst ha
            rw [← h.2]
            split
            · rename_i hc; simpa using hc
            · simp
          · exact Or.inr ⟨r, hr, h⟩

/-- **Everything a handler calls is declared** in the context interface. -/
theorem C10_context_declares_calls (t : List Row) (r : Row) (hr : r ∈ t) (cb : Cb)
    (hcb : cb ∈ effects r ∨ (∃ g, r.guard = some g ∧ cb = Cb.guard g)) :
    ∃ d, declOf cb = some d ∧ d ∈ context t := by
  unfold context
  rcases hcb with hcb | ⟨g, hg, rfl⟩
  · unfold effects at hcb
    simp only [List.mem_append] at hcb
    rcases hcb with (hcb | hcb) | hcb
    · cases hn : r.next with
      | none => simp [hn] at hcb
      | some n =>
        simp only [hn, List.mem_singleton] at hcb
        subst hcb
        refine ⟨Decl.exit r.src, rfl, ?_⟩
        have hs : r.src ∈ states t := by
          unfold states; rw [C08.mem_states_foldl]; exact Or.inr ⟨r, hr, Or.inl rfl⟩
        simp only [List.mem_append, List.mem_flatten, List.mem_map]
        exact Or.inr ⟨[Decl.entry r.src, Decl.exit r.src], ⟨r.src, hs, rfl⟩, by simp⟩
    · cases ha : r.action with
      | none => simp [ha] at hcb
      | some a =>
        simp only [ha, List.mem_singleton] at hcb
        subst hcb
        refine ⟨Decl.action a r.ev, rfl, ?_⟩
        have := (mem_actionSigs t a r.ev).2 ⟨r, hr, ha, rfl⟩
        simp only [List.mem_append, List.mem_map]
        exact Or.inl (Or.inr ⟨(a, r.ev), this, rfl⟩)
    · cases hn : r.next with
      | none => simp [hn] at hcb
      | some n =>
        simp only [hn, List.mem_singleton] at hcb
        subst hcb
        refine ⟨Decl.entry n, rfl, ?_⟩
        have hs := C08.mem_states_of_next t r hr n hn
        simp only [List.mem_append, List.mem_flatten, List.mem_map]
        exact Or.inr ⟨[Decl.entry n, Decl.exit n], ⟨n, hs, rfl⟩, by simp⟩
  · refine ⟨Decl.guard g, rfl, ?_⟩
    have := (mem_guards t g).2 ⟨r, hr, hg⟩
    simp only [List.mem_append, List.mem_map]
    exact Or.inl (Or.inl ⟨g, this, rfl⟩)

theorem nodup_guards (t : List Row) : (guards t).Nodup := by
  unfold guards
  suffices H : ∀ init : List Str, init.Nodup → (t.foldl guardsStep init).Nodup from H [] (by simp)
  induction t with
  | nil => intro init h; exact h
  | cons x t ih =>
    intro init h
    simp only [List.foldl_cons]
    apply ih
    unfold guardsStep
    cases x.guard with
    | none => exact h
    | some g => exact nodup_addUniq init g h

theorem nodup_states (t : List Row) : (states t).Nodup := by
  unfold states
  suffices H : ∀ init : List Str, init.Nodup → (t.foldl statesStep init).Nodup from H [] (by simp)
  induction t with
  | nil => intro init h; exact h
  | cons x t ih =>
    intro init h
    simp only [List.foldl_cons]
    apply ih
    unfold statesStep
    cases x.next with
    | none => exact nodup_addUniq init x.src h
    | some n => exact nodup_addUniq _ n (nodup_addUniq init x.src h)

theorem nodup_actionSigs (t : List Row) : (actionSigs t).Nodup := by
  unfold actionSigs
  suffices H : ∀ init : List (Str × Str), init.Nodup → (t.foldl sigsStep init).Nodup from H [] (by simp)
  induction t with
  | nil => intro init h; exact h
  | cons x t ih =>
    intro init h
    simp only [List.foldl_cons]
    apply ih
    unfold sigsStep
    cases x.action with
    | none => exact h
    | some a =>
      simp only
      split
      · exact h
      · rename_i hc
        rw [List.nodup_append]
        refine ⟨h, by simp, ?_⟩
        intro p hp q hq
        simp only [List.mem_singleton] at hq
        subst hq
        intro e; subst e
        exact hc (by simpa using hp)

/-- **Declared exactly once**: guards, (action, event) signatures and the entry/exit hook of
    every state occur once each in the context interface. -/
theorem C10_context_declares_once (t : List Row) :
    (guards t).Nodup ∧ (actionSigs t).Nodup ∧ (states t).Nodup :=
  ⟨nodup_guards t, nodup_actionSigs t, nodup_states t⟩

/-- **Every state that can be entered has its class** — targets that never start a row
    included, and the initial state. -/
theorem C10_every_enterable_state_has_class (t : List Row) (r : Row) (hr : r ∈ t) :
    r.src ∈ classes t ∧ ∀ n, r.next = some n → n ∈ classes t := by
  unfold classes
  constructor
  · rw [mem_perStateKeys]; exact Or.inl ((mem_sourceStates t r.src).2 ⟨r, hr, rfl⟩)
  · intro n hn
    rw [mem_perStateKeys]; exact Or.inr (C08.mem_states_of_next t r hr n hn)

/-! non-vacuity -/
section Example
open Str
example : dispatch (emit C08.exT) (ofString "S1") (ofString "EvA") (fun _ => false)
    = (ofString "S3", [Cb.guard (ofString "G1"), Cb.exit (ofString "S1"), Cb.action (ofString "ActB") (ofString "EvA"), Cb.entry (ofString "S3")]) := by decide
example : dispatch (emit C08.exT) (ofString "S3") (ofString "EvA") (fun _ => true) = (ofString "S3", []) := by decide
example : ofString "S3" ∈ classes C08.exT := by decide
end Example

end KojenVerif.C10
