import KojenVerif.Lemmas.EngineUserPass
import KojenVerif.Lemmas.EngineFor
import KojenVerif.Lemmas.EngineLoadWF
import KojenVerif.Lemmas.EngineSpecLink
import KojenVerif.Props.C16
/-
  C17 — template engine: user tags, IF/ELSEIF/ELSE (and FOR) follow their documented rules.

  `Engine` is the string-level transliteration of `cgen.py` (checked against the real code each
  run); `Spec` is the token-level statement of the rules.  The theorems say that the engine,
  on every template line / block of the grammar, computes what the rule says.

  Grammar (hypotheses of the theorems; all decidable, evaluated on every generated template by
  the driver): literals, tag names and defaults contain no '<' / '>' (`LineOK`), tag names
  contain no '=' (`NamesOK`); a body line carries no control keyword as first word of a tag and
  no `FOR_BEGIN` (`UserPlain`); conditional blocks are not nested.

  Item level and whole files (added later): a FOR block over a literal list or a count is the
  specification's loop (`C17_for_block_list`, `C17_for_block_count`); the user-tag pass over a file
  that contains FOR blocks (`C17_user_pass_with_loops`), `do_for` over a file (`C17_for_pass`), the two
  composed with the second filtering of C16 (`C17_file_pipeline`), and, with the load phase, the
  whole front half of the generator for a list of template files (`C17_generate`): the code model
  handed to the preservation pass is, per file, the template with every global tag replaced, every
  block expanded in place, every conditional resolved, every user tag treated by the rule above,
  every FOR block unrolled - and nothing else touched.  Outside `C17_generate`'s grammar (`GenOK`,
  decidable): FOR parameters that are user tags, multi-line global values, two consecutive blank
  lines after the global replacements (the blank-line filter then leaves empty strings in the line
  list; its effect is `C16_blank_lines`), EXTENDS / EXCLUDE, rich lines.
-/
namespace KojenVerif.C17
open Engine Str

/-- **User-tag rule.** On every line, every tag on its own: the assigned value, else its
    inline default, else the tag exactly as written — whatever else is on the line and
    whatever other tags are assigned. -/
theorem C17_usertag_value_default_verbatim (dict : List (Str × Str)) (l : Spec.SLine) (h : LineOK l) (hn : NamesOK l) :
    replaceUserTags dict (Spec.renderLine l) = Spec.renderLine (Spec.substLine (Spec.userSubst dict) l) :=
  replaceUserTags_renderLine dict l h hn

theorem C17_assigned (dict : List (Str × Str)) (n v : Str) (d : Option Str) (h : Spec.lookupS dict n = some v) :
    Spec.userSubst dict n d = some v := by simp [Spec.userSubst, h]
theorem C17_default (dict : List (Str × Str)) (n d : Str) (h : Spec.lookupS dict n = none) :
    Spec.userSubst dict n (some d) = some d := by simp [Spec.userSubst, h]
theorem C17_verbatim (dict : List (Str × Str)) (n : Str) (h : Spec.lookupS dict n = none) :
    Spec.userSubst dict n none = none := by simp [Spec.userSubst, h]

/-- **IF / ELSEIF / ELSE.** A conditional block, as the user-tag pass of the engine processes
    its rendered lines from any state outside a block: exactly the branches whose tag is
    assigned (value `''`/`None` included: only assignedness counts), in order; the ELSE branch
    exactly when no branch was emitted; emitted lines through the user-tag rule; the block's
    own delimiter lines never; afterwards the pass is outside again. -/
theorem C17_if_elseif_else (dict : List (Str × Str)) (isStr : Str → Bool) (fd : List (Str × Str))
    (ws : Str) (brs : List (Str × List Spec.BItem)) (els : Option (List Spec.BItem))
    (hne : brs ≠ []) (hok : CondOK ws brs els)
    (hfor : ∀ p, brs.head? = some p → contains (T "FOR_BEGIN") (Spec.delim ws (T "IF " ++ p.1)) = false) :
    doUserTags dict isStr fd (Spec.Item.cond ws brs els).render =
      some ((Spec.expandCond dict brs els).map (Spec.userText dict)) := by
  have := doUserTags_items dict isStr fd [Spec.Item.cond ws brs els]
    (by intro it hit; simp at hit; subst hit; exact UItemOK.cond ws brs els hne hok hfor)
  simpa [Spec.renderFile, userItemPre] using this

/-- the ELSE branch is emitted iff no IF / ELSEIF tag is assigned -/
theorem C17_else_iff (dict : List (Str × Str)) (brs : List (Str × List Spec.BItem)) (e : List Spec.BItem)
    (h : ∀ p ∈ brs, Spec.lookupS dict p.1 = none) : Spec.expandCond dict brs (some e) = e := by
  unfold Spec.expandCond
  have : brs.filter (fun p => (Spec.lookupS dict p.1).isSome) = [] := by
    apply List.filter_eq_nil_iff.2
    intro p hp; simp [h p hp]
  simp [this]

/-- **The whole user-tag pass** over a file of plain lines and conditional blocks. -/
theorem C17_user_pass (dict : List (Str × Str)) (isStr : Str → Bool) (fd : List (Str × Str))
    (items : List Spec.Item) (h : ∀ it ∈ items, UItemOK it) :
    doUserTags dict isStr fd (Spec.renderFile items) =
      some (((items.map (userItemPre dict)).flatten).map (Spec.userText dict)) :=
  doUserTags_items dict isStr fd items h

/-- **Non-interference.** Two assignments that assign the same tags and differ in the value of
    `t` only: the pass emits the same number of lines, and every line whose template line does
    not mention `t` is equal. -/
theorem C17_noninterference (d d' : List (Str × Str)) (isStr : Str → Bool) (fd : List (Str × Str)) (t : Str)
    (hsame : ∀ n, n ≠ t → Spec.lookupS d n = Spec.lookupS d' n)
    (hboth : (Spec.lookupS d t).isSome = (Spec.lookupS d' t).isSome)
    (items : List Spec.Item) (h : ∀ it ∈ items, UItemOK it) :
    ∃ pre : List Spec.BItem,
      doUserTags d isStr fd (Spec.renderFile items) = some (pre.map (Spec.userText d)) ∧
      doUserTags d' isStr fd (Spec.renderFile items) = some (pre.map (Spec.userText d')) ∧
      ∀ i ∈ pre, mentions t i = false → Spec.userText d i = Spec.userText d' i := by
  have hkeys : ∀ n, (Spec.lookupS d n).isSome = (Spec.lookupS d' n).isSome := by
    intro n
    by_cases hn : n = t
    · subst hn; exact hboth
    · rw [hsame n hn]
  refine ⟨(items.map (userItemPre d)).flatten, doUserTags_items d isStr fd items h, ?_, ?_⟩
  · rw [doUserTags_items d' isStr fd items h]
    congr 2
    apply congrArg
    apply List.map_congr_left
    intro it _
    exact (userItemPre_congr d d' it hkeys).symm
  · intro i _ hm
    apply userText_congr
    intro n hn
    by_cases e : n = t
    · subst e; rw [hm] at hn; cases hn
    · exact hsame n e

/-! ### FOR -/

/-- **FOR.** What `innerexpand_for_loop`'s double loop emits for a parameter `csv` and the body
    lines `snippet` (any text; `NoBoth`: no line carries FIRST and LAST together): the first line
    with FIRST once, FIRST replaced by the first item; then for every item in list order every
    line without FIRST / LAST, with EACH, each, NUM, ALPH replaced by the item, its camel form,
    its zero-based index and its letter; then the first line with LAST once. -/
theorem C17_for_once_per_item (csv : Str) (snippet : List Line) (hnb : NoBoth snippet)
    (hnz : ∀ l ∈ snippet, ∀ v, pyReplace (T "<<<FIRST>>>") v l ≠ [] ∧ pyReplace (T "<<<LAST>>>") v l ≠ []) :
    forProcess csv snippet =
      ((snippet.find? isFirstL).map (pyReplace (T "<<<FIRST>>>") (strip ((forItems csv).head?.getD [])))).toList ++
      ((enumFrom 0 (forItems csv)).map (fun p => (snippet.filter isRestL).map (applySubst (eachChain p.1 p.2)))).flatten ++
      ((snippet.find? isLastL).map (pyReplace (T "<<<LAST>>>") (strip ((forItems csv).getLast?.getD [])))).toList :=
  forProcess_eq csv snippet hnb hnz

/-- the parameter of `<<<FOR_BEGIN=raw>>>` reaches the loop as written -/
theorem C17_for_parameter (ws raw : Str) (hw : Clean ws) (hr : Clean raw) :
    blockParam (Spec.delim ws (T "FOR_BEGIN=" ++ raw)) = raw := blockParam_for ws raw hw hr

/-- a count is the list `_0_, _1_, …`; zero repeats nothing; a single word is rejected -/
theorem C17_for_count (snippet : List Line) (raw : Str) (h1 : (find COMMA raw).isSome = false) (h2 : isNumeric (strip raw) = true)
    (hne : raw ≠ []) :
    forExpand snippet raw =
      if toNat (strip raw) > 0 then
        some (forProcess (((List.range (toNat (strip raw))).map (fun i => [US] ++ natToStr i ++ [US] ++ COMMA)).flatten) snippet)
      else some [] := by
  unfold forExpand
  have : raw.isEmpty = false := by cases raw <;> simp_all
  simp [this, h1, h2]

theorem C17_for_rejects (snippet : List Line) (raw : Str) (h1 : (find COMMA raw).isSome = false) (h2 : isNumeric (strip raw) = false) :
    forExpand snippet raw = none := by
  unfold forExpand
  by_cases he : raw.isEmpty = true <;> simp [he, h1, h2]

/-- a body line for one item, token level: EACH / each / NUM / ALPH are substituted, every other
    tag stays -/
theorem C17_for_line (idx : Nat) (item : Str) (hv : Clean (strip item)) (hc : Clean (camelSmall (strip item)))
    (hn : Clean (natToStr idx)) (l : Spec.SLine) (h : LineOK l) :
    applySubst (eachChain idx item) (Spec.renderLine l) =
      Spec.renderLine (Spec.substLine (Spec.byDict (eachKeys idx item)) l) :=
  eachLine_render idx item hv hc hn l h

/-- **A FOR block over a literal list** is the specification's loop: the first FIRST line once with the first
    item, then for every item in order every other line (EACH / each / NUM / ALPH), then the first LAST line once
    with the last item.  The values need no hypothesis beyond the parameter being free of angle brackets. -/
theorem C17_for_block_list (fd ut : List (Str × Str)) (ws raw : Str) (body : List Spec.BItem) (h : LoopOK ws raw body) :
    forExpand (body.map Spec.BItem.render) raw =
      (Spec.expandLoop fd ut (.list raw) body).map (fun bs => bs.map Spec.BItem.render) := by
  have := forExpand_spec fd ut ws raw body h
  simpa using this

/-- **A FOR block over a count** `n` is the loop over `_0_ … _n-1_`; zero repeats nothing. -/
theorem C17_for_block_count (fd ut : List (Str × Str)) (ws raw : Str) (body : List Spec.BItem) (h : CountOK ws raw body) :
    forExpand (body.map Spec.BItem.render) raw =
      (Spec.expandLoop fd ut (.count raw) body).map (fun bs => bs.map Spec.BItem.render) :=
  forExpand_count fd ut ws raw body h

theorem C17_for_values (raw : Str) (h : Clean raw) : ForValuesOK raw := forValues_of_clean raw h

/-- **The user-tag pass over a file with FOR blocks**: lines and conditionals as before; a FOR block with a literal
    parameter keeps its opening and closing line, its body lines go through the user-tag rule. -/
theorem C17_user_pass_with_loops (dict : List (Str × Str)) (isStr : Str → Bool) (fd : List (Str × Str))
    (items : List Spec.Item) (h : ∀ it ∈ items, UItemOK2 dict fd it) :
    doUserTags dict isStr fd (Spec.renderFile items) = some (Spec.renderFile (items.flatMap (userItemOut dict))) :=
  doUserTags_items2 dict isStr fd items h

/-- **`do_for` over a file**: every FOR block replaced in place by the lines of its loop, the rest untouched. -/
theorem C17_for_pass (items : List Spec.Item) (h : ∀ it ∈ items, ForFileItemOK it) :
    doFor (Spec.renderFile items) = some (Spec.renderFile (items.flatMap forOut)) := doFor_items items h

/-- **A loaded template file through second filtering, user-tag pass and FOR expansion.** -/
theorem C17_file_pipeline (env : Env) (ht : EnvTotal env) (m : Spec.Model) (dict : List (Str × Str)) (isStr : Str → Bool)
    (fd : List (Str × Str)) (items : List Spec.Item) (h : FileOK m dict fd items) :
    ((expandSecond env (toSm m) (Spec.renderFile items)).bind (doUserTags dict isStr fd)).bind doFor =
      some (Spec.renderFile (fileOut m dict items)) := file_pipeline env ht m dict isStr fd items h

/-- … after which only lines are left -/
theorem C17_only_lines_left (m : Spec.Model) (dict : List (Str × Str)) (items : List Spec.Item) :
    ∀ it ∈ fileOut m dict items, match it with | .b _ => True | .loop _ (.userTag _ _) _ => True | _ => False :=
  fileOut_lines m dict items

/-- **The front half of the generator.**  For every model, every dictionary of global tags, every file-name
    replacement, every assignment of user tags and every list of template files inside the grammar (`GenOK`,
    decidable: `genOKB_sound`), `CStateMachineGenerator`'s expansion up to the code model handed to the
    preservation pass yields, per template file, the renamed file with: every global tag replaced by its
    value; `STATE_0` by the initial state; every per-element block and the nested transition block replaced in
    place by its expansion (C16); every conditional resolved and every user tag given its value / default /
    left verbatim; every FOR block over a literal list or count unrolled; everything else as written. -/
theorem C17_generate (env : Env) (ht : EnvTotal env) (m : Spec.Model) (chain fnDict userTags : List (Str × Str))
    (isStr : Str → Bool) (files : List TFile) (h : GenOK m chain userTags files) :
    generate env { dict := toPat chain, fnDict := fnDict, sm := toSm m, userTags := userTags, userTagIsStr := isStr }
        (files.map (fun f => (f.name, Spec.renderFile f.items))) =
      some (files.map (fun f => (fileName fnDict f.name, Spec.renderFile (fileOut m userTags (loaded chain f))))) :=
  generate_files env ht m chain fnDict userTags isStr files h

/-- **The front half of the generator computes the reference expansion.** Inside `GenOK` and the link grammar
    (no user tag named like a loop tag, no FIRST / LAST tag with an inline default inside a loop, nothing for
    the reference's blank-line filter to drop - all decidable), what `Engine.generate` hands to the preservation
    pass for each template file is `Spec.expandFile` of that file: the specification the rules of C16 and C17
    are stated on, and the one the check compares with the real generator on every input. -/
theorem C17_generate_is_spec (env : Env) (ht : EnvTotal env) (m : Spec.Model) (chain fnDict userTags : List (Str × Str))
    (isStr : Str → Bool) (files : List TFile) (h : GenOK m chain userTags files) (hc : ChainOK chain)
    (hu : UtFree userTags) (hl : ∀ f ∈ files, LinkFileOK m chain f.items) :
    ∃ out : TFile → List Line,
      generate env { dict := toPat chain, fnDict := fnDict, sm := toSm m, userTags := userTags, userTagIsStr := isStr }
        (files.map (fun f => (f.name, Spec.renderFile f.items))) =
        some (files.map (fun f => (fileName fnDict f.name, out f))) ∧
      ∀ fd, ∀ f ∈ files, Spec.expandFile (toPat chain) m fd userTags f.items = some (out f) :=
  generate_is_expandFile env ht m chain fnDict userTags isStr files h hc hu hl

/-! non-vacuity: a block with an assigned ELSEIF, an unassigned IF, defaults and verbatim tags -/
section Example
def exDict : List (Str × Str) := [(T "B", T "7"), (T "V", [])]
def exLine : Spec.SLine := [.lit (T "x "), .tag (T "A") none, .lit (T " "), .tag (T "B") none, .tag (T "C") (some (T "dflt")), .tag (T "V") (some (T "9"))]
example : LineOK exLine ∧ NamesOK exLine := by decide
example : replaceUserTags exDict (Spec.renderLine exLine) = T "x <<<A>>> 7dflt\n" := by decide
def exCond : Spec.Item :=
  .cond (T "  ") [(T "A", [.line [.lit (T "a")]]), (T "B", [.line [.lit (T "b "), .tag (T "B") none]]), (T "V", [.blank (T " ")])]
    (some [.line [.lit (T "else")]])
example : doUserTags exDict (fun _ => true) [] exCond.render = some [T "b 7\n", T " \n"] := by decide
def exFor : List Line := [T "first <<<FIRST>>>\n", T " v_<<<EACH>>> = <<<NUM>>><<<ALPH>>>;\n", T "last <<<LAST>>>\n"]
example : NoBoth exFor := by
  intro l hl
  simp only [exFor, List.mem_cons, List.mem_nil_iff, or_false] at hl
  rcases hl with e | e | e <;> subst e <;> decide
example : forExpand exFor (T " fee, fie ,foe,") =
    some [T "first fee\n", T " v_fee = 0a;\n", T " v_fie = 1b;\n", T " v_foe = 2c;\n", T "last foe\n"] := by decide
example : forExpand exFor (T "2") = some [T "first _0_\n", T " v__0_ = 0a;\n", T " v__1_ = 1b;\n", T "last _1_\n"] := by decide
example : forExpand exFor (T "0") = some [] ∧ forExpand exFor (T "word") = none := by decide

/-! non-vacuity of `C17_generate`: two template files with global tags, a state block, a conditional, two FOR
    blocks, user tags with and without default, and the nested transition block of C16's example -/
def exChain : List (Str × Str) := [(T "CLASSNAME", T "Door"), (T "NAMESPACE", T "App")]
def exUser : List (Str × Str) := [(T "Verbose", T "1")]
def exFileA : TFile :=
  { name := T "TEMPLATEMachine.h",
    items :=
      [ .b (.line [.lit (T "class "), .tag (T "CLASSNAME") none, .lit (T " { // starts in "), .tag (T "STATE_0") none]),
        .block .ps (T "  ") [.line [.lit (T "  void "), .tag (T "STATENAME") none, .lit (T "_entry();")]],
        .cond (T "") [(T "Verbose", [.line [.lit (T "  bool verbose = "), .tag (T "Verbose") none, .lit (T ";")]])]
              (some [.line [.lit (T "  // quiet")]]),
        .loop (T "  ") (.list (T "a, b")) [.line [.lit (T "  int "), .tag (T "EACH") none, .lit (T "_"), .tag (T "NUM") none, .lit (T ";")]],
        .loop (T "") (.count (T "2")) [.line [.lit (T "  slot("), .tag (T "EACH") none, .lit (T ");")]],
        .b (.line [.lit (T "}; // "), .tag (T "Level") (some (T "3")), .lit (T " "), .tag (T "Unknown") none]) ] }
def exFileB : TFile :=
  { name := T "TEMPLATENotes.txt",
    items := [ .b (.line [.lit (T "notes for "), .tag (T "NAMESPACE") none]), .pst (T "") C16.exPst ] }
set_option maxRecDepth 1000000 in
example : GenOK C16.exModel exChain exUser [exFileA, exFileB] := genOKB_sound _ _ _ _ (by decide)
set_option maxRecDepth 1000000 in
example : generate C16.exEnv { dict := toPat exChain, fnDict := fnDictOf (T "Door"), sm := toSm C16.exModel, userTags := exUser,
                               userTagIsStr := fun _ => true }
      ([exFileA, exFileB].map (fun f => (f.name, Spec.renderFile f.items))) =
    some [ (T "DoorMachine.h",
             [T "class Door { // starts in Idle\n", T "  void Idle_entry();\n", T "  void Run_entry();\n", T "  bool verbose = 1;\n",
              T "  int a_0;\n", T "  int b_1;\n", T "  slot(_0_);\n", T "  slot(_1_);\n", T "}; // 3 <<<Unknown>>>\n"]),
           (T "DoorNotes.txt",
             [T "notes for App\n", T "state Idle\n", T " on Go in idle\n", T "  if (IsReady()) {\n", T "    Start\n",
              T "    next = Run;\n", T "  \n", T "  done\n", T "    /* nothing to do */\n", T "  \n", T "  done\n",
              T " on Off in idle\n", T "    /* nothing to do */\n", T "    next = Run;\n", T "  \n", T "  done\n", T "state Run\n"]) ] := by
  decide
set_option maxRecDepth 1000000 in
example : ChainOK exChain ∧ UtFree exUser ∧ ∀ f ∈ [exFileA, exFileB], LinkFileOK C16.exModel exChain f.items :=
  ⟨⟨by decide, by decide⟩, by decide, by decide⟩
end Example

end KojenVerif.C17
