import KojenVerif.Lemmas.EngineUserPass
import KojenVerif.Lemmas.EngineFor
/-
  C17 — template engine: user tags, IF/ELSEIF/ELSE (and FOR) follow their documented rules.

  `Engine` is the string-level transliteration of `cgen.py` (checked against the real code each
  run); `Spec` is the token-level statement of the rules.  The theorems say that the engine,
  on every template line / block of the grammar, computes what the rule says.

  Grammar (hypotheses of the theorems; all decidable, evaluated on every generated template by
  the driver): literals, tag names and defaults contain no '<' / '>' (`LineOK`), tag names
  contain no '=' (`NamesOK`); a body line carries no control keyword as first word of a tag and
  no `FOR_BEGIN` (`UserPlain`); conditional blocks are not nested.
-/
namespace KojenVerif.C17
open Engine Str

/-- **User-tag rule.** On every line, every tag on its own: the assigned value, else its
    inline default, else the tag exactly as written — whatever else is on the line and
    whatever other tags are assigned. -/
theorem C17_usertag_value_default_verbatim (dict : List (Str × Str)) (l : Spec.SLine) (h : LineOK l) (hn : NamesOK l) :
    replaceUserTags dict (Spec.renderLine l) = Spec.renderLine (Spec.substLine (Spec.userSubst dict) l) :=
  replaceUserTags_renderLine dict l h hn

theorem C17_assigned (dict : List (Str × Str)) (n v : Str) (d : Option Str) (h : Spec.lookupS dict n = some v) :
    Spec.userSubst dict n d = some v := by simp [Spec.userSubst, h]
theorem C17_default (dict : List (Str × Str)) (n d : Str) (h : Spec.lookupS dict n = none) :
    Spec.userSubst dict n (some d) = some d := by simp [Spec.userSubst, h]
theorem C17_verbatim (dict : List (Str × Str)) (n : Str) (h : Spec.lookupS dict n = none) :
    Spec.userSubst dict n none = none := by simp [Spec.userSubst, h]

/-- **IF / ELSEIF / ELSE.** A conditional block, as the user-tag pass of the engine processes
    its rendered lines from any state outside a block: exactly the branches whose tag is
    assigned (value `''`/`None` included: only assignedness counts), in order; the ELSE branch
    exactly when no branch was emitted; emitted lines through the user-tag rule; the block's
    own delimiter lines never; afterwards the pass is outside again. -/
theorem C17_if_elseif_else (dict : List (Str × Str)) (isStr : Str → Bool) (fd : List (Str × Str))
    (ws : Str) (brs : List (Str × List Spec.BItem)) (els : Option (List Spec.BItem))
    (hne : brs ≠ []) (hok : CondOK ws brs els)
    (hfor : ∀ p, brs.head? = some p → contains (T "FOR_BEGIN") (Spec.delim ws (T "IF " ++ p.1)) = false) :
    doUserTags dict isStr fd (Spec.Item.cond ws brs els).render =
      some ((Spec.expandCond dict brs els).map (Spec.userText dict)) := by
  have := doUserTags_items dict isStr fd [Spec.Item.cond ws brs els]
    (by intro it hit; simp at hit; subst hit; exact UItemOK.cond ws brs els hne hok hfor)
  simpa [Spec.renderFile, userItemPre] using this

/-- the ELSE branch is emitted iff no IF / ELSEIF tag is assigned -/
theorem C17_else_iff (dict : List (Str × Str)) (brs : List (Str × List Spec.BItem)) (e : List Spec.BItem)
    (h : ∀ p ∈ brs, Spec.lookupS dict p.1 = none) : Spec.expandCond dict brs (some e) = e := by
  unfold Spec.expandCond
  have : brs.filter (fun p => (Spec.lookupS dict p.1).isSome) = [] := by
    apply List.filter_eq_nil_iff.2
    intro p hp; simp [h p hp]
  simp [this]

/-- **The whole user-tag pass** over a file of plain lines and conditional blocks. -/
theorem C17_user_pass (dict : List (Str × Str)) (isStr : Str → Bool) (fd : List (Str × Str))
    (items : List Spec.Item) (h : ∀ it ∈ items, UItemOK it) :
    doUserTags dict isStr fd (Spec.renderFile items) =
      some (((items.map (userItemPre dict)).flatten).map (Spec.userText dict)) :=
  doUserTags_items dict isStr fd items h

/-- **Non-interference.** Two assignments that assign the same tags and differ in the value of
    `t` only: the pass emits the same number of lines, and every line whose template line does
    not mention `t` is equal. -/
theorem C17_noninterference (d d' : List (Str × Str)) (isStr : Str → Bool) (fd : List (Str × Str)) (t : Str)
    (hsame : ∀ n, n ≠ t → Spec.lookupS d n = Spec.lookupS d' n)
    (hboth : (Spec.lookupS d t).isSome = (Spec.lookupS d' t).isSome)
    (items : List Spec.Item) (h : ∀ it ∈ items, UItemOK it) :
    ∃ pre : List Spec.BItem,
      doUserTags d isStr fd (Spec.renderFile items) = some (pre.map (Spec.userText d)) ∧
      doUserTags d' isStr fd (Spec.renderFile items) = some (pre.map (Spec.userText d')) ∧
      ∀ i ∈ pre, mentions t i = false → Spec.userText d i = Spec.userText d' i := by
  have hkeys : ∀ n, (Spec.lookupS d n).isSome = (Spec.lookupS d' n).isSome := by
    intro n
    by_cases hn : n = t
    · subst hn; exact hboth
    · rw [hsame n hn]
  refine ⟨(items.map (userItemPre d)).flatten, doUserTags_items d isStr fd items h, ?_, ?_⟩
  · rw [doUserTags_items d' isStr fd items h]
    congr 2
    apply congrArg
    apply List.map_congr_left
    intro it _
    exact (userItemPre_congr d d' it hkeys).symm
  · intro i _ hm
    apply userText_congr
    intro n hn
    by_cases e : n = t
    · subst e; rw [hm] at hn; cases hn
    · exact hsame n e

/-! ### FOR -/

/-- **FOR.** What `innerexpand_for_loop`'s double loop emits for a parameter `csv` and the body
    lines `snippet` (any text; `NoBoth`: no line carries FIRST and LAST together): the first line
    with FIRST once, FIRST replaced by the first item; then for every item in list order every
    line without FIRST / LAST, with EACH, each, NUM, ALPH replaced by the item, its camel form,
    its zero-based index and its letter; then the first line with LAST once. -/
theorem C17_for_once_per_item (csv : Str) (snippet : List Line) (hnb : NoBoth snippet)
    (hnz : ∀ l ∈ snippet, ∀ v, pyReplace (T "<<<FIRST>>>") v l ≠ [] ∧ pyReplace (T "<<<LAST>>>") v l ≠ []) :
    forProcess csv snippet =
      ((snippet.find? isFirstL).map (pyReplace (T "<<<FIRST>>>") (strip ((forItems csv).head?.getD [])))).toList ++
      ((enumFrom 0 (forItems csv)).map (fun p => (snippet.filter isRestL).map (applySubst (eachChain p.1 p.2)))).flatten ++
      ((snippet.find? isLastL).map (pyReplace (T "<<<LAST>>>") (strip ((forItems csv).getLast?.getD [])))).toList :=
  forProcess_eq csv snippet hnb hnz

/-- the parameter of `<<<FOR_BEGIN=raw>>>` reaches the loop as written -/
theorem C17_for_parameter (ws raw : Str) (hw : Clean ws) (hr : Clean raw) :
    blockParam (Spec.delim ws (T "FOR_BEGIN=" ++ raw)) = raw := blockParam_for ws raw hw hr

/-- a count is the list `_0_, _1_, …`; zero repeats nothing; a single word is rejected -/
theorem C17_for_count (snippet : List Line) (raw : Str) (h1 : (find COMMA raw).isSome = false) (h2 : isNumeric (strip raw) = true)
    (hne : raw ≠ []) :
    forExpand snippet raw =
      if toNat (strip raw) > 0 then
        some (forProcess (((List.range (toNat (strip raw))).map (fun i => [US] ++ natToStr i ++ [US] ++ COMMA)).flatten) snippet)
      else some [] := by
  unfold forExpand
  have : raw.isEmpty = false := by cases raw <;> simp_all
  simp [this, h1, h2]

theorem C17_for_rejects (snippet : List Line) (raw : Str) (h1 : (find COMMA raw).isSome = false) (h2 : isNumeric (strip raw) = false) :
    forExpand snippet raw = none := by
  unfold forExpand
  by_cases he : raw.isEmpty = true <;> simp [he, h1, h2]

/-- a body line for one item, token level: EACH / each / NUM / ALPH are substituted, every other
    tag stays -/
theorem C17_for_line (idx : Nat) (item : Str) (hv : Clean (strip item)) (hc : Clean (camelSmall (strip item)))
    (hn : Clean (natToStr idx)) (l : Spec.SLine) (h : LineOK l) :
    applySubst (eachChain idx item) (Spec.renderLine l) =
      Spec.renderLine (Spec.substLine (Spec.byDict (eachKeys idx item)) l) :=
  eachLine_render idx item hv hc hn l h

/-! non-vacuity: a block with an assigned ELSEIF, an unassigned IF, defaults and verbatim tags -/
section Example
def exDict : List (Str × Str) := [(T "B", T "7"), (T "V", [])]
def exLine : Spec.SLine := [.lit (T "x "), .tag (T "A") none, .lit (T " "), .tag (T "B") none, .tag (T "C") (some (T "dflt")), .tag (T "V") (some (T "9"))]
example : LineOK exLine ∧ NamesOK exLine := by decide
example : replaceUserTags exDict (Spec.renderLine exLine) = T "x <<<A>>> 7dflt\n" := by decide
def exCond : Spec.Item :=
  .cond (T "  ") [(T "A", [.line [.lit (T "a")]]), (T "B", [.line [.lit (T "b "), .tag (T "B") none]]), (T "V", [.blank (T " ")])]
    (some [.line [.lit (T "else")]])
example : doUserTags exDict (fun _ => true) [] exCond.render = some [T "b 7\n", T " \n"] := by decide
def exFor : List Line := [T "first <<<FIRST>>>\n", T " v_<<<EACH>>> = <<<NUM>>><<<ALPH>>>;\n", T "last <<<LAST>>>\n"]
example : NoBoth exFor := by
  intro l hl
  simp only [exFor, List.mem_cons, List.mem_nil_iff, or_false] at hl
  rcases hl with e | e | e <;> subst e <;> decide
example : forExpand exFor (T " fee, fie ,foe,") =
    some [T "first fee\n", T " v_fee = 0a;\n", T " v_fie = 1b;\n", T " v_foe = 2c;\n", T "last foe\n"] := by decide
example : forExpand exFor (T "2") = some [T "first _0_\n", T " v__0_ = 0a;\n", T " v__1_ = 1b;\n", T "last _1_\n"] := by decide
example : forExpand exFor (T "0") = some [] ∧ forExpand exFor (T "word") = none := by decide
end Example

end KojenVerif.C17
