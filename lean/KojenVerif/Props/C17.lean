import KojenVerif.Lemmas.EngineUserPass
/-
  C17 — template engine: user tags, IF/ELSEIF/ELSE (and FOR) follow their documented rules.

  `Engine` is the string-level transliteration of `cgen.py` (checked against the real code each
  run); `Spec` is the token-level statement of the rules.  The theorems say that the engine,
  on every template line / block of the grammar, computes what the rule says.

  Grammar (hypotheses of the theorems; all decidable, evaluated on every generated template by
  the driver): literals, tag names and defaults contain no '<' / '>' (`LineOK`), tag names
  contain no '=' (`NamesOK`); a body line carries no control keyword as first word of a tag and
  no `FOR_BEGIN` (`UserPlain`); conditional blocks are not nested.
-/
namespace KojenVerif.C17
open Engine Str

/-- **User-tag rule.** On every line, every tag on its own: the assigned value, else its
    inline default, else the tag exactly as written — whatever else is on the line and
    whatever other tags are assigned. -/
theorem C17_usertag_value_default_verbatim (dict : List (Str × Str)) (l : Spec.SLine) (h : LineOK l) (hn : NamesOK l) :
    replaceUserTags dict (Spec.renderLine l) = Spec.renderLine (Spec.substLine (Spec.userSubst dict) l) :=
  replaceUserTags_renderLine dict l h hn

theorem C17_assigned (dict : List (Str × Str)) (n v : Str) (d : Option Str) (h : Spec.lookupS dict n = some v) :
    Spec.userSubst dict n d = some v := by simp [Spec.userSubst, h]
theorem C17_default (dict : List (Str × Str)) (n d : Str) (h : Spec.lookupS dict n = none) :
    Spec.userSubst dict n (some d) = some d := by simp [Spec.userSubst, h]
theorem C17_verbatim (dict : List (Str × Str)) (n : Str) (h : Spec.lookupS dict n = none) :
    Spec.userSubst dict n none = none := by simp [Spec.userSubst, h]

/-- **IF / ELSEIF / ELSE.** A conditional block, as the user-tag pass of the engine processes
    its rendered lines from any state outside a block: exactly the branches whose tag is
    assigned (value `''`/`None` included: only assignedness counts), in order; the ELSE branch
    exactly when no branch was emitted; emitted lines through the user-tag rule; the block's
    own delimiter lines never; afterwards the pass is outside again. -/
theorem C17_if_elseif_else (dict : List (Str × Str)) (isStr : Str → Bool) (fd : List (Str × Str))
    (ws : Str) (brs : List (Str × List Spec.BItem)) (els : Option (List Spec.BItem))
    (hne : brs ≠ []) (hok : CondOK ws brs els)
    (hfor : ∀ p, brs.head? = some p → contains (T "FOR_BEGIN") (Spec.delim ws (T "IF " ++ p.1)) = false) :
    doUserTags dict isStr fd (Spec.Item.cond ws brs els).render =
      some ((Spec.expandCond dict brs els).map (Spec.userText dict)) := by
  have := doUserTags_items dict isStr fd [Spec.Item.cond ws brs els]
    (by intro it hit; simp at hit; subst hit; exact UItemOK.cond ws brs els hne hok hfor)
  simpa [Spec.renderFile, userItemPre] using this

/-- the ELSE branch is emitted iff no IF / ELSEIF tag is assigned -/
theorem C17_else_iff (dict : List (Str × Str)) (brs : List (Str × List Spec.BItem)) (e : List Spec.BItem)
    (h : ∀ p ∈ brs, Spec.lookupS dict p.1 = none) : Spec.expandCond dict brs (some e) = e := by
  unfold Spec.expandCond
  have : brs.filter (fun p => (Spec.lookupS dict p.1).isSome) = [] := by
    apply List.filter_eq_nil_iff.2
    intro p hp; simp [h p hp]
  simp [this]

/-- **The whole user-tag pass** over a file of plain lines and conditional blocks. -/
theorem C17_user_pass (dict : List (Str × Str)) (isStr : Str → Bool) (fd : List (Str × Str))
    (items : List Spec.Item) (h : ∀ it ∈ items, UItemOK it) :
    doUserTags dict isStr fd (Spec.renderFile items) =
      some (((items.map (userItemPre dict)).flatten).map (Spec.userText dict)) :=
  doUserTags_items dict isStr fd items h

/-- **Non-interference.** Two assignments that assign the same tags and differ in the value of
    `t` only: the pass emits the same number of lines, and every line whose template line does
    not mention `t` is equal. -/
theorem C17_noninterference (d d' : List (Str × Str)) (isStr : Str → Bool) (fd : List (Str × Str)) (t : Str)
    (hsame : ∀ n, n ≠ t → Spec.lookupS d n = Spec.lookupS d' n)
    (hboth : (Spec.lookupS d t).isSome = (Spec.lookupS d' t).isSome)
    (items : List Spec.Item) (h : ∀ it ∈ items, UItemOK it) :
    ∃ pre : List Spec.BItem,
      doUserTags d isStr fd (Spec.renderFile items) = some (pre.map (Spec.userText d)) ∧
      doUserTags d' isStr fd (Spec.renderFile items) = some (pre.map (Spec.userText d')) ∧
      ∀ i ∈ pre, mentions t i = false → Spec.userText d i = Spec.userText d' i := by
  have hkeys : ∀ n, (Spec.lookupS d n).isSome = (Spec.lookupS d' n).isSome := by
    intro n
    by_cases hn : n = t
    · subst hn; exact hboth
    · rw [hsame n hn]
  refine ⟨(items.map (userItemPre d)).flatten, doUserTags_items d isStr fd items h, ?_, ?_⟩
  · rw [doUserTags_items d' isStr fd items h]
    congr 2
    apply congrArg
    apply List.map_congr_left
    intro it _
    exact (userItemPre_congr d d' it hkeys).symm
  · intro i _ hm
    apply userText_congr
    intro n hn
    by_cases e : n = t
    · subst e; rw [hm] at hn; cases hn
    · exact hsame n e

/-! non-vacuity: a block with an assigned ELSEIF, an unassigned IF, defaults and verbatim tags -/
section Example
def exDict : List (Str × Str) := [(T "B", T "7"), (T "V", [])]
def exLine : Spec.SLine := [.lit (T "x "), .tag (T "A") none, .lit (T " "), .tag (T "B") none, .tag (T "C") (some (T "dflt")), .tag (T "V") (some (T "9"))]
example : LineOK exLine ∧ NamesOK exLine := by decide
example : replaceUserTags exDict (Spec.renderLine exLine) = T "x <<<A>>> 7dflt\n" := by decide
def exCond : Spec.Item :=
  .cond (T "  ") [(T "A", [.line [.lit (T "a")]]), (T "B", [.line [.lit (T "b "), .tag (T "B") none]]), (T "V", [.blank (T " ")])]
    (some [.line [.lit (T "else")]])
example : doUserTags exDict (fun _ => true) [] exCond.render = some [T "b 7\n", T " \n"] := by decide
end Example

end KojenVerif.C17
