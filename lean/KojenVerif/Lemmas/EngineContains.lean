import KojenVerif.Lemmas.EngineStr
/-
  `kw in line` (Python substring test) on tag-structured text, for keywords without angle
  brackets: an occurrence lies inside one literal run or inside one tag body.
-/
namespace KojenVerif
namespace Engine
open Str

theorem isPrefixB_skipchar (kw x y : Str) (c : Nat) (hc : c ∉ kw) :
    isPrefixB kw (x ++ c :: y) = isPrefixB kw x := by
  induction kw generalizing x with
  | nil => simp [isPrefixB]
  | cons k ks ih =>
    have hk : k ≠ c := fun e => hc (by simp [e])
    have hks : c ∉ ks := fun m => hc (by simp [m])
    cases x with
    | nil => simp [isPrefixB, hk]
    | cons a x' => simp only [List.cons_append, isPrefixB, ih x' hks]

/-- a match cannot contain a character the pattern lacks -/
theorem contains_split (kw : Str) (c : Nat) (hc : c ∉ kw) (hne : kw ≠ []) (x y : Str) :
    contains kw (x ++ c :: y) = (contains kw x || contains kw y) := by
  have hemp : kw.isEmpty = false := by cases kw <;> simp_all
  induction x with
  | nil =>
    have hp : isPrefixB kw (c :: y) = false := by
      cases kw with
      | nil => exact absurd rfl hne
      | cons k ks =>
        have hk : k ≠ c := fun e => hc (by simp [e])
        simp [isPrefixB, hk]
    simp [contains, hp, hemp]
  | cons a x' ih =>
    simp only [List.cons_append, contains]
    rw [ih]
    have := isPrefixB_skipchar kw (a :: x') y c hc
    simp only [List.cons_append] at this
    rw [this, Bool.or_assoc]

theorem contains_nil_false (kw : Str) (hne : kw ≠ []) : contains kw [] = false := by
  cases kw <;> simp_all [contains]

/-- keywords: no angle bracket, no '=', no newline, not empty -/
structure KwOK (kw : Str) : Prop where
  lt : 60 ∉ kw
  gt : 62 ∉ kw
  eq : 61 ∉ kw
  nl : NL ∉ kw
  ne : kw ≠ []

/-- does the keyword occur in the text of the segment (literal, tag name or default) -/
def segHas (kw : Str) : Spec.Seg → Bool
  | .lit t => contains kw t
  | .tag n none => contains kw n
  | .tag n (some d) => contains kw n || contains kw d

/-- literals are separated by tags -/
def Sep : Spec.SLine → Prop
  | [] => True
  | [_] => True
  | .lit _ :: .lit _ :: _ => False
  | _ :: b :: r => Sep (b :: r)

theorem Sep.tail {s : Spec.Seg} {l : Spec.SLine} (h : Sep (s :: l)) : Sep l := by
  cases l with
  | nil => trivial
  | cons b r =>
    cases s with
    | lit t => cases b with
      | lit u => exact absurd h (by simp [Sep])
      | tag n d => simpa [Sep] using h
    | tag n d => simpa [Sep] using h

theorem contains_tag (kw body rest : Str) (h : KwOK kw) :
    contains kw (LLL ++ body ++ GGG ++ rest) = (contains kw body || contains kw rest) := by
  have e : LLL ++ body ++ GGG ++ rest = [] ++ 60 :: ([] ++ 60 :: ([] ++ 60 :: (body ++ 62 :: ([] ++ 62 :: ([] ++ 62 :: rest))))) := by
    simp [LLL, GGG]
  rw [e, contains_split kw 60 h.lt h.ne, contains_split kw 60 h.lt h.ne, contains_split kw 60 h.lt h.ne,
    contains_split kw 62 h.gt h.ne, contains_split kw 62 h.gt h.ne, contains_split kw 62 h.gt h.ne]
  simp [contains_nil_false kw h.ne]

/-- the text that follows a literal run starts with a tag or is the end of the line -/
inductive Follows : Str → Prop where
  | tag (body rest : Str) : Follows (LLL ++ body ++ GGG ++ rest)
  | eol : Follows [NL]

theorem contains_lit_then (kw t rest : Str) (h : KwOK kw) (hf : Follows rest) :
    contains kw (t ++ rest) = (contains kw t || contains kw rest) := by
  cases hf with
  | tag body r =>
    have e : t ++ (LLL ++ body ++ GGG ++ r) = t ++ 60 :: (60 :: 60 :: (body ++ GGG ++ r)) := by simp [LLL]
    have e2 : LLL ++ body ++ GGG ++ r = [] ++ 60 :: (60 :: 60 :: (body ++ GGG ++ r)) := by simp [LLL]
    rw [e, contains_split kw 60 h.lt h.ne, e2, contains_split kw 60 h.lt h.ne]
    simp [contains_nil_false kw h.ne]
  | eol =>
    have e : t ++ [NL] = t ++ NL :: [] := rfl
    have e2 : ([NL] : Str) = [] ++ NL :: [] := rfl
    rw [e, contains_split kw NL h.nl h.ne, e2, contains_split kw NL h.nl h.ne]
    simp [contains_nil_false kw h.ne]

theorem follows_segs (l : Spec.SLine) (hs : match l with | .lit _ :: _ => False | _ => True) :
    Follows (renderSegs l ++ [NL]) := by
  cases l with
  | nil => exact Follows.eol
  | cons s r =>
    cases s with
    | lit t => exact absurd hs (by simp)
    | tag n d =>
      cases d with
      | none =>
        have : renderSegs (.tag n none :: r) ++ [NL] = LLL ++ n ++ GGG ++ (renderSegs r ++ [NL]) := by
          simp [renderSegs, Spec.Seg.render]
        rw [this]; exact Follows.tag _ _
      | some d =>
        have : renderSegs (.tag n (some d) :: r) ++ [NL] = LLL ++ (n ++ [61] ++ d) ++ GGG ++ (renderSegs r ++ [NL]) := by
          simp [renderSegs, Spec.Seg.render]
        rw [this]; exact Follows.tag _ _

/-- **`kw in line`** for a rendered line: some literal, tag name or default contains it -/
theorem contains_renderLine (kw : Str) (h : KwOK kw) (l : Spec.SLine) (hs : Sep l) :
    contains kw (Spec.renderLine l) = l.any (segHas kw) := by
  rw [renderLine_eq]
  induction l with
  | nil =>
    have e2 : ([NL] : Str) = [] ++ NL :: [] := rfl
    simp only [renderSegs, List.map_nil, List.flatten_nil, List.nil_append, List.any_nil]
    rw [e2, contains_split kw NL h.nl h.ne]
    simp [contains_nil_false kw h.ne]
  | cons s r ih =>
    have hr := ih hs.tail
    cases s with
    | lit t =>
      have e : renderSegs (.lit t :: r) ++ [NL] = t ++ (renderSegs r ++ [NL]) := by simp [renderSegs, Spec.Seg.render]
      have hf : Follows (renderSegs r ++ [NL]) := by
        apply follows_segs
        cases r with
        | nil => trivial
        | cons b r' =>
          cases b with
          | lit u => exact absurd hs (by simp [Sep])
          | tag n d => trivial
      rw [e, contains_lit_then kw t _ h hf, hr]
      simp [segHas]
    | tag n d =>
      cases d with
      | none =>
        have e : renderSegs (.tag n none :: r) ++ [NL] = LLL ++ n ++ GGG ++ (renderSegs r ++ [NL]) := by
          simp [renderSegs, Spec.Seg.render]
        rw [e, contains_tag kw n _ h, hr]
        simp [segHas]
      | some d =>
        have e : renderSegs (.tag n (some d) :: r) ++ [NL] = LLL ++ (n ++ 61 :: d) ++ GGG ++ (renderSegs r ++ [NL]) := by
          simp [renderSegs, Spec.Seg.render]
        rw [e, contains_tag kw _ _ h, contains_split kw 61 h.eq h.ne, hr]
        simp [segHas]

end Engine
end KojenVerif
