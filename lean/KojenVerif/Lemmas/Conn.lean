import KojenVerif.Model.Conn
/-
  Reassembly proof for the connection layer: basic facts about `payloadSize`,
  `findPreamble`, `actualData`, and the branches of `handle`.
-/
namespace KojenVerif
namespace Conn

/-- a well-formed message for preamble `c`: header of 8 bytes starting with the two
    preamble bytes, payload size field equal to the number of payload bytes -/
structure IsMsg (c : Cfg) (m : Bytes) : Prop where
  len : 8 ≤ m.length
  b0 : m.head? = some c.p0
  b1 : m.getD 1 0 = c.p1
  size : payloadSize m = m.length - 8

theorem getD_take (l : Bytes) (n i : Nat) (h : i < n) : (l.take n).getD i 0 = l.getD i 0 := by
  simp only [List.getD_eq_getElem?_getD, List.getElem?_take, h, if_true]

theorem payloadSize_take (l : Bytes) (n : Nat) (h : 8 ≤ n) : payloadSize (l.take n) = payloadSize l := by
  unfold payloadSize
  rw [getD_take l n 4 (by omega), getD_take l n 5 (by omega), getD_take l n 6 (by omega), getD_take l n 7 (by omega)]

theorem payloadSize_congr (a b : Bytes) (h : a.take 8 = b.take 8) : payloadSize a = payloadSize b := by
  rw [← payloadSize_take a 8 (Nat.le_refl 8), ← payloadSize_take b 8 (Nat.le_refl 8), h]

theorem IsMsg.total (c : Cfg) (m : Bytes) (h : IsMsg c m) : headerSize + payloadSize m = m.length := by
  have := h.len; have := h.size; unfold headerSize; omega

theorem IsMsg.ne_nil (c : Cfg) (m : Bytes) (h : IsMsg c m) : m ≠ [] := by
  intro e; have := h.len; simp [e] at this

/-! ### FindPreamble -/

theorem findPreamble_none (c : Cfg) (d : Bytes) (h : c.p0 ∉ d) : findPreamble c d = none := by
  induction d with
  | nil => rfl
  | cons x d ih =>
    have hx : ¬ x = c.p0 := fun e => h (by simp [e])
    have hd : c.p0 ∉ d := fun m => h (by simp [m])
    cases d with
    | nil => simp [findPreamble, hx]
    | cons y rest =>
      simp [findPreamble, hx, ih hd]

theorem findPreamble_start (c : Cfg) (a : Bytes) (h0 : a.head? = some c.p0)
    (h1 : a.length = 1 ∨ a.getD 1 0 = c.p1) : findPreamble c a = some 0 := by
  cases a with
  | nil => simp at h0
  | cons x a =>
    simp only [List.head?_cons, Option.some.injEq] at h0
    cases a with
    | nil => simp [findPreamble, h0]
    | cons y rest =>
      rcases h1 with h1 | h1
      · simp at h1
      · simp only [List.getD_cons_succ, List.getD_cons_zero] at h1
        simp [findPreamble, h0, h1]

theorem findPreamble_skip (c : Cfg) (f a : Bytes) (hf : c.p0 ∉ f) (ha : a ≠ []) :
    findPreamble c (f ++ a) = (findPreamble c a).map (· + f.length) := by
  induction f with
  | nil => cases h : findPreamble c a <;> simp [h]
  | cons x f ih =>
    have hx : ¬ x = c.p0 := fun e => hf (by simp [e])
    have hf' : c.p0 ∉ f := fun m => hf (by simp [m])
    obtain ⟨y, rest, hyr⟩ : ∃ y rest, f ++ a = y :: rest := by
      cases hfa : f ++ a with
      | nil => simp [ha] at hfa
      | cons y rest => exact ⟨y, rest, rfl⟩
    simp only [List.cons_append, hyr, findPreamble, hx, false_and, if_false]
    rw [← hyr, ih hf']
    cases findPreamble c a <;> simp [Nat.add_assoc]

/-! ### early filtering -/

/-- `a` begins like a message: first byte p0 and, if there is a second byte, it is p1 -/
def StartsMsg (c : Cfg) (a : Bytes) : Prop :=
  a.head? = some c.p0 ∧ (a.length = 1 ∨ a.getD 1 0 = c.p1)

theorem actualData_mid (c : Cfg) (st : St) (d : Bytes) (h : st.buf ≠ []) :
    actualData c st d = some d := by
  have : ¬ st.buf.length = 0 := by
    intro e; exact h (List.eq_nil_of_length_eq_zero e)
  simp [actualData, this]

theorem actualData_none (c : Cfg) (d : Bytes) (hd : d ≠ []) (h : c.p0 ∉ d) :
    actualData c St.init d = none := by
  unfold actualData
  simp only [St.init, List.length_nil, if_true]
  by_cases h1 : d.length = 1
  · simp only [h1, if_true]
    cases d with
    | nil => exact absurd rfl hd
    | cons x d =>
      have hx : ¬ x = c.p0 := fun e => h (by simp [e])
      simp [hx]
  · simp [h1, findPreamble_none c d h]

theorem actualData_start (c : Cfg) (f a : Bytes) (hf : c.p0 ∉ f) (ha : StartsMsg c a) :
    actualData c St.init (f ++ a) = some a := by
  have hne : a ≠ [] := by intro e; simp [e, StartsMsg] at ha
  unfold actualData
  simp only [St.init, List.length_nil, if_true]
  by_cases h1 : (f ++ a).length = 1
  · have hf0 : f = [] := by
      cases f with
      | nil => rfl
      | cons x f =>
        cases a with
        | nil => exact absurd rfl hne
        | cons y a => simp at h1
    subst hf0
    simp only [List.nil_append] at h1 ⊢
    simp [h1, ha.1]
  · simp only [h1, if_false]
    rw [findPreamble_skip c f a hf hne, findPreamble_start c a ha.1 ha.2]
    simp


/-! ### branches of `handle` -/

variable (c : Cfg) (rec : St → Bytes → St × List Bytes)

theorem length_pos_of_ne_nil {l : Bytes} (h : l ≠ []) : 0 < l.length := by
  cases l with
  | nil => exact absurd rfl h
  | cons x l => simp

/-- mid-header, still fewer than 8 bytes -/
theorem handle_hdr_short (pre a : Bytes) (hpre : pre ≠ [])
    (h1 : pre.length = 1 → a.head? = some c.p1) (ht : pre.length + a.length < 8) :
    handle c rec ⟨pre, 0⟩ a = (⟨pre ++ a, 0⟩, []) := by
  have hp := length_pos_of_ne_nil hpre
  unfold handle
  simp only [hp, true_or, if_true, headerSize]
  have hc : ¬ (pre.length = 1 ∧ a.head? ≠ some c.p1) := fun ⟨e, n⟩ => n (h1 e)
  simp [hc, ht]

/-- mid-header, header completes, message does not -/
theorem handle_hdr_more (pre a : Bytes) (hpre : pre ≠ [])
    (h1 : pre.length = 1 → a.head? = some c.p1) (ht : 8 ≤ pre.length + a.length)
    (hlt : pre.length + a.length < 8 + payloadSize (pre ++ a.take (8 - pre.length))) :
    handle c rec ⟨pre, 0⟩ a
      = (⟨pre ++ a, 8 + payloadSize (pre ++ a.take (8 - pre.length)) - (pre.length + a.length)⟩, []) := by
  have hp := length_pos_of_ne_nil hpre
  unfold handle
  simp only [hp, true_or, if_true, headerSize]
  have hc : ¬ (pre.length = 1 ∧ a.head? ≠ some c.p1) := fun ⟨e, n⟩ => n (h1 e)
  have ht' : ¬ pre.length + a.length < 8 := by omega
  simp [hc, ht', hlt]

/-- what follows a completed message -/
def after (rec : St → Bytes → St × List Bytes) (st : St) (rest : Bytes) : St × List Bytes :=
  if rest.isEmpty then (st, []) else rec st rest

/-- mid-header, the whole message (and maybe more) is there -/
theorem handle_hdr_done (pre a : Bytes) (hpre : pre ≠ [])
    (h1 : pre.length = 1 → a.head? = some c.p1) (ht : 8 ≤ pre.length + a.length)
    (hge : 8 + payloadSize (pre ++ a.take (8 - pre.length)) ≤ pre.length + a.length) :
    handle c rec ⟨pre, 0⟩ a
      = ((after rec St.init (a.drop (8 - pre.length + payloadSize (pre ++ a.take (8 - pre.length))))).1,
         (pre ++ a.take (8 - pre.length) ++
            (a.drop (8 - pre.length)).take (payloadSize (pre ++ a.take (8 - pre.length)))) ::
         (after rec St.init (a.drop (8 - pre.length + payloadSize (pre ++ a.take (8 - pre.length))))).2) := by
  have hp := length_pos_of_ne_nil hpre
  unfold handle after
  simp only [hp, true_or, if_true, headerSize]
  have hc : ¬ (pre.length = 1 ∧ a.head? ≠ some c.p1) := fun ⟨e, n⟩ => n (h1 e)
  have ht' : ¬ pre.length + a.length < 8 := by omega
  have hge' : ¬ pre.length + a.length < 8 + payloadSize (pre ++ a.take (8 - pre.length)) := by omega
  simp [hc, ht', hge']

/-- mid-payload, not complete -/
theorem handle_pay_more (pre a : Bytes) (req : Nat) (hpre : 8 ≤ pre.length) (hreq : 0 < req)
    (hlt : a.length < req) :
    handle c rec ⟨pre, req⟩ a = (⟨pre ++ a, req - a.length⟩, []) := by
  unfold handle
  have hp : 0 < pre.length := by omega
  have h1 : ¬ pre.length = 1 := by omega
  have hr : ¬ req = 0 := by omega
  simp [hp, h1, hr, hlt]

/-- mid-payload, complete -/
theorem handle_pay_done (pre a : Bytes) (req : Nat) (hpre : 8 ≤ pre.length) (hreq : 0 < req)
    (hge : req ≤ a.length) :
    handle c rec ⟨pre, req⟩ a
      = ((after rec St.init (a.drop req)).1, (pre ++ a.take req) :: (after rec St.init (a.drop req)).2) := by
  unfold handle after
  have hp : 0 < pre.length := by omega
  have h1 : ¬ pre.length = 1 := by omega
  have hr : ¬ req = 0 := by omega
  have hge' : ¬ a.length < req := by omega
  simp [hp, h1, hr, hge']

/-- idle, fewer than 8 bytes of a new message -/
theorem handle_idle_short (a : Bytes) (hlt : a.length < 8) :
    handle c rec St.init a = (⟨a, 0⟩, []) := by
  unfold handle
  simp [St.init, headerSize, hlt]

/-- idle, header there, message incomplete (unfragmented path) -/
theorem handle_idle_more (a : Bytes) (h8 : 8 ≤ a.length) (hlt : a.length < 8 + payloadSize a) :
    handle c rec St.init a = (⟨a, 8 + payloadSize a - a.length⟩, []) := by
  unfold handle
  have : ¬ a.length < 8 := by omega
  simp [St.init, headerSize, this, hlt]

/-- idle, complete message in the chunk (unfragmented fast path) -/
theorem handle_idle_done (a : Bytes) (h8 : 8 ≤ a.length) (hge : 8 + payloadSize a ≤ a.length) :
    handle c rec St.init a
      = ((after rec St.init (a.drop (8 + payloadSize a))).1,
         a.take (8 + payloadSize a) :: (after rec St.init (a.drop (8 + payloadSize a))).2) := by
  unfold handle after
  have h1 : ¬ a.length < 8 := by omega
  have h2 : ¬ a.length < 8 + payloadSize a := by omega
  simp [St.init, headerSize, h1, h2]

end Conn
end KojenVerif
